import AFModel.Freeze

/-!
# C13 — model answers depend only on the current composition

Theorems about `fstep` / `frun` (`AFModel/Freeze.lean`) for any topology of live models (several
models, shared components, copies — a copy is a fresh set of nodes with cold caches) and any
operation history.
-/

namespace AF.C13
open AF

/-- laws of a topology extracted from an object graph -/
structure Lawful (T : Topo) : Prop where
  /-- an ancestor reaches its descendant -/
  anc_sub : ∀ a d, a ∈ T.anc d → d ∈ T.sub a
  /-- reachability is transitive -/
  sub_trans : ∀ n k d, k ∈ T.sub n → d ∈ T.sub k → d ∈ T.sub n
  /-- whatever reaches `d` is `d` itself or one of its ancestors -/
  sub_anc : ∀ k d, d ∈ T.sub k → k = d ∨ k ∈ T.anc d

/-- the invariant: cached answers are current, only frozen nodes hold a cache, and everything below
a frozen node is frozen -/
structure Inv (T : Topo) (s : FState) : Prop where
  cache_current : ∀ k key q v, (key, (q, v)) ∈ s.cache k → q = key ∧ v = s.version k
  cache_only_frozen : ∀ k, s.frozen k = false → s.cache k = []
  frozen_down : ∀ k d, s.frozen k = true → d ∈ T.sub k → s.frozen d = true

theorem inv_init (T : Topo) : Inv T FState.init :=
  ⟨by intro k key q v h; simp [FState.init] at h, by intro k _; rfl, by intro k d h; simp [FState.init] at h⟩

/-- what a dictionary look-up returns is an entry stored under an equal key -/
theorem lookup_some_mem (c : FCache) (q : Nat) (r : Nat × Nat) (h : c.lookup q = some r) : (q, r) ∈ c := by
  unfold FCache.lookup at h
  cases hf : c.find? (·.1 == q) with
  | none => simp [hf] at h
  | some e =>
    simp only [hf, Option.map_some, Option.some.injEq] at h
    have hm := List.mem_of_find?_eq_some hf
    have hk := List.find?_some hf
    simp only [beq_iff_eq] at hk
    obtain ⟨a, b⟩ := e
    simp only at hk h
    subst hk; subst h; exact hm

/-- is the operation one the theorem covers? every `unfreeze` must be *safe* in the current state
(in a tree: no frozen ancestor) -/
def opOk (T : Topo) (s : FState) : FOp → Prop
  | .unfreeze n => unfreezeSafe T s n = true
  | _ => True

theorem step_preserves (T : Topo) (hT : Lawful T) (s : FState) (op : FOp) (h : Inv T s)
    (hop : opOk T s op) : Inv T (fstep T s op).1 := by
  cases op with
  | query n q =>
    unfold fstep
    by_cases hf : s.frozen n = true
    · simp only [hf, if_true]
      cases hc : (s.cache n).lookup q with
      | some r => obtain ⟨q', v⟩ := r; exact h
      | none =>
        refine ⟨?_, ?_, h.frozen_down⟩
        · intro k key q' v hk
          simp only at hk
          by_cases hkn : k = n
          · subst hkn
            simp only [if_true, List.mem_append, List.mem_singleton, Prod.mk.injEq] at hk
            rcases hk with hk | ⟨rfl, rfl, rfl⟩
            · exact h.cache_current k key q' v hk
            · exact ⟨rfl, rfl⟩
          · simp only [hkn, if_false] at hk; exact h.cache_current k key q' v hk
        · intro k hk
          simp only
          by_cases hkn : k = n
          · subst hkn; simp [hf] at hk
          · simp [hkn]; exact h.cache_only_frozen k hk
    · simp only [hf]; exact h
  | freeze n =>
    refine ⟨h.cache_current, ?_, ?_⟩
    · intro k hk
      simp only [fstep] at hk ⊢
      by_cases hm : k ∈ T.sub n
      · simp [hm] at hk
      · simp [hm] at hk; exact h.cache_only_frozen k hk
    · intro k d hk hd
      simp only [fstep] at hk ⊢
      by_cases hm : k ∈ T.sub n
      · have := hT.sub_trans n k d hm hd
        simp [this]
      · simp [hm] at hk
        have := h.frozen_down k d hk hd
        by_cases hd' : d ∈ T.sub n <;> simp [hd', this]
  | unfreeze n =>
    simp only [opOk, unfreezeSafe, List.all_eq_true, Bool.or_eq_true, decide_eq_true_eq,
      Bool.not_eq_true'] at hop
    refine ⟨?_, ?_, ?_⟩
    · intro k key q v hk
      simp only [fstep] at hk ⊢
      by_cases hm : k ∈ T.sub n
      · simp [hm] at hk
      · simp [hm] at hk; exact h.cache_current k key q v hk
    · intro k hk
      simp only [fstep] at hk ⊢
      by_cases hm : k ∈ T.sub n
      · simp [hm]
      · simp [hm] at hk ⊢; exact h.cache_only_frozen k hk
    · intro k d hk hd
      simp only [fstep] at hk ⊢
      by_cases hm : k ∈ T.sub n
      · simp [hm] at hk
      · simp [hm] at hk
        have hfd := h.frozen_down k d hk hd
        by_cases hd' : d ∈ T.sub n
        · exfalso
          rcases hT.sub_anc k d hd with rfl | hka
          · exact hm hd'
          · rcases hop d hd' k hka with h1 | h1
            · exact hm h1
            · simp [hk] at h1
        · simp [hd', hfd]
  | modify n =>
    unfold fstep
    by_cases hf : s.frozen n = true
    · simp only [hf, if_true]; exact h
    · have hf' : s.frozen n = false := by simpa using hf
      simp only [hf', Bool.false_eq_true, if_false]
      refine ⟨?_, h.cache_only_frozen, h.frozen_down⟩
      intro k key q v hk
      simp only at hk ⊢
      have hv := h.cache_current k key q v hk
      have hnot : ¬ (k = n ∨ k ∈ T.anc n) := by
        rintro (rfl | hka)
        · rw [h.cache_only_frozen k hf'] at hk; cases hk
        · have hsub := hT.anc_sub k n hka
          by_cases hfk : s.frozen k = true
          · have := h.frozen_down k n hfk hsub
            rw [hf'] at this; cases this
          · have : s.frozen k = false := by simpa using hfk
            rw [h.cache_only_frozen k this] at hk; cases hk
      simp [hnot, hv]
  | failing n => exact h

/-- **A query is answered from the current composition** whenever the invariant holds: the answer
is the one of the very function and arguments asked for (`q`), computed from the current version — the
same whether or not the node is frozen, cached or not, and whatever other functions / arguments were
asked before (their entries never serve this one). -/
theorem query_fresh (T : Topo) (s : FState) (n q : Nat) (h : Inv T s) :
    (fstep T s (.query n q)).2 = .answered q (s.version n) := by
  unfold fstep
  by_cases hf : s.frozen n = true
  · simp only [hf, if_true]
    cases hc : (s.cache n).lookup q with
    | some r =>
      obtain ⟨q', v⟩ := r
      have := h.cache_current n q q' v (lookup_some_mem _ _ _ hc)
      simp [this.1, this.2]
    | none => rfl
  · simp [hf]

/-- a query never changes what any *other* function / argument key will be answered with, nor the
composition (queries are observations) -/
theorem query_keeps_versions (T : Topo) (s : FState) (n q : Nat) :
    (fstep T s (.query n q)).1.version = s.version ∧ (fstep T s (.query n q)).1.frozen = s.frozen := by
  unfold fstep
  by_cases hf : s.frozen n = true
  · simp only [hf, if_true]
    cases hc : (s.cache n).lookup q with
    | some r => obtain ⟨q', v⟩ := r; exact ⟨rfl, rfl⟩
    | none => exact ⟨rfl, rfl⟩
  · simp [hf]

/-- all operations of a history are covered (each unfreeze safe when it happens) -/
def historyOk (T : Topo) : FState → List FOp → Prop
  | _, [] => True
  | s, op :: rest => opOk T s op ∧ historyOk T (fstep T s op).1 rest

theorem history_preserves (T : Topo) (hT : Lawful T) : ∀ (ops : List FOp) (s : FState),
    Inv T s → historyOk T s ops → Inv T (frun T s ops).1
  | [], s, h, _ => by simpa [frun] using h
  | op :: rest, s, h, hok => by
    simp only [frun]
    exact history_preserves T hT rest _ (step_preserves T hT s op h hok.1) hok.2

/-- **History independence.** After any covered history (any interleaving of queries, freezes,
safe unfreezes, modifications — accepted or rejected — and failing calls, on any number of live
models) every query is answered from the current composition. -/
theorem history_independent (T : Topo) (hT : Lawful T) (ops : List FOp) (n q : Nat)
    (hok : historyOk T FState.init ops) :
    (fstep T (frun T FState.init ops).1 (.query n q)).2 =
      .answered q ((frun T FState.init ops).1.version n) :=
  query_fresh T _ n q (history_preserves T hT ops _ (inv_init T) hok)

/-- **A frozen model rejects assignment** and is left unchanged. -/
theorem frozen_rejects (T : Topo) (s : FState) (n : Nat) (h : s.frozen n = true) :
    fstep T s (.modify n) = (s, .rejected) := by
  simp [fstep, h]

/-- **Changes made after unfreezing are reflected**: an accepted modification advances the version
the node (and every node above it) answers from. -/
theorem modify_visible (T : Topo) (s : FState) (n : Nat) (h : s.frozen n = false) :
    (fstep T s (.modify n)).2 = .done ∧ (fstep T s (.modify n)).1.version n = s.version n + 1 ∧
    ∀ a ∈ T.anc n, (fstep T s (.modify n)).1.version a = s.version a + 1 := by
  simp only [fstep, h, Bool.false_eq_true, if_false, true_or, if_true, true_and]
  intro a ha
  simp [ha]

theorem unfreeze_unfreezes (T : Topo) (s : FState) (n : Nat) (hn : n ∈ T.sub n) :
    (fstep T s (.unfreeze n)).1.frozen n = false := by
  simp [fstep, hn]

/-- a failing call changes nothing -/
theorem failing_noop (T : Topo) (s : FState) (n : Nat) : (fstep T s (.failing n)).1 = s := rfl

/-! ## the uncovered case, as it is: unfreezing a component below a frozen parent

`child.unfreeze()` is accepted by the library although the parent stays frozen; a later change of
the child is then not reflected by the parent (known finding C13-child-unfreeze). -/

def chain : Topo := { sub := fun n => if n = 0 then [0, 1] else if n = 1 then [1] else [],
                      anc := fun n => if n = 1 then [0] else [] }

theorem chain_lawful : Lawful chain := by
  refine ⟨?_, ?_, ?_⟩
  · intro a d h
    simp only [chain] at h ⊢
    by_cases hd : d = 1 <;> simp_all
  · intro n k d hk hd
    simp only [chain] at hk hd ⊢
    by_cases h0 : n = 0
    · subst h0
      by_cases hk0 : k = 0
      · subst hk0; simpa using hd
      · by_cases hk1 : k = 1
        · subst hk1; simp at hd; simp [hd]
        · simp [hk0, hk1] at hd
    · by_cases h1 : n = 1
      · subst h1; simp at hk; subst hk; simpa using hd
      · simp [h0, h1] at hk
  · intro k d h
    simp only [chain] at h ⊢
    by_cases h0 : k = 0
    · subst h0; simp at h; rcases h with rfl | rfl <;> simp
    · by_cases h1 : k = 1
      · subst h1; simp at h; simp [h]
      · simp [h0, h1] at h

theorem stale_after_child_unfreeze_refuted :
    (frun chain FState.init [.freeze 0, .query 0 7, .unfreeze 1, .modify 1, .query 0 7]).2 =
      [.done, .answered 7 0, .done, .done, .answered 7 0] ∧
    (frun chain FState.init [.freeze 0, .query 0 7, .unfreeze 1, .modify 1, .query 0 7]).1.version 0 = 1 := by
  decide

/-- non-vacuity: the same history with the unfreeze applied to the parent is covered and fresh -/
example : historyOk chain FState.init [.freeze 0, .query 0 7, .unfreeze 0, .modify 1, .query 0 7] := by
  simp [historyOk, opOk, unfreezeSafe, fstep, chain, FState.init, FCache.lookup]
example : (frun chain FState.init [.freeze 0, .query 0 7, .unfreeze 0, .modify 1, .query 0 7]).2 =
    [.done, .answered 7 0, .done, .done, .answered 7 1] := by decide
/-- entries of different functions / arguments on one frozen node do not serve each other -/
example : (frun chain FState.init [.freeze 0, .query 0 7, .query 0 8, .query 0 7, .query 1 8]).2 =
    [.done, .answered 7 0, .answered 8 0, .answered 7 0, .answered 8 0] := by decide
example : (frun chain FState.init [.freeze 0, .modify 1]).2 = [.done, .rejected] := by decide

end AF.C13
