import AFModel.Freeze
import AFModel.FreezeTree
import AFProofs.Lemmas.FreezeTree
import AFModel.RecCache
import AFProofs.Lemmas.RecCache

/-!
# C13 — model answers depend only on the current composition

Theorems about `fstep` / `frun` (`AFModel/Freeze.lean`) for any topology of live models (several
models, shared components, copies — a copy is a fresh set of nodes with cold caches) and any
operation history.
-/

namespace AF.C13
open AF

/-- laws of a topology extracted from an object graph -/
structure Lawful (T : Topo) : Prop where
  /-- an ancestor reaches its descendant -/
  anc_sub : ∀ a d, a ∈ T.anc d → d ∈ T.sub a
  /-- reachability is transitive -/
  sub_trans : ∀ n k d, k ∈ T.sub n → d ∈ T.sub k → d ∈ T.sub n
  /-- whatever reaches `d` is `d` itself or one of its ancestors -/
  sub_anc : ∀ k d, d ∈ T.sub k → k = d ∨ k ∈ T.anc d

/-- the invariant: cached answers are current, only frozen nodes hold a cache, and everything below
a frozen node is frozen -/
structure Inv (T : Topo) (s : FState) : Prop where
  cache_current : ∀ k key q v, (key, (q, v)) ∈ s.cache k → q = key ∧ v = s.version k
  cache_only_frozen : ∀ k, s.frozen k = false → s.cache k = []
  frozen_down : ∀ k d, s.frozen k = true → d ∈ T.sub k → s.frozen d = true

theorem inv_init (T : Topo) : Inv T FState.init :=
  ⟨by intro k key q v h; simp [FState.init] at h, by intro k _; rfl, by intro k d h; simp [FState.init] at h⟩

/-- what a dictionary look-up returns is an entry stored under an equal key -/
theorem lookup_some_mem (c : FCache) (q : Nat) (r : Nat × Nat) (h : c.lookup q = some r) : (q, r) ∈ c := by
  unfold FCache.lookup at h
  cases hf : c.find? (·.1 == q) with
  | none => simp [hf] at h
  | some e =>
    simp only [hf, Option.map_some, Option.some.injEq] at h
    have hm := List.mem_of_find?_eq_some hf
    have hk := List.find?_some hf
    simp only [beq_iff_eq] at hk
    obtain ⟨a, b⟩ := e
    simp only at hk h
    subst hk; subst h; exact hm

/-- is the operation one the theorem covers? every `unfreeze` must be *safe* in the current state
(in a tree: no frozen ancestor) -/
def opOk (T : Topo) (s : FState) : FOp → Prop
  | .unfreeze n => unfreezeSafe T s n = true
  | _ => True

theorem step_preserves (T : Topo) (hT : Lawful T) (s : FState) (op : FOp) (h : Inv T s)
    (hop : opOk T s op) : Inv T (fstep T s op).1 := by
  cases op with
  | query n q =>
    unfold fstep
    by_cases hf : s.frozen n = true
    · simp only [hf, if_true]
      cases hc : (s.cache n).lookup q with
      | some r => obtain ⟨q', v⟩ := r; exact h
      | none =>
        refine ⟨?_, ?_, h.frozen_down⟩
        · intro k key q' v hk
          simp only at hk
          by_cases hkn : k = n
          · subst hkn
            simp only [if_true, List.mem_append, List.mem_singleton, Prod.mk.injEq] at hk
            rcases hk with hk | ⟨rfl, rfl, rfl⟩
            · exact h.cache_current k key q' v hk
            · exact ⟨rfl, rfl⟩
          · simp only [hkn, if_false] at hk; exact h.cache_current k key q' v hk
        · intro k hk
          simp only
          by_cases hkn : k = n
          · subst hkn; simp [hf] at hk
          · simp [hkn]; exact h.cache_only_frozen k hk
    · simp only [hf]; exact h
  | freeze n =>
    refine ⟨h.cache_current, ?_, ?_⟩
    · intro k hk
      simp only [fstep] at hk ⊢
      by_cases hm : k ∈ T.sub n
      · simp [hm] at hk
      · simp [hm] at hk; exact h.cache_only_frozen k hk
    · intro k d hk hd
      simp only [fstep] at hk ⊢
      by_cases hm : k ∈ T.sub n
      · have := hT.sub_trans n k d hm hd
        simp [this]
      · simp [hm] at hk
        have := h.frozen_down k d hk hd
        by_cases hd' : d ∈ T.sub n <;> simp [hd', this]
  | unfreeze n =>
    simp only [opOk, unfreezeSafe, List.all_eq_true, Bool.or_eq_true, decide_eq_true_eq,
      Bool.not_eq_true'] at hop
    refine ⟨?_, ?_, ?_⟩
    · intro k key q v hk
      simp only [fstep] at hk ⊢
      by_cases hm : k ∈ T.sub n
      · simp [hm] at hk
      · simp [hm] at hk; exact h.cache_current k key q v hk
    · intro k hk
      simp only [fstep] at hk ⊢
      by_cases hm : k ∈ T.sub n
      · simp [hm]
      · simp [hm] at hk ⊢; exact h.cache_only_frozen k hk
    · intro k d hk hd
      simp only [fstep] at hk ⊢
      by_cases hm : k ∈ T.sub n
      · simp [hm] at hk
      · simp [hm] at hk
        have hfd := h.frozen_down k d hk hd
        by_cases hd' : d ∈ T.sub n
        · exfalso
          rcases hT.sub_anc k d hd with rfl | hka
          · exact hm hd'
          · rcases hop d hd' k hka with h1 | h1
            · exact hm h1
            · simp [hk] at h1
        · simp [hd', hfd]
  | modify n =>
    unfold fstep
    by_cases hf : s.frozen n = true
    · simp only [hf, if_true]; exact h
    · have hf' : s.frozen n = false := by simpa using hf
      simp only [hf', Bool.false_eq_true, if_false]
      refine ⟨?_, h.cache_only_frozen, h.frozen_down⟩
      intro k key q v hk
      simp only at hk ⊢
      have hv := h.cache_current k key q v hk
      have hnot : ¬ (k = n ∨ k ∈ T.anc n) := by
        rintro (rfl | hka)
        · rw [h.cache_only_frozen k hf'] at hk; cases hk
        · have hsub := hT.anc_sub k n hka
          by_cases hfk : s.frozen k = true
          · have := h.frozen_down k n hfk hsub
            rw [hf'] at this; cases this
          · have : s.frozen k = false := by simpa using hfk
            rw [h.cache_only_frozen k this] at hk; cases hk
      simp [hnot, hv]
  | failing n => exact h

/-- **A query is answered from the current composition** whenever the invariant holds: the answer
is the one of the very function and arguments asked for (`q`), computed from the current version — the
same whether or not the node is frozen, cached or not, and whatever other functions / arguments were
asked before (their entries never serve this one). -/
theorem query_fresh (T : Topo) (s : FState) (n q : Nat) (h : Inv T s) :
    (fstep T s (.query n q)).2 = .answered q (s.version n) := by
  unfold fstep
  by_cases hf : s.frozen n = true
  · simp only [hf, if_true]
    cases hc : (s.cache n).lookup q with
    | some r =>
      obtain ⟨q', v⟩ := r
      have := h.cache_current n q q' v (lookup_some_mem _ _ _ hc)
      simp [this.1, this.2]
    | none => rfl
  · simp [hf]

/-- a query never changes what any *other* function / argument key will be answered with, nor the
composition (queries are observations) -/
theorem query_keeps_versions (T : Topo) (s : FState) (n q : Nat) :
    (fstep T s (.query n q)).1.version = s.version ∧ (fstep T s (.query n q)).1.frozen = s.frozen := by
  unfold fstep
  by_cases hf : s.frozen n = true
  · simp only [hf, if_true]
    cases hc : (s.cache n).lookup q with
    | some r => obtain ⟨q', v⟩ := r; exact ⟨rfl, rfl⟩
    | none => exact ⟨rfl, rfl⟩
  · simp [hf]

/-- all operations of a history are covered (each unfreeze safe when it happens) -/
def historyOk (T : Topo) : FState → List FOp → Prop
  | _, [] => True
  | s, op :: rest => opOk T s op ∧ historyOk T (fstep T s op).1 rest

theorem history_preserves (T : Topo) (hT : Lawful T) : ∀ (ops : List FOp) (s : FState),
    Inv T s → historyOk T s ops → Inv T (frun T s ops).1
  | [], s, h, _ => by simpa [frun] using h
  | op :: rest, s, h, hok => by
    simp only [frun]
    exact history_preserves T hT rest _ (step_preserves T hT s op h hok.1) hok.2

/-- **History independence.** After any covered history (any interleaving of queries, freezes,
safe unfreezes, modifications — accepted or rejected — and failing calls, on any number of live
models) every query is answered from the current composition. -/
theorem history_independent (T : Topo) (hT : Lawful T) (ops : List FOp) (n q : Nat)
    (hok : historyOk T FState.init ops) :
    (fstep T (frun T FState.init ops).1 (.query n q)).2 =
      .answered q ((frun T FState.init ops).1.version n) :=
  query_fresh T _ n q (history_preserves T hT ops _ (inv_init T) hok)

/-- **A frozen model rejects assignment** and is left unchanged. -/
theorem frozen_rejects (T : Topo) (s : FState) (n : Nat) (h : s.frozen n = true) :
    fstep T s (.modify n) = (s, .rejected) := by
  simp [fstep, h]

/-- **Changes made after unfreezing are reflected**: an accepted modification advances the version
the node (and every node above it) answers from. -/
theorem modify_visible (T : Topo) (s : FState) (n : Nat) (h : s.frozen n = false) :
    (fstep T s (.modify n)).2 = .done ∧ (fstep T s (.modify n)).1.version n = s.version n + 1 ∧
    ∀ a ∈ T.anc n, (fstep T s (.modify n)).1.version a = s.version a + 1 := by
  simp only [fstep, h, Bool.false_eq_true, if_false, true_or, if_true, true_and]
  intro a ha
  simp [ha]

theorem unfreeze_unfreezes (T : Topo) (s : FState) (n : Nat) (hn : n ∈ T.sub n) :
    (fstep T s (.unfreeze n)).1.frozen n = false := by
  simp [fstep, hn]

/-- a failing call changes nothing -/
theorem failing_noop (T : Topo) (s : FState) (n : Nat) : (fstep T s (.failing n)).1 = s := rfl

/-! ## the uncovered case, as it is: unfreezing a component below a frozen parent

`child.unfreeze()` is accepted by the library although the parent stays frozen; a later change of
the child is then not reflected by the parent (known finding C13-child-unfreeze). -/

def chain : Topo := { sub := fun n => if n = 0 then [0, 1] else if n = 1 then [1] else [],
                      anc := fun n => if n = 1 then [0] else [] }

theorem chain_lawful : Lawful chain := by
  refine ⟨?_, ?_, ?_⟩
  · intro a d h
    simp only [chain] at h ⊢
    by_cases hd : d = 1 <;> simp_all
  · intro n k d hk hd
    simp only [chain] at hk hd ⊢
    by_cases h0 : n = 0
    · subst h0
      by_cases hk0 : k = 0
      · subst hk0; simpa using hd
      · by_cases hk1 : k = 1
        · subst hk1; simp at hd; simp [hd]
        · simp [hk0, hk1] at hd
    · by_cases h1 : n = 1
      · subst h1; simp at hk; subst hk; simpa using hd
      · simp [h0, h1] at hk
  · intro k d h
    simp only [chain] at h ⊢
    by_cases h0 : k = 0
    · subst h0; simp at h; rcases h with rfl | rfl <;> simp
    · by_cases h1 : k = 1
      · subst h1; simp at h; simp [h]
      · simp [h0, h1] at h

theorem stale_after_child_unfreeze_refuted :
    (frun chain FState.init [.freeze 0, .query 0 7, .unfreeze 1, .modify 1, .query 0 7]).2 =
      [.done, .answered 7 0, .done, .done, .answered 7 0] ∧
    (frun chain FState.init [.freeze 0, .query 0 7, .unfreeze 1, .modify 1, .query 0 7]).1.version 0 = 1 := by
  decide

/-- non-vacuity: the same history with the unfreeze applied to the parent is covered and fresh -/
example : historyOk chain FState.init [.freeze 0, .query 0 7, .unfreeze 0, .modify 1, .query 0 7] := by
  simp [historyOk, opOk, unfreezeSafe, fstep, chain, FState.init, FCache.lookup]
example : (frun chain FState.init [.freeze 0, .query 0 7, .unfreeze 0, .modify 1, .query 0 7]).2 =
    [.done, .answered 7 0, .done, .done, .answered 7 1] := by decide
/-- entries of different functions / arguments on one frozen node do not serve each other -/
example : (frun chain FState.init [.freeze 0, .query 0 7, .query 0 8, .query 0 7, .query 1 8]).2 =
    [.done, .answered 7 0, .answered 8 0, .answered 7 0, .answered 8 0] := by decide
example : (frun chain FState.init [.freeze 0, .modify 1]).2 = [.done, .rejected] := by decide

end AF.C13

/-!
# Refinement to the composition (`AFModel/FreezeTree.lean`)

The abstract `version` of a node is replaced by content: every live model is a composition tree
(`AF.Node`), objects are addressed by their attribute path, the topology is the prefix order of paths
(so the reachability laws `Lawful` assumed above are facts here), modifications edit the tree, the
cache holds the values of the cached library functions, and the answers are the `Comp` functions
(`count`, `paths`, `pathPriors`, `uniquePaths`, `uniqueIds`, `instFromVector`) of the subtree.
-/

namespace AF.C13
open AF AF.FT

/-- every live model satisfies the invariant (cached entries are the values of their functions on
the composition now at that place; only frozen objects hold entries; everything below a frozen
object is frozen) -/
def SInv {V} (S : Store V) : Prop := ∀ s ∈ S.roots, TInv s

/-- freshly composed models satisfy it -/
theorem sinv_fresh {V} (ts : List (Node V)) : SInv ⟨ts.map TState.init⟩ := by
  intro s hs
  simp only [List.mem_map] at hs
  obtain ⟨t, _, rfl⟩ := hs
  exact tinv_init t

theorem sstep_on_eq {V} [Inhabited V] (ops : Ops V) (S : Store V) (r : Nat) (op : TOp V) (s : TState V)
    (hr : S.roots[r]? = some s) :
    sstep ops S (.on r op) = (⟨S.roots.set r (tstep ops s op).1⟩, (tstep ops s op).2) := by
  simp only [sstep, hr]

theorem sstep_copy_eq {V} [Inhabited V] (ops : Ops V) (S : Store V) (r : Nat) (p : Path) (s : TState V)
    (n : Node V) (hr : S.roots[r]? = some s) (hat : s.tree.at p = some n) :
    sstep ops S (.copy r p) =
      (⟨S.roots ++ [{ tree := n, frozen := fun x => s.frozen (p ++ x), cache := fun _ => TCache.empty }]⟩, .done) := by
  simp only [sstep, hr, hat]

theorem sstep_preserves {V} [Inhabited V] (ops : Ops V) (S : Store V) (op : SOp V) (h : SInv S)
    (hop : sopSafe S op = true) : SInv (sstep ops S op).1 := by
  cases op with
  | on r top =>
    cases hr : S.roots[r]? with
    | none => simpa [sstep, hr] using h
    | some s =>
      have hs : s ∈ S.roots := List.mem_of_getElem? hr
      have hok : topOk s top := by
        cases top <;> simp only [topOk]
        case unfreeze p => simpa [sopSafe, hr] using hop
      rw [sstep_on_eq ops S r top s hr]
      intro s' hs'
      rcases List.mem_or_eq_of_mem_set hs' with h1 | rfl
      · exact h s' h1
      · exact tstep_preserves ops s top (h s hs) hok
  | copy r p =>
    cases hr : S.roots[r]? with
    | none => simpa [sstep, hr] using h
    | some s =>
      have hs : s ∈ S.roots := List.mem_of_getElem? hr
      cases hat : s.tree.at p with
      | none => simpa [sstep, hr, hat] using h
      | some n =>
        rw [sstep_copy_eq ops S r p s n hr hat]
        intro s' hs'
        simp only [List.mem_append, List.mem_singleton] at hs'
        rcases hs' with h1 | rfl
        · exact h s' h1
        · refine ⟨fun _ m _ => cacheOK_empty m, fun _ _ => rfl, ?_⟩
          intro q q' hq hqq
          exact (h s hs).frozen_down (p ++ q) (p ++ q') hq ((List.prefix_append_right_inj p).mpr hqq)

/-- all operations of a history are covered (each unfreeze safe when it happens) -/
def shistoryOk {V} [Inhabited V] (ops : Ops V) : Store V → List (SOp V) → Prop
  | _, [] => True
  | S, op :: rest => sopSafe S op = true ∧ shistoryOk ops (sstep ops S op).1 rest

theorem shistory_preserves {V} [Inhabited V] (ops : Ops V) : ∀ (hist : List (SOp V)) (S : Store V),
    SInv S → shistoryOk ops S hist → SInv (srun ops S hist).1
  | [], S, h, _ => by simpa [srun] using h
  | op :: rest, S, h, hok => by
    simp only [srun]
    exact shistory_preserves ops rest _ (sstep_preserves ops S op h hok.1) hok.2

/-- **History independence over real compositions.** Start from any freshly composed models; run
any covered history — queries of any kind, freezes, safe unfreezes, attribute assignments (priors,
constants, whole components, tuple members) and removals — accepted or rejected —, failing calls,
copies, on any of the live models. Then every question asked of any object of any live model is
answered with the `Comp` answer of the composition *now* at that place. -/
theorem tree_history_independent {V} [Inhabited V] (ops : Ops V) (ts : List (Node V))
    (hist : List (SOp V)) (hok : shistoryOk ops ⟨ts.map TState.init⟩ hist)
    (r : Nat) (p : Path) (q : TQuery V) (s : TState V) (n : Node V)
    (hr : (srun ops ⟨ts.map TState.init⟩ hist).1.roots[r]? = some s)
    (hat : s.tree.at p = some n) (ho : n.isObj = true) :
    (sstep ops (srun ops ⟨ts.map TState.init⟩ hist).1 (.on r (.query p q))).2 =
      .answered (tanswer ops n q) := by
  have hinv := shistory_preserves ops hist _ (sinv_fresh ts) hok
  have hs : TInv s := hinv s (List.mem_of_getElem? hr)
  obtain ⟨c, hc, rfl⟩ := tstep_query_fresh ops s p q n hs hat ho
  rw [sstep_on_eq ops _ r _ s hr]; exact hc

/-- the answer does not depend on being frozen: the same state with the flags of the object
flipped answers the same (one statement for "frozen or not") -/
theorem tree_query_frozen_or_not {V} [Inhabited V] (ops : Ops V) (s : TState V) (p : Path) (q : TQuery V)
    (n : Node V) (h : TInv s) (hat : s.tree.at p = some n) (ho : n.isObj = true) :
    (tstep ops s (.query p q)).2 = .answered (tanswer ops n q) ∧
    (tstep ops (TState.init s.tree) (.query p q)).2 = .answered (tanswer ops n q) := by
  obtain ⟨c, hc, rfl⟩ := tstep_query_fresh ops s p q n h hat ho
  obtain ⟨c', hc', rfl⟩ := tstep_query_fresh ops (TState.init s.tree) p q n (tinv_init _) hat ho
  exact ⟨hc, hc'⟩

/-- **A frozen model rejects assignment and removal** and is left unchanged. -/
theorem tree_frozen_rejects {V} [Inhabited V] (ops : Ops V) (s : TState V) (p : Path) (n : Node V)
    (k : String) (v : Node V) (hat : s.tree.at p = some n) (hf : s.frozen p = true) :
    tstep ops s (.setAttr p k v) = (s, .rejected) ∧ tstep ops s (.remove p k) = (s, .rejected) := by
  simp [tstep, tmodify, hat, hf]

/-- **Changes made after unfreezing are reflected** (1): an assignment on an unfrozen collection puts
the value at its place in the composition … -/
theorem tree_set_reflected {V} [Inhabited V] (ops : Ops V) (s : TState V) (p : Path)
    (attrs : List (String × Node V)) (k : String) (v : Node V)
    (hat : s.tree.at p = some (.coll attrs)) (hf : s.frozen p = false) :
    (tstep ops s (.setAttr p k v)).1.tree.at (p ++ [k]) = some v := by
  simp only [tstep, tmodify, hat, hf, modPlan, Bool.false_eq_true, if_false]
  rw [at_append, at_updAt_self, hat]
  simp [Node.withAttrs, Node.attrs, at_cons, at_nil, lookupAttr_setKey_self]

/-- … a removal takes it away … -/
theorem tree_remove_reflected {V} [Inhabited V] (ops : Ops V) (s : TState V) (p : Path)
    (attrs : List (String × Node V)) (k : String)
    (hat : s.tree.at p = some (.coll attrs)) (hf : s.frozen p = false) :
    (tstep ops s (.remove p k)).1.tree.at (p ++ [k]) = none := by
  simp only [tstep, tmodify, hat, hf, modPlan, Bool.false_eq_true, if_false]
  rw [at_append, at_updAt_self, hat]
  simp [Node.withAttrs, Node.attrs, at_cons, lookupAttr_eraseKey_self]

/-- … (2) and the very next question — of the modified object — is answered from the modified
composition, whatever was cached before. -/
theorem tree_modify_then_query {V} [Inhabited V] (ops : Ops V) (s : TState V) (p : Path) (op : TOp V)
    (n : Node V) (k : String) (f) (q : TQuery V) (h : TInv s)
    (hat : s.tree.at p = some n) (hf : s.frozen p = false) (hplan : modPlan n op = some (k, f))
    (ho : (n.withAttrs (f n.attrs)).isObj = true) :
    (tmodify s p op).2 = .done ∧
    (tstep ops (tmodify s p op).1 (.query p q)).2 = .answered (tanswer ops (n.withAttrs (f n.attrs)) q) := by
  have hinv : TInv (tmodify s p op).1 :=
    tmodify_preserves s p op h (fun n k f => modPlan_keeps n op k f)
  have hat' : (tmodify s p op).1.tree.at p = some (n.withAttrs (f n.attrs)) := by
    simp only [tmodify, hat, hf, hplan, Bool.false_eq_true, if_false]
    rw [at_updAt_self, hat]; rfl
  obtain ⟨c, hc, rfl⟩ := tstep_query_fresh ops _ p q _ hinv hat' ho
  refine ⟨?_, hc⟩
  simp only [tmodify, hat, hf, hplan, Bool.false_eq_true, if_false]

/-- **Copies.** A copy (deepcopy / `.copy()` / pickle round trip) of an object answers every
question like the original at copy time, keeps the frozen flag and starts with a cold cache. -/
theorem copy_answers_like_original {V} [Inhabited V] (ops : Ops V) (S : Store V) (h : SInv S)
    (r : Nat) (p : Path) (q : TQuery V) (s : TState V) (n : Node V)
    (hr : S.roots[r]? = some s) (hat : s.tree.at p = some n) (ho : n.isObj = true) :
    (sstep ops S (.copy r p)).2 = .done ∧
    (sstep ops (sstep ops S (.copy r p)).1 (.on S.roots.length (.query [] q))).2 = .answered (tanswer ops n q) ∧
    (sstep ops S (.on r (.query p q))).2 = .answered (tanswer ops n q) := by
  have hinv' := sstep_preserves ops S (.copy r p) h rfl
  rw [sstep_copy_eq ops S r p s n hr hat] at hinv' ⊢
  have hnew : (S.roots ++ [({ tree := n, frozen := fun x => s.frozen (p ++ x), cache := fun _ => TCache.empty } : TState V)])[S.roots.length]? =
      some { tree := n, frozen := fun x => s.frozen (p ++ x), cache := fun _ => TCache.empty } := by
    simp
  refine ⟨rfl, ?_, ?_⟩
  · obtain ⟨c, hc, rfl⟩ := tstep_query_fresh ops _ [] q n (hinv' _ (List.mem_of_getElem? hnew)) (at_nil n) ho
    rw [sstep_on_eq ops _ _ _ _ hnew]; exact hc
  · obtain ⟨c, hc, rfl⟩ := tstep_query_fresh ops s p q n (h s (List.mem_of_getElem? hr)) hat ho
    rw [sstep_on_eq ops _ r _ s hr]; exact hc

theorem copy_keeps_frozen_flag {V} [Inhabited V] (ops : Ops V) (S : Store V)
    (r : Nat) (p : Path) (s : TState V) (n : Node V)
    (hr : S.roots[r]? = some s) (hat : s.tree.at p = some n) :
    ∃ s', (sstep ops S (.copy r p)).1.roots[S.roots.length]? = some s' ∧ s'.tree = n ∧
      s'.frozen [] = s.frozen p ∧ ∀ x, s'.cache x = TCache.empty := by
  rw [sstep_copy_eq ops S r p s n hr hat]
  refine ⟨{ tree := n, frozen := fun x => s.frozen (p ++ x), cache := fun _ => TCache.empty }, ?_, rfl, ?_, fun _ => rfl⟩
  · simp
  · simp

/-- **Independence.** An operation on one live model leaves every other live model (the original of a
copy, its copies, unrelated models) exactly as it was; a copy leaves all existing models as they were. -/
theorem other_models_untouched {V} [Inhabited V] (ops : Ops V) (S : Store V) (r r' : Nat) (op : TOp V)
    (hne : r ≠ r') : (sstep ops S (.on r op)).1.roots[r']? = S.roots[r']? := by
  simp only [sstep]
  cases hr : S.roots[r]? with
  | none => rfl
  | some s => simp [List.getElem?_set_ne hne]

theorem copy_leaves_existing {V} [Inhabited V] (ops : Ops V) (S : Store V) (r r' : Nat) (p : Path)
    (hlt : r' < S.roots.length) : (sstep ops S (.copy r p)).1.roots[r']? = S.roots[r']? := by
  cases hr : S.roots[r]? with
  | none => simp only [sstep, hr]
  | some s =>
    cases hat : s.tree.at p with
    | none => simp only [sstep, hr, hat]
    | some n =>
      rw [sstep_copy_eq ops S r p s n hr hat]
      exact List.getElem?_append_left hlt

/-! ## witnesses -/

def unitOps : Ops Nat where
  bin := fun _ a b => a + b
  un := fun _ a => a
  nameLe := fun a b => decide (a ≤ b)
  lt := fun a b => decide (a < b)
  le := fun a b => decide (a ≤ b)

/-- `Collection(g=Model(P2), k=<prior 3>)`, the prior 3 also being `g.b` -/
def wtree : Node Nat :=
  .coll [("g", .model "P2" ["a", "b"] [("a", .prior 1), ("b", .prior 3)]), ("k", .prior 3)]

def outNat : TOut Nat → Nat
  | .answered (.nat k) => k
  | .answered (.natsA l) => 100 + l.length
  | .rejected => 77
  | .done => 88
  | _ => 99

/-- the uncovered case on real content: unfreezing the component below its frozen parent, fixing a
parameter of the component — the parent still counts it (known finding C13-child-unfreeze) -/
theorem tree_stale_after_child_unfreeze_refuted :
    ((srun unitOps ⟨[TState.init wtree]⟩
      [.on 0 (.freeze []), .on 0 (.query [] .count), .on 0 (.unfreeze ["g"]),
       .on 0 (.setAttr ["g"] "a" (.const 5)), .on 0 (.query [] .count), .on 0 (.query ["g"] .count)]).2.map outNat
      = [88, 2, 88, 88, 2, 1]) ∧
    (sopSafe (srun unitOps ⟨[TState.init wtree]⟩ [.on 0 (.freeze []), .on 0 (.query [] .count)]).1
      (.on 0 (.unfreeze ["g"])) = false) := by
  decide

/-- non-vacuity: the same history with the unfreeze applied to the parent is covered, and fresh -/
example : shistoryOk unitOps ⟨[TState.init wtree]⟩
    [.on 0 (.freeze []), .on 0 (.query [] .count), .on 0 (.unfreeze []),
     .on 0 (.setAttr ["g"] "a" (.const 5)), .on 0 (.query [] .count)] := by
  simp only [shistoryOk]; decide
example : (srun unitOps ⟨[TState.init wtree]⟩
    [.on 0 (.freeze []), .on 0 (.query [] .count), .on 0 (.unfreeze []),
     .on 0 (.setAttr ["g"] "a" (.const 5)), .on 0 (.query [] .count), .on 0 (.freeze ["g"]),
     .on 0 (.setAttr ["g"] "b" (.const 5)), .copy 0 ["g"], .on 1 (.query [] .ids),
     .on 1 (.setAttr [] "b" (.const 5)), .on 1 (.unfreeze []), .on 1 (.setAttr [] "b" (.const 5)),
     .on 1 (.query [] .count), .on 0 (.query ["g"] .count), .on 0 (.remove [] "k"), .on 0 (.query [] .count)]).2.map outNat
    = [88, 2, 88, 88, 1, 88, 77, 88, 101, 77, 88, 88, 0, 1, 88, 1] := by
  decide
example : wtree.at ["g"] = some (.model "P2" ["a", "b"] [("a", .prior 1), ("b", .prior 3)]) ∧
    (Node.model "P2" ["a", "b"] [("a", Node.prior (V := Nat) 1), ("b", .prior 3)]).isObj = true :=
  ⟨by simp [wtree, at_cons, at_nil, Node.attrs, lookupAttr], rfl⟩

end AF.C13

/-!
# The process-wide recursion cache (`AFModel/RecCache.lean`)

`DynamicRecursionCache` is shared by every walk of every model in the process. Whatever the wrapped
function does on the item — recurse into any parts in any order, meet cycles, raise at any depth — the
cache holds after the call exactly what it held before it: no entry of a finished call survives, so no
later call (on the same object, or on another object that received the same `id()`) is answered with
the placeholder of a call that is over.
-/

namespace AF.C13
open AF AF.RC

/-- **A call leaves the recursion cache as it found it**, raising or not. -/
theorem recursion_cache_restored (s : RState) (c : RCall) : (rcall s c).1.cache = s.cache :=
  rcall_cache s c

/-- after any sequence of top-level calls (failing or not) the cache is empty again -/
theorem recursion_cache_empty_after_calls (cs : List RCall) (tr : List Nat) :
    (rcalls ⟨[], tr⟩ cs).1.cache = [] :=
  rcalls_cache cs ⟨[], tr⟩

/-- a placeholder is returned only for an item whose call is in progress -/
theorem promise_only_in_progress (s : RState) (id : Nat) (raises : Bool) (children : List RCall) :
    (rcall s (.node id raises children)).2 = .promise ↔ id ∈ s.cache := by
  unfold rcall
  by_cases h : id ∈ s.cache
  · rw [if_pos (by simpa using h)]; simp [h]
  · rw [if_neg (by simpa using h)]
    simp only [h, iff_false]
    split
    · simp
    · split <;> simp

/-- **No poisoned entry**: whatever calls came earlier in the process — including failing ones on the
same id — a top-level call is never answered with a placeholder. -/
theorem no_poisoned_entry (cs : List RCall) (id : Nat) (raises : Bool) (children : List RCall) :
    (rcall (rcalls ⟨[], []⟩ cs).1 (.node id raises children)).2 ≠ .promise := by
  intro h
  have := (promise_only_in_progress _ id raises children).mp h
  rw [recursion_cache_empty_after_calls] at this
  cases this

/-- non-vacuity: a walk that meets a cycle (inner item 1 = outer item 1), then fails at depth 2; the
same object is then walked again without a failure -/
example : (rcalls ⟨[], []⟩ [.node 1 false [.node 2 false [.node 1 false []], .node 3 false [.node 4 true [], .node 5 false []]],
                              .node 1 false [.node 2 false []]]) =
    (⟨[], [1, 2, 3, 4, 1, 2]⟩, [.raised, .ok]) := by decide

end AF.C13
