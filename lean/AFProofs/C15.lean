import AFProofs.Lemmas.Combined
import AFProofs.Lemmas.CombinedCount
import AFProofs.Lemmas.CombinedOps
import AFModel.Generated.C15

/-!
# C15 — summed analyses: likelihood is the sum, parameters shared or freed as declared

Property theorems about the executable model `AF.Combined` (`AFModel/Combined.lean`), the
definitions the driver `AFDriver/C15.lean` runs and `harness/c15.py` ties to /repo on every run.
Quantifiers are unbounded: every expression over `+`, every list of analyses, every core count,
every history of evaluations (successful or raising) and every schedule of every evaluation.

Arithmetic: the order-independence statements are over any `SumOps` satisfying `Laws` (exact
arithmetic: commutative, associative, exact subtraction). For IEEE doubles the serial value is
exactly what the model computes (CPython's compensated `sum`, mirrored by `pySum`); the pooled
value sums the same numbers in arrival order and may differ in the last bits — the harness compares
bit-exactly on dyadic data and measures the difference otherwise.
-/

namespace AF.C15
open AF AF.Combined

/-! ## any bracketing, any order -/

/-- However the sum is bracketed, the combined analysis holds exactly the analyses that were
written (each once): `a + (b + c)` holds `(b, c, a)`, a permutation. -/
theorem flatten_perm {α : Type} (e : Expr α) : (flatten e).Perm e.leaves :=
  built_perm e

/-- `sum([a₀, a₁, …])` holds the analyses in the listed order. -/
theorem builtin_sum_keeps_order {α : Type} (a : α) (rest : List α) :
    flatten (sumExpr a rest) = a :: rest := by
  unfold flatten sumExpr
  rw [build_sumExpr a rest (.leaf a)]
  cases rest <;> simp [build, Built.toList]

/-! ## operand structure: the order of `combined.analyses` exactly, `with_free_parameters` anywhere -/

/-- For ANY bracketing the analyses held are the analyses as written once every `a + (…)` (a single
analysis added to a sum on its right, which `Analysis.__add__` hands to the right operand) is read
as `(…) + a`; the rewritten expression has no such shape left. -/
theorem analyses_order_any_bracketing {α : Type} (e : Expr α) :
    flatten e = (normalize e).leaves ∧ inOrder (normalize e) = true := by
  refine ⟨?_, normalize_inOrder e⟩
  rw [← flatten_of_inOrder (normalize e) (normalize_inOrder e)]
  simp [flatten, build_normalize]

/-- In particular the analyses are held in the written order whenever no single analysis is the
left operand of a sum (every left-nested chain, `sum([...])`, `(a + b) + (c + d)`, …) … -/
theorem analyses_in_written_order {α : Type} (e : Expr α) (h : inOrder e = true) :
    flatten e = e.leaves :=
  flatten_of_inOrder e h

/-- … and, for pairwise different analyses, ONLY then. -/
theorem analyses_in_written_order_iff {α : Type} (e : Expr α) (hn : e.leaves.Nodup) :
    flatten e = e.leaves ↔ inOrder e = true :=
  ⟨inOrder_of_flatten e hn, flatten_of_inOrder e⟩

/-- **Free parameters declared anywhere survive** (repaired `+`,
fixes/C15-free-parameters-survive-add.patch): for every expression over `+` and
`with_free_parameters` (applied to sums) evaluation never raises, the analyses held are those of the
expression without the declarations, and the free parameters are exactly the declarations in
force (those not replaced by a later `with_free_parameters`), left to right. -/
theorem free_parameters_survive_any_position {α φ : Type} (cfg : OpsCfg)
    (hc : cfg.freeSurvivesAdd = true) (expand : List φ → List Nat) (e : FExpr α φ)
    (hw : e.wellFormed = true) :
    ∃ x, buildF cfg expand e = .ok x ∧ x.b.toList = flatten e.erase ∧
      x.free = declaredFree expand e := by
  obtain ⟨x, hx, hb, hf⟩ := buildF_spec cfg hc expand e hw
  exact ⟨x, hx, by simp [hb, flatten], hf⟩

/-- A declaration anywhere makes the whole sum a free-parameter analysis whose fitted model is, place
by place, one copy of the model per analysis held (in order) with every declared parameter renamed
to that analysis' own copy. -/
theorem free_anywhere_fitted_model {α φ V : Type} (cfg : OpsCfg) (hc : cfg.freeSurvivesAdd = true)
    (expand : List φ → List Nat) (e : FExpr α φ) (hw : e.wellFormed = true) (hl : e.live ≠ []) :
    ∃ x, buildF cfg expand e = .ok x ∧ x.free = some ((e.live.map expand).flatten) ∧
      ∀ (t : Node V) (as : List (Analysis V)) (ind : Bool) (base : Nat),
        walk (fittedModel t as (modeOf ind x.free.isSome) (x.free.getD []) base) =
          ((List.range as.length).map (fun k =>
            (walk t).map (fun y =>
              (toString k :: y.1, freeRename ((e.live.map expand).flatten) base k y.2)))).flatten := by
  obtain ⟨x, hx, _, hf⟩ := buildF_spec cfg hc expand e hw
  have hf2 : x.free = some ((e.live.map expand).flatten) := by
    rw [hf, declaredFree]
    cases hlive : e.live with
    | nil => exact absurd hlive hl
    | cons a b => simp
  refine ⟨x, hx, hf2, fun t as ind base => ?_⟩
  simp only [hf2, Option.isSome_some, modeOf, ite_true, fittedModel, Option.getD_some]
  exact walk_freeModel t _ base as.length

/-- **Refuted for the pinned commit** (`type(self)(*self.analyses, other)` without the keyword
`free_parameters`): `(a0 + a1).with_free_parameters(p) + a2` and `a2 + (a0 + a1).with_free_parameters(p)`
raise `TypeError` … -/
theorem free_operand_raises_when_flag_off :
    (buildF { freeSurvivesAdd := false } id
      (.add (.free [7] (.add (.leaf 0) (.leaf 1))) (.leaf 2) : FExpr Nat Nat)).toOption.isNone = true ∧
    (buildF { freeSurvivesAdd := false } id
      (.add (.leaf 2) (.free [7] (.add (.leaf 0) (.leaf 1))) : FExpr Nat Nat)).toOption.isNone = true := by
  decide

/-- … and `(a2 + a3) + (a0 + a1).with_free_parameters(p)` is built as a plain sum: the declared
free parameter is lost. -/
theorem free_parameters_lost_when_flag_off :
    ((buildF { freeSurvivesAdd := false } id
      (.add (.add (.leaf 2) (.leaf 3)) (.free [7] (.add (.leaf 0) (.leaf 1))) : FExpr Nat Nat)).toOption.map
        (fun x => (x.b.toList, x.free))) = some ([2, 3, 0, 1], none) ∧
    declaredFree id
      (.add (.add (.leaf 2) (.leaf 3)) (.free [7] (.add (.leaf 0) (.leaf 1))) : FExpr Nat Nat) = some [7] := by
  decide

/-! ## the serial likelihood is the sum -/

/-- When no analysis raises, the value is Python's `sum` of the individual log likelihoods … -/
theorem serial_is_sum {ι V : Type} (so : SumOps V) (as : List (ι → Res V)) (i : ι)
    (h : ∀ a ∈ as, (a i).isErr = false) :
    serial so as i = .value (pySum so (Res.vals (as.map (· i)))) := by
  have : firstErr (as.map (· i)) = none := by
    rw [firstErr_none_iff]
    intro r hr
    obtain ⟨a, ha, rfl⟩ := List.mem_map.mp hr
    exact h a ha
  simp [serial, outcomeOf, this, sumVals]

/-- … which over exact arithmetic is the plain left-to-right sum (the compensation of CPython's
float `sum` vanishes). -/
theorem compensated_sum_is_sum {V : Type} {so : SumOps V} (h : Laws so) (xs : List V) :
    pySum so xs = xs.foldl so.add so.zero :=
  pySum_exact h xs

/-- The combined evaluation raises exactly when some analysis raises on the instance. -/
theorem serial_raises_iff {ι V : Type} (so : SumOps V) (as : List (ι → Res V)) (i : ι) :
    (∃ t, serial so as i = .raises t) ↔ ∃ a ∈ as, (a i).isErr = true := by
  simp only [serial, outcomeOf]
  cases hf : firstErr (as.map (· i)) with
  | some t =>
    simp only [Outcome.raises.injEq, exists_eq', true_iff]
    by_cases hall : ∀ r ∈ as.map (· i), r.isErr = false
    · rw [(firstErr_none_iff _).mpr hall] at hf
      simp at hf
    · have : ∃ r, r ∈ as.map (· i) ∧ ¬ r.isErr = false := by
        apply Classical.byContradiction
        intro hn
        exact hall (fun r hr => Classical.byContradiction (fun hx => hn ⟨r, hr, hx⟩))
      obtain ⟨r, hr, hne⟩ := this
      obtain ⟨a, ha, rfl⟩ := List.mem_map.mp hr
      exact ⟨a, ha, by simpa using hne⟩
  | none =>
    have := (firstErr_none_iff _).mp hf
    simp only [reduceCtorEq, exists_false, false_iff, not_exists, not_and]
    intro a ha
    simpa using this (a i) (List.mem_map.mpr ⟨a, ha, rfl⟩)

/-- **Bracketing and order do not matter**: the combined analysis built from any bracketing gives
the value of the analyses summed as written, and raises iff that does. -/
theorem bracketing_independent {ι V : Type} {so : SumOps V} (h : Laws so)
    (e : Expr (ι → Res V)) (i : ι) :
    Outcome.same (serial so (flatten e) i) (serial so e.leaves i) :=
  outcomeOf_perm h ((flatten_perm e).map (· i))

/-! ## any number of cores, any history, any schedule -/

/-- Every analysis is handed to exactly one process, in order: the slices concatenate to the list
of analyses, for every number of analyses and every `n_cores ≥ 1`. -/
theorem partition_covers {α : Type} (cores : Nat) (as : List α) (hc : 1 ≤ cores) :
    (partition cores as).flatten = as :=
  partition_flatten cores as hc

/-- **The pool is the serial sum.** With `AnalysisPool.results` collecting one result per analysis
before raising (`drainOnError`, the repaired behaviour), for every core count, every history of
evaluations — successful or raising — and every schedule of every evaluation, the k-th evaluation
returns what the serial sum returns for the k-th instance alone: the same number, or both raise.
Nothing that happened in earlier evaluations matters, and the pool never hangs. -/
theorem pool_equals_serial {ι V : Type} (cfg : Cfg) (hd : cfg.drainOnError = true) {so : SumOps V}
    (h : Laws so) (cores : Nat) (hc : 1 ≤ cores) (as : List (ι → Res V))
    (history : List (ι × List Ev)) :
    (evaluate cfg so cores as history).length = history.length ∧
    ∀ (k : Nat) (hk : k < history.length) (hk' : k < (evaluate cfg so cores as history).length),
      Outcome.same ((evaluate cfg so cores as history)[k]) (serial so as (history[k]).1) := by
  have hp := evaluate_spec cfg hd h cores hc as history
  have hl := hp.length_eq
  simp only [List.length_map] at hl
  refine ⟨hl, fun k hk hk' => ?_⟩
  have := hp.get k hk' (by simpa using hk)
  simpa using this

/-- the arithmetic of the integers meets `Laws` -/
def intSum : SumOps Int :=
  { add := (· + ·), sub := (· - ·), zero := 0, absGe := fun a b => a.natAbs ≥ b.natAbs,
    usable := fun c => c != 0 }

theorem intSum_laws : Laws intSum where
  comm := fun a b => Int.add_comm a b
  assoc := fun a b c => Int.add_assoc a b c
  zero_add := fun a => Int.zero_add a
  cancel := fun f x => by simp only [intSum]; omega

/-- two analyses: `ll₀(i) = i` raising at `i = 1`, `ll₁(i) = 10·i` -/
def a0 : Int → Res Int := fun i => if i = 1 then .err "FitException" else .val i
def a1 : Int → Res Int := fun i => .val (10 * i)

/-- **Refuted for the pinned commit** (`drainOnError = false`: the first exception seen is raised
at once and the other processes' results stay queued): two analyses on two cores, evaluation 1
raises in analysis 0, evaluation 2 (instance 3) returns `ll₁(1) + ll₀(3) = 13` instead of 33 and
evaluation 3 (instance 4) returns `ll₁(3) + ll₀(4) = 34` instead of 44. -/
theorem pool_out_of_step_after_failure_when_flag_off :
    evaluate { drainOnError := false } intSum 2 [a0, a1] [(2, []), (1, []), (3, []), (4, [])] =
      [.value 22, .raises "FitException", .value 13, .value 34] ∧
    [(2 : Int), 1, 3, 4].map (serial intSum [a0, a1]) =
      [.value 22, .raises "FitException", .value 33, .value 44] := by
  decide

/-! ## own models -/

/-- With `__new__` looking through `IndexedAnalysis` (repaired behaviour) the combined analysis is
index-aware exactly when some analysis carries its own model, however the sum is bracketed. -/
theorem own_model_seen_in_any_bracketing {α : Type} (cfg : Cfg) (hn : cfg.newSeesThroughIndex = true)
    (own : α → Bool) : ∀ (e : Expr α), (info cfg own e).indexed = e.leaves.any own
  | .leaf a => by simp [info, Expr.leaves]
  | .add l r => by
    simp only [info, Expr.leaves, List.any_append, hn, Bool.true_and, ite_self,
      own_model_seen_in_any_bracketing cfg hn own l, own_model_seen_in_any_bracketing cfg hn own r]

/-- **Refuted for the pinned commit**: `(a + b) + (c.with_model(m) + d)` is built as a plain
`CombinedAnalysis` although `c` has its own model. -/
theorem own_model_missed_when_flag_off :
    (info { newSeesThroughIndex := false } (fun k => k == 2)
      (.add (.add (.leaf 0) (.leaf 1)) (.add (.leaf 2) (.leaf 3)))).indexed = false ∧
    ([0, 1, 2, 3].any (fun k => k == 2)) = true := by
  decide

/-- In an index-aware combined analysis the k-th analysis is evaluated on `instance[k]` … -/
theorem indexed_analysis_sees_own_sub_instance {V : Type} (ops : Ops V) (eq : V → V → Bool)
    (mode : Mode) (hm : mode ≠ .plain) (as : List (Analysis V)) (k : Nat) (hk : k < as.length)
    (i : Inst V) :
    ∃ (h : k < (indexedLls ops eq mode as).length),
      (indexedLls ops eq mode as)[k] i = (as[k]).ll ops eq (subInstance i k) := by
  cases mode with
  | plain => exact absurd rfl hm
  | own => simp [indexedLls, hk]
  | free => simp [indexedLls, hk]

/-- … and `instance[k]` of an instance of the fitted collection is the instance of its k-th
member model built from the same parameter values (members are models or collections). -/
theorem sub_instance_is_member_instance {V : Type} [Inhabited V] (ops : Ops V) (ρ : Nat → Inst V)
    (cs : List (Node V)) (hnt : ∀ c ∈ cs, ∀ attrs, c ≠ .tuple attrs) (k : Nat) (c : Node V)
    (hc : cs[k]? = some c) :
    subInstance (instW ops ρ (listColl cs)) k = instW ops ρ c :=
  subInstance_listColl ops ρ cs hnt k c hc

/-! ## free parameters -/

/-- **The fitted model, place by place**: for each analysis `k` (in order) every place of the
original model, holding the parameter `freeRename F base k id`. -/
theorem fitted_model_places {V : Type} (t : Node V) (F : List Nat) (base n : Nat) :
    walk (freeModel t F base n) =
      ((List.range n).map (fun k =>
        (walk t).map (fun y => (toString k :: y.1, freeRename F base k y.2)))).flatten :=
  walk_freeModel t F base n

/-- A parameter that was not declared free is one shared parameter: the same in every analysis'
copy of the model. -/
theorem shared_parameter_single_copy (F : List Nat) (base k id : Nat) (h : id ∉ F) :
    freeRename F base k id = id :=
  freeRename_shared base k id h

/-- Free parameters are independent: two analyses never share a copy, nor do two different free
parameters of one analysis … -/
theorem free_parameter_independent_copies (F : List Nat) (base k k' id id' : Nat)
    (h : id ∈ F) (h' : id' ∈ F) (he : freeRename F base k id = freeRename F base k' id') :
    k = k' ∧ id = id' :=
  freeRename_inj base k k' id id' h h' he

/-- … and every copy is a new parameter (none of the model's own, whose ids are below `base`). -/
theorem free_copies_are_new (F : List Nat) (base k id : Nat) (h : id ∈ F) :
    base ≤ freeRename F base k id :=
  freeRename_fresh base k id h

/-- **Dimension of the fitted model**: every free parameter of the model once per analysis, every
other parameter once. -/
theorem free_params_count {V : Type} (t : Node V) (F : List Nat) (base n : Nat) (hn : 1 ≤ n)
    (hbase : ∀ id ∈ uniqueIds t, id < base) :
    count (freeModel t F base n) + ((uniqueIds t).filter (fun id => F.contains id)).length =
      count t + n * ((uniqueIds t).filter (fun id => F.contains id)).length :=
  count_freeModel t F base n hn hbase

/-! ## child folders -/

/-- serial: the i-th analysis works in `analyses/analysis_i` -/
theorem serial_folder_is_position (n k : Nat) (hk : k < n) :
    (serialFolders n)[k]? = some k := by
  simp [serialFolders, hk]

/-- pool (`AnalysisPool.map`, repaired behaviour): the same numbering as the serial loop whatever
the partition into processes. -/
theorem pool_folders_eq_serial (cfg : Cfg) (hm : cfg.mapIndexesAnalyses = true) {α : Type}
    (cores : Nat) (hc : 1 ≤ cores) (as : List α) :
    mapFolders cfg ((partition cores as).map List.length) = serialFolders as.length := by
  have h := congrArg List.length (partition_covers cores as hc)
  simp only [List.length_flatten] at h
  simp [mapFolders, hm, serialFolders, h]

/-- **Refuted for the pinned commit** (folders numbered by process): four analyses on two cores —
the third analysis writes into `analysis_1`, the folder of the second. -/
theorem pool_folders_refuted_when_flag_off :
    mapFolders { mapIndexesAnalyses := false } ((partition 2 [0, 1, 2, 3]).map List.length) = [0, 0, 1, 1] ∧
    serialFolders 4 = [0, 1, 2, 3] := by
  decide

/-! ## hooks forwarded to the analyses held (table regenerated from the source on every run) -/

/-- A hook forwarded to every analysis reaches the k-th analysis held in its k-th call, with the
k-th child folder (`analyses/analysis_k`) when child paths are made, and with the k-th item of the
zipped argument (`save_results`: the k-th child result) - for every number of analyses. -/
theorem hook_reaches_child_k (cp pooled z : Bool) (n m k : Nat) (hk : k < n) (hm : z = true → k < m) :
    (hookCalls (.eachChild cp pooled z) n m)[k]? =
      some { child := k, folder := if cp then some k else none, arg := if z then some k else none } := by
  have hlen : k < (if z then min n m else n) := by
    cases z with
    | false => simpa using hk
    | true => exact Nat.lt_min.mpr ⟨hk, hm rfl⟩
  simp [hookCalls, hlen]

/-- … exactly once each when the zipped argument has one item per analysis (or there is none). -/
theorem hook_calls_count (cp pooled z : Bool) (n m : Nat) (hm : z = true → n ≤ m) :
    (hookCalls (.eachChild cp pooled z) n m).length = n := by
  cases z with
  | false => simp [hookCalls]
  | true => simp [hookCalls, Nat.min_eq_left (hm rfl)]

/-- **Over the table read off the source**: every output hook of `Analysis` / `Visualizer` (takes
`paths`, is not a once-for-all `*_combined` variant, is not a `should_*` question) is forwarded by
`CombinedAnalysis` to every analysis it holds; every once-for-all variant goes to the first
analysis; no override is of a shape the translator does not know, except `log_likelihood_function`
(the sum, modelled by `serial` / `evaluate`). A hook added to `Analysis` and not forwarded makes
this theorem fail. -/
theorem every_output_hook_reaches_every_analysis :
    (∀ h ∈ Generated.hooks, h.isOutput = true → h.route.reachesAll = true) ∧
    (∀ h ∈ Generated.hooks, h.takesPaths = true → h.shared = true → h.route = .firstChild) ∧
    (∀ h ∈ Generated.hooks, h.route = .other → h.name = "log_likelihood_function") := by
  decide

/-! ## non-vacuity: concrete inputs meeting the hypotheses -/

-- a bracketing that reorders
example : flatten (.add (.leaf 0) (.add (.leaf 1) (.leaf 2)) : Expr Nat) = [1, 2, 0] := by decide
-- operand structure: a bracketing that keeps the written order, one that does not, and its normal form
example : inOrder (.add (.add (.leaf 0) (.leaf 1)) (.add (.leaf 2) (.leaf 3)) : Expr Nat) = true := by decide
example : inOrder (.add (.leaf 0) (.add (.leaf 1) (.leaf 2)) : Expr Nat) = false ∧
    (normalize (.add (.leaf 0) (.add (.leaf 1) (.leaf 2)) : Expr Nat)).leaves = [1, 2, 0] := by decide
-- free parameters declared on both operands of a sum, one of them replaced before
example : ((buildF {} id (.add (.free [7] (.add (.leaf 0) (.leaf 1)))
      (.add (.leaf 2) (.free [9, 8] (.free [5] (.add (.leaf 3) (.leaf 4))))) : FExpr Nat Nat)).toOption.map
        (fun x => (x.b.toList, x.free))) = some ([0, 1, 3, 4, 2], some [7, 9, 8]) := by decide
example : (FExpr.add (.free [7] (.add (.leaf 0) (.leaf 1))) (.leaf 2) : FExpr Nat Nat).wellFormed = true ∧
    (FExpr.add (.free [7] (.add (.leaf 0) (.leaf 1))) (.leaf 2) : FExpr Nat Nat).live ≠ [] := by decide
-- hooks: `save_results` on three analyses with three child results; the table has output hooks
example : hookCalls (.eachChild true false true) 3 3 =
    [⟨0, some 0, some 0⟩, ⟨1, some 1, some 1⟩, ⟨2, some 2, some 2⟩] := by decide
example : (Generated.hooks.filter (·.isOutput)).length ≥ 8 := by decide
-- five analyses on four cores: slices of two, the last process idle
example : partition 4 [0, 1, 2, 3, 4] = [[0, 1], [2, 3], [4], []] := by decide
-- the repaired pool on the refutation's history, under a schedule that interleaves
example : evaluate {} intSum 2 [a0, a1]
    [(2, [.work 1, .poll, .poll, .work 0]), (1, [.poll, .work 1, .poll, .poll]), (3, []), (4, [.work 0, .work 0, .poll])] =
    [.value 22, .raises "FitException", .value 33, .value 44] := by decide
-- free centre of a three-parameter model, three analyses: 2 shared + 3 copies
example : count (freeModel (Node.model "G" ["a", "b", "c"] [("a", .prior 5), ("b", .prior 6), ("c", .prior 7)] : Node Nat) [5] 8 3) = 5 := by
  decide
example : (walk (freeModel (Node.model "G" ["a", "b"] [("a", .prior 5), ("b", .prior 6)] : Node Nat) [5] 8 2)).map (·.2) = [8, 6, 9, 6] := by
  decide

end AF.C15
