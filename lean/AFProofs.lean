import AFProofs.C01
