import AFDriver.Wire
import AFModel.FloatOps
import AFModel.Gate

open Lean (Json)
open AF AF.Wire

namespace AF.Driver

def parseLims (j : Json) : Except String (List (Float × Float)) := do
  (← j.getArr?).toList.mapM fun e => do
    let pair ← e.getArr?
    if pair.size != 2 then throw "bad limit pair"
    pure ((← floatOfJson pair[0]!), (← floatOfJson pair[1]!))

partial def parseATree (j : Json) : Except String (ATree Float) := do
  let a ← (← getArr j "a").toList.mapM parseAsrt
  let c ← (← getArr j "c").toList.mapM parseATree
  pure (.node a c)

def handleC03 (j : Json) : Except String Json := do
  let parsed ← parseNode (← j.getObjVal? "comp")
  let t := parsed.node
  let lims ← parseLims (← j.getObjVal? "lims")
  let asserts ← (← getArr j "asserts").toList.mapM parseAsrt
  let v ← vecOfJson (← j.getObjVal? "v")
  let ignore ← getBool j "ignore"
  let tr ← parseATree (← j.getObjVal? "atree")
  match gateTree floatOps t lims tr v ignore with
  | .ok i => pure (Json.mkObj [("ok", jsonOfInst i),
      ("verdicts", Json.arr (asserts.map (fun a => Json.bool (evalA floatOps (valOf (argsOfVector t v)) a))).toArray)])
  | .error .length => pure (Json.mkObj [("err", "length")])
  | .error .priorLimit => pure (Json.mkObj [("err", "priorLimit")])
  | .error .fit => pure (Json.mkObj [("err", "fit")])

end AF.Driver
