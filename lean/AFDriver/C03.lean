import AFDriver.Wire
import AFModel.FloatOps
import AFModel.Gate
import AFModel.GateComp
import AFModel.GateRoute

open Lean (Json)
open AF AF.Wire

namespace AF.Driver

def parseLims (j : Json) : Except String (List (Float × Float)) := do
  (← j.getArr?).toList.mapM fun e => do
    let pair ← e.getArr?
    if pair.size != 2 then throw "bad limit pair"
    pure ((← floatOfJson pair[0]!), (← floatOfJson pair[1]!))

partial def parseATree (j : Json) : Except String (ATree Float) := do
  let a ← (← getArr j "a").toList.mapM parseAsrt
  let c ← (← getArr j "c").toList.mapM parseATree
  pure (.node a c)

/-- the wire composition with the `asserts` each prior-model node carries (`extract_comp._common`) -/
partial def parseANode (j : Json) : Except String (ANode Float) := do
  let k ← getStr j "k"
  let asserts : Except String (List (Asrt Float)) :=
    match j.getObjVal? "asserts" with
    | .ok (Json.arr arr) => arr.toList.mapM parseAsrt
    | _ => pure []
  let attrs : Except String (List (String × ANode Float)) := do
    (← getArr j "attrs").toList.mapM fun a => do
      let pair ← a.getArr?
      if pair.size != 2 then throw "bad attr"
      pure ((← pair[0]!.getStr?), (← parseANode pair[1]!))
  match k with
  | "model" =>
      let cls ← getStr j "cls"
      let ctor ← (← getArr j "ctor").toList.mapM (·.getStr?)
      let mut defaults : List (String × ANode Float) := []
      match j.getObjVal? "defaults" with
      | .ok (Json.arr arr) =>
          for a in arr do
            let pair ← a.getArr?
            if pair.size != 2 then throw "bad default"
            let (n, _) ← parseNodeAux pair[1]! []
            defaults := defaults ++ [((← pair[0]!.getStr?), ANode.leaf n)]
      | _ => pure ()
      pure (.model cls ctor (← asserts) ((← attrs) ++ defaults))
  | "coll" => pure (.coll (← asserts) (← attrs))
  | "arith" =>
      pure (.arith (← binOpOf (← getStr j "op")) (← asserts) (← attrs)
        (← parseANode (← j.getObjVal? "l")) (← parseANode (← j.getObjVal? "r")))
  | "modif" =>
      pure (.modif (← unOpOf (← getStr j "op")) (← asserts) (← attrs) (← parseANode (← j.getObjVal? "x")))
  | "array" =>
      pure (.array (← (← getArr j "shape").toList.mapM (·.getNat?)) (← asserts) (← attrs))
  | _ => let (n, _) ← parseNodeAux j []; pure (.leaf n)

/-- shape of a recursion tree: number of assertions per node -/
partial def jsonOfShape : ATree Float → Json
  | .node as cs => Json.mkObj [("n", Json.num (as.length : Lean.JsonNumber)),
      ("c", Json.arr (cs.map jsonOfShape).toArray)]

def jsonOfTrace (tr : List (List Bool)) : Json :=
  Json.arr (tr.map (fun vs => Json.arr (vs.map Json.bool).toArray)).toArray

def jsonOfOutcome (r : Except GateErr (Inst Float)) : List (String × Json) :=
  match r with
  | .ok i => [("ok", jsonOfInst i)]
  | .error .length => [("err", "length")]
  | .error .priorLimit => [("err", "priorLimit")]
  | .error .fit => [("err", "fit")]

/-- `kind = "comp"`: the gate computed from the assertion-carrying composition -/
def handleC03Comp (j : Json) : Except String Json := do
  let c ← parseANode (← j.getObjVal? "comp")
  let lims ← parseLims (← j.getObjVal? "lims")
  let v ← vecOfJson (← j.getObjVal? "v")
  let ignore ← getBool j "ignore"
  pure (Json.mkObj (jsonOfOutcome (gateComp floatOps c lims v ignore) ++
    [("trace", jsonOfTrace (gateCompTrace floatOps c lims v ignore)),
     ("full", jsonOfTrace (fullTraces floatOps (valOf (argsOfVector c.erase v)) c.trees)),
     ("trees", Json.arr (c.trees.map jsonOfShape).toArray),
     ("count", Json.num ((count c.erase : Nat) : Lean.JsonNumber))]))

def routeOf : String → Except String Route
  | "vector" => pure .vector | "unitVector" => pure .unitVector | "medians" => pure .medians
  | "random" => pure .random | "arguments" => pure .arguments | "pathArguments" => pure .pathArguments
  | s => throw s!"bad route {s}"

/-- `kind = "route"`: one of the routes to an instance, with its flag -/
def handleC03Route (j : Json) : Except String Json := do
  let c ← parseANode (← j.getObjVal? "comp")
  let lims ← parseLims (← j.getObjVal? "lims")
  let v ← vecOfJson (← j.getObjVal? "v")
  let ignore ← getBool j "ignore"
  let r ← routeOf (← getStr j "route")
  pure (Json.mkObj (jsonOfOutcome (gateRoute floatOps r c lims v ignore)))

def binName : BinOp → String
  | .add => "add" | .sub => "sub" | .mul => "mul" | .div => "div" | .floordiv => "floordiv"
  | .mod => "mod" | .pow => "pow"
def unName : UnOp → String
  | .neg => "neg" | .abs => "abs" | .log => "log" | .log10 => "log10"

/-- structural fingerprint of an operand / an assertion object (which object sits in which slot) -/
partial def fpNode : Node Float → Json
  | .prior id => Json.mkObj [("p", Json.num (id : Lean.JsonNumber))]
  | .const v => Json.mkObj [("c", hexOfFloat v)]
  | .arith op _ l r => Json.mkObj [("op", binName op), ("l", fpNode l), ("r", fpNode r)]
  | .modif op _ x => Json.mkObj [("op", unName op), ("x", fpNode x)]
  | _ => Json.mkObj [("o", Json.num (1 : Lean.JsonNumber))]
partial def fpAsrt : Asrt Float → Json
  | .cmp s l g => Json.mkObj [("a", if s then "lt" else "le"), ("l", fpNode l), ("g", fpNode g)]
  | .and x y => Json.mkObj [("a", "and"), ("x", fpAsrt x), ("y", fpAsrt y)]
  | .lit b => Json.mkObj [("a", "lit"), ("v", Json.bool b)]

def cmpOpOf : String → Except String CmpOp
  | "<" => pure .lt | "<=" => pure .le | ">" => pure .gt | ">=" => pure .ge
  | s => throw s!"bad comparison {s}"

def parseOpnd (j : Json) : Except String (Opnd Float) := do
  match j.getObjVal? "num" with
  | .ok x => pure (.num (← floatOfJson x))
  | .error _ =>
      let (n, _) ← parseNodeAux (← j.getObjVal? "obj") []
      pure (.obj n)

/-- `kind = "build"`: what the comparison operators build (`form`: `cmp` = `x op y`, `chain` =
`(x op y) op z`, `refl` = `k op (x op y)`) and its verdict for a vector -/
def handleC03Build (j : Json) : Except String Json := do
  let parsed ← parseNode (← j.getObjVal? "comp")
  let v ← vecOfJson (← j.getObjVal? "v")
  let ops ← (← getArr j "ops").toList.mapM (fun o => do cmpOpOf (← o.getStr?))
  let xs ← (← getArr j "operands").toList.mapM parseOpnd
  let a ← match (← getStr j "form"), ops, xs with
    | "cmp", [op], [x, y] => pure (cmpOpnd floatOps x op y)
    | "chain", [op₁, op₂], [x, y, z] => pure (chainOpnd floatOps x op₁ y op₂ z)
    | "refl", [op₁, op₂], [.num k, x, y] => pure (reflOpnd floatOps k op₁ x op₂ y)
    | f, _, _ => throw s!"bad build request {f}"
  pure (Json.mkObj [("shape", fpAsrt a),
    ("verdict", Json.bool (evalA floatOps (valOf (argsOfVector parsed.node v)) a))])

def handleC03 (j : Json) : Except String Json := do
  match getStr j "kind" with
  | .ok "comp" => handleC03Comp j
  | .ok "route" => handleC03Route j
  | .ok "build" => handleC03Build j
  | .ok k => throw s!"bad kind {k}"
  | .error _ =>
    let parsed ← parseNode (← j.getObjVal? "comp")
    let t := parsed.node
    let lims ← parseLims (← j.getObjVal? "lims")
    let asserts ← (← getArr j "asserts").toList.mapM parseAsrt
    let v ← vecOfJson (← j.getObjVal? "v")
    let ignore ← getBool j "ignore"
    let tr ← parseATree (← j.getObjVal? "atree")
    match gateTree floatOps t lims tr v ignore with
    | .ok i => pure (Json.mkObj [("ok", jsonOfInst i),
        ("verdicts", Json.arr (asserts.map (fun a => Json.bool (evalA floatOps (valOf (argsOfVector t v)) a))).toArray)])
    | .error .length => pure (Json.mkObj [("err", "length")])
    | .error .priorLimit => pure (Json.mkObj [("err", "priorLimit")])
    | .error .fit => pure (Json.mkObj [("err", "fit")])

end AF.Driver
