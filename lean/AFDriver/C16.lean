import AFDriver.Wire
import AFModel.Grid
import AFModel.GridPhys
import AFModel.GridComp
import AFModel.FloatOps

/-! Driver of the `Grid` model (property C16). Queries (`"q"`):
`grid` (GridSearch.fit), `sens` (Sensitivity.run), `builder` (ResultBuilder), `steps`, `shape`. -/

open Lean (Json)
open AF AF.Wire AF.Grid

namespace AF.Driver.C16

def flag (c : Json) (k : String) : Bool := (getBool c k).toOption.getD true

def cfgOf (j : Json) : Cfg :=
  match j.getObjVal? "cfg" with
  | .ok c => { integerSteps := flag c "integerSteps", shapeExact := flag c "shapeExact",
               upperClamp := flag c "upperClamp", labelsById := flag c "labelsById" }
  | .error _ => {}

def jNat (n : Nat) : Json := Json.num (n : Lean.JsonNumber)
def jF (x : Float) : Json := Json.str (hexOfFloat x)
def jR (r : Rat) : Json := Json.str s!"{r.num}/{r.den}"
def jList {α} (f : α → Json) (l : List α) : Json := Json.arr (l.map f).toArray

def natList (j : Json) (k : String) : Except String (List Nat) := do
  (← getArr j k).toList.mapM (·.getNat?)

def rangesOf (j : Json) : Except String (List (Float × Float)) := do
  (← getArr j "dims").toList.mapM fun e => do
    let pair ← e.getArr?
    if pair.size != 2 then throw "bad dim"
    pure ((← floatOfJson pair[0]!), (← floatOfJson pair[1]!))

def exact (x : Float) : Except String Rat :=
  match ratOfFloat x with
  | some r => pure r
  | none => throw "non-finite limit"

def ratRanges (rs : List (Float × Float)) : Except String (List (Rat × Rat)) :=
  rs.mapM fun r => do pure ((← exact r.1), (← exact r.2))

def orderJson (l : List (Option Nat)) : Json :=
  jList (fun o => match o with | some k => Json.num ((k : Int) : Lean.JsonNumber) | none => Json.num ((-1 : Int) : Lean.JsonNumber)) l

def wantRat (j : Json) : Bool := (getBool j "rat").toOption.getD false

/-- `"trip": [[u, q], …]` – quantile round trips `q = ndtr(ndtri(u))` measured on the real code -/
def tripTable (j : Json) : Except String (Option (List (UInt64 × Float))) :=
  match j.getObjVal? "trip" with
  | .error _ => pure none
  | .ok t => do
      let rows ← (← t.getArr?).toList.mapM fun e => do
        let pair ← e.getArr?
        if pair.size != 2 then throw "bad trip"
        pure ((← floatOfJson pair[0]!).toBits, (← floatOfJson pair[1]!))
      pure (some rows)

def jOutcome : AF.Prior.Outcome Float → Json
  | .ok v => jF v
  | .limit => Json.str "limit"

def jLimits : Option (Float × Float) → Json
  | some (a, b) => Json.arr #[jF a, jF b]
  | none => Json.null

def handleGrid (j : Json) : Except String Json := do
  let cfg := cfgOf j
  let n ← getNat j "n"
  let ranges ← rangesOf j
  let dims := gridDims floatNum cfg n ranges
  let cells := gridCells floatNum dims
  let total := cells.length
  let d := ranges.length
  let units := unitLists floatNum false dims
  let side := sideOf cfg total d
  let uppers := units.map fun us => us.map (upperUnit floatNum cfg side)
  let centres := List.zipWith (fun lo up => List.zipWith (centreUnit floatNum) lo up) units uppers
  let phys := fun (uss : List (List Float)) => uss.map fun us => List.zipWith (reportedPhysical floatNum true id) dims us
  let arrivals := (natList j "arrivals").toOption.getD []
  let mut out : List (String × Json) := [
    ("count", jNat total),
    ("unit", jList (jList jF) units),
    ("cells", jList (jList fun c => Json.arr #[jF c.1, jF c.2]) cells),
    ("side", jNat side),
    ("shape", jList jNat (shapeOf cfg total d)),
    ("upper_unit", jList (jList jF) uppers),
    ("centre_unit", jList (jList jF) centres),
    ("phys_lower", jList (jList jF) (phys units)),
    ("phys_upper", jList (jList jF) (phys uppers)),
    ("phys_centre", jList (jList jF) (phys centres)),
    ("order", orderJson (sampleSummaries total (arrivals.map fun a => (a, a))))]
  if wantRat j then
    let rr ← ratRanges ranges
    let rcells := gridModel ratNum cfg n rr
    out := out ++ [("rat_cells", jList (jList fun c => Json.arr #[jR c.1, jR c.2]) rcells)]
  match ← tripTable j with
  | some table =>
      let fphys := fun (uss : List (List Float)) =>
        jList (jList jOutcome) (physLists AF.Prior.floatSpecial (tripOf table) dims uss)
      out := out ++ [("fphys_lower", fphys units), ("fphys_upper", fphys uppers), ("fphys_centre", fphys centres)]
  | none => pure ()
  match j.getObjVal? "places" with
  | .ok pj =>
      let places ← (← pj.getArr?).toList.mapM fun e => do
        let pair ← e.getArr?
        if pair.size != 2 then throw "bad place"
        pure ((← pair[0]!.getStr?), (← pair[1]!.getNat?))
      let gridIds ← natList j "grid_ids"
      let pm := placeMap gridIds places
      out := out ++ [("place_map", jList (fun (x : String × Place) => match x.2 with
        | .dim i => Json.arr #[Json.str x.1, Json.str "dim", jNat i]
        | .keep id => Json.arr #[Json.str x.1, Json.str "keep", jNat id]) pm)]
  | .error _ => pure ()
  pure (Json.mkObj out)

def handleSens (j : Json) : Except String Json := do
  let cfg := cfgOf j
  let steps ← natList j "steps"
  let ranges ← rangesOf j
  if steps.length != ranges.length then throw "steps/dims length"
  let scale ← getFloat j "scale"
  let dims := sensDims floatNum cfg (ranges.zip steps)
  let cells := sensCells floatNum scale dims
  let arrivals := (natList j "arrivals").toOption.getD []
  let namesId ← (← getArr j "names_id").toList.mapM (·.getStr?)
  let namesAttr ← (← getArr j "names_attr").toList.mapM (·.getStr?)
  let mut out : List (String × Json) := [
    ("count", jNat cells.length),
    ("shape", jList jNat (sensShape dims)),
    ("cells", jList (jList fun (c : SensCell Float) =>
        Json.arr #[jF c.unitCentre, jF c.unitLower, jF c.unitUpper, jF c.centre, jF c.lower, jF c.upper]) cells),
    ("order", jList (fun (x : Nat × Nat) => jNat x.2) (collectSorted (arrivals.map fun a => (a, a)))),
    ("headers", jList Json.str (headers cfg namesId namesAttr))]
  match ← tripTable j with
  | some table =>
      let pcells := sensPhysCells floatNum AF.Prior.floatSpecial (tripOf table) scale dims
      out := out ++ [("fphys_cells", jList (jList fun (c : SensPhys Float) =>
        Json.arr #[jOutcome c.centre, jLimits c.limits]) pcells),
        ("labels", jList (jList fun (x : String × AF.Prior.Outcome Float) => Json.arr #[Json.str x.1, jOutcome x.2])
          (sensLabels floatNum AF.Prior.floatSpecial (tripOf table) scale cfg namesId namesAttr dims))]
  | none => pure ()
  if wantRat j then
    let rr ← ratRanges ranges
    let rscale ← exact scale
    let rcells := sensCells ratNum rscale (sensDims ratNum cfg (rr.zip steps))
    out := out ++ [("rat_cells", jList (jList fun (c : SensCell Rat) => Json.arr #[jR c.centre, jR c.lower, jR c.upper]) rcells)]
  pure (Json.mkObj out)

def handleBuilder (j : Json) : Except String Json := do
  let total ← getNat j "total"
  let arrivals ← (← getArr j "arrivals").toList.mapM fun e => do
    let pair ← e.getArr?
    if pair.size != 2 then throw "bad arrival"
    pure ((← pair[0]!.getNat?), (← pair[1]!.getNat?))
  pure (Json.mkObj [
    ("out", orderJson (sampleSummaries total arrivals)),
    ("sorted", jList (fun (x : Nat × Nat) => Json.arr #[jNat x.1, jNat x.2]) (collectSorted arrivals))])

def handleSteps (j : Json) : Except String Json := do
  let cfg := cfgOf j
  let ns ← natList j "ns"
  pure (Json.mkObj [("counts", jList jNat (ns.map (countOf cfg)))])

def handleShape (j : Json) : Except String Json := do
  let cfg := cfgOf j
  let pairs ← (← getArr j "pairs").toList.mapM fun e => do
    let pair ← e.getArr?
    if pair.size != 2 then throw "bad pair"
    pure ((← pair[0]!.getNat?), (← pair[1]!.getNat?))
  pure (Json.mkObj [("sides", jList jNat (pairs.map fun p => sideOf cfg p.1 p.2)),
    ("native_ok", jList Json.bool (pairs.map fun p => nativeOk cfg p.1 p.2)),
    ("upper_first", jList jF (pairs.map fun p => upperUnit floatNum cfg (sideOf cfg p.1 p.2) 0.0))])

/-- `cellcomp`: the composition of sampled cells (`mapper_from_partial_prior_arguments`): places, ids in
parameter order, prior count and the instance built from a vector -/
def handleCellComp (j : Json) : Except String Json := do
  let parsed ← parseNode (← j.getObjVal? "comp")
  let t := parsed.node
  let gridIds ← natList j "grid_ids"
  let cells ← (← getArr j "cells").toList.mapM fun c => do
    let fresh ← natList c "fresh"
    let v ← vecOfJson (← c.getObjVal? "v")
    let job ← getNat c "job"
    let ct := cellComp t gridIds fresh
    pure (Json.mkObj [
      ("paths", Json.arr ((paths ct).map jsonOfPath).toArray),
      ("path_ids", jList (fun (x : Path × Nat) => jNat x.2) (pathPriors ct)),
      ("ids", jList jNat (uniqueIds ct)),
      ("count", jNat (count ct)),
      ("inst", jsonOfInst (instFromVector floatOps ct v)),
      ("sequential", jList jNat (freshIds ((getNat j "base").toOption.getD 0) gridIds.length job))])
  pure (Json.mkObj [("count", jNat (count t)), ("cells", Json.arr cells.toArray)])

end AF.Driver.C16

namespace AF.Driver

def handleC16 (j : Json) : Except String Json := do
  match (← getStr j "q") with
  | "grid" => C16.handleGrid j
  | "sens" => C16.handleSens j
  | "builder" => C16.handleBuilder j
  | "steps" => C16.handleSteps j
  | "shape" => C16.handleShape j
  | "cellcomp" => C16.handleCellComp j
  | s => throw s!"unknown query {s}"

end AF.Driver
