import AFDriver.Wire
import AFModel.SearchSig
import AFModel.FitFiles

/-! Driver for the grown part of C11 (executed through `AFDriver/C11.lean`).

queries (`"q"`):
* `sig_table` : → the compiled tables (`searchSigTable` with `keys`, `read_back`, `absorbing`,
                `get_arguments` per class; `writerFiles`; `readerLookups`)
* `sig_call`  : `chain`, `keys` → `outcome` of `AF.SearchSig.call`, `get_arguments`, `absorbing`
* `sig_row`   : one search row on the wire → `keys`, `read_back`
* `files`     : `files` ([dir, stem, ext, numeric]), optional `lookups` (default: compiled) →
                per file `consumers` and `name`, `db` (`dbFiles`), `flags` (`dirFlags`), `children`
* `path_for`  : `kind`, `pre`, `name` → the file `pathFor` gives, its `outputName`, its consumers -/

open Lean (Json)
open AF.Wire AF.Generated.C11 AF.SearchSig AF.FitFiles

namespace AF.Driver.C11Ext

def strs (j : Json) : Except String (List String) := do
  (← j.getArr?).toList.mapM (·.getStr?)

def strsAt (j : Json) (k : String) : Except String (List String) := do
  strs (← j.getObjVal? k)

def boolOf (j : Json) (k : String) : Except String Bool := do
  match (← j.getObjVal? k) with
  | Json.bool b => pure b
  | _ => throw s!"{k}: not a bool"

def jStrs (l : List String) : Json := Json.arr (l.map Json.str).toArray

def parseSig (j : Json) : Except String Sig := do
  pure { cls := (← getStr j "cls"), params := (← strsAt j "params"), required := (← strsAt j "required")
         varkw := (← boolOf j "varkw"), explicit := (← strsAt j "explicit"), forwards := (← boolOf j "forwards")
         dropped := (← strsAt j "dropped") }

def parseRow (j : Json) : Except String SearchSig := do
  pure { cls := (← getStr j "cls"), chain := (← (← getArr j "chain").toList.mapM parseSig)
         idf := (← strsAt j "idf"), candidates := (← strsAt j "candidates"), absent := (← strsAt j "absent") }

def jSig (s : Sig) : Json :=
  Json.mkObj [("cls", Json.str s.cls), ("params", jStrs s.params), ("required", jStrs s.required),
    ("varkw", Json.bool s.varkw), ("explicit", jStrs s.explicit), ("forwards", Json.bool s.forwards),
    ("dropped", jStrs s.dropped)]

def jOutcome : Outcome → Json
  | .ok => Json.arr #[Json.str "ok"]
  | .unexpected c k => Json.arr #[Json.str "unexpected", Json.str c, Json.str k]
  | .multiple c k => Json.arr #[Json.str "multiple", Json.str c, Json.str k]
  | .missing c k => Json.arr #[Json.str "missing", Json.str c, Json.str k]

def jRow (r : SearchSig) : Json :=
  Json.mkObj [("cls", Json.str r.cls), ("chain", Json.arr (r.chain.map jSig).toArray), ("idf", jStrs r.idf),
    ("candidates", jStrs r.candidates), ("absent", jStrs r.absent), ("keys", jStrs (keysOf r)),
    ("read_back", jOutcome (readBack r)), ("absorbing", Json.bool (absorbing r.chain)),
    ("get_arguments", jStrs (getArguments r.chain).eraseDups)]

def jRef (f : FileRef) : Json := Json.arr #[jStrs f.dir, Json.str f.stem, Json.str f.ext]

def parseRef (j : Json) : Except String FileRef := do
  let a ← j.getArr?
  if a.size < 3 then throw "bad file"
  pure { dir := (← strs a[0]!), stem := (← a[1]!.getStr?), ext := (← a[2]!.getStr?) }

def parseFile (j : Json) : Except String (FileRef × Bool) := do
  let a ← j.getArr?
  if a.size != 4 then throw "bad file"
  let num ← match a[3]! with
    | Json.bool b => pure b
    | _ => throw "bad numeric flag"
  pure ((← parseRef j), num)

def parseLookup (j : Json) : Except String Lookup := do
  pure { consumer := (← getStr j "consumer"), kind := (← getStr j "kind"), file := (← parseRef (← j.getObjVal? "file")) }

def jLookup (l : Lookup) : Json :=
  Json.mkObj [("consumer", Json.str l.consumer), ("kind", Json.str l.kind), ("file", jRef l.file)]

def jDb (d : DbFiles) : Json :=
  Json.mkObj [("jsons", jStrs d.jsons), ("arrays", jStrs d.arrays), ("pickles", jStrs d.pickles), ("hdus", jStrs d.hdus)]

def jFlags (f : DirFlags) : Json :=
  Json.mkObj [("is_fit", Json.bool f.isFit), ("is_grid", Json.bool f.isGrid), ("complete", Json.bool f.complete),
    ("has_parent", Json.bool f.hasParent), ("has_search", Json.bool f.hasSearch), ("has_model", Json.bool f.hasModel),
    ("has_info", Json.bool f.hasInfo), ("has_samples", Json.bool f.hasSamples)]

def parseKind : String → Except String Kind
  | "json" => pure .json
  | "pickle" => pure .pickle
  | "csv" => pure .csv
  | "fits" => pure .fits
  | s => throw s!"bad kind {s}"

def handle (j : Json) : Except String Json := do
  match (← getStr j "q") with
  | "sig_table" =>
      pure (Json.mkObj [("searches", Json.arr (searchSigTable.map jRow).toArray),
        ("writer", Json.arr (writerFiles.map fun w => Json.mkObj [("call", Json.str w.call), ("file", jRef w.file),
          ("consumers", jStrs (consumers readerLookups w.file)), ("must_reach", jStrs (mustReach w))]).toArray),
        ("reader", Json.arr (readerLookups.map jLookup).toArray)])
  | "sig_call" =>
      let chain ← (← getArr j "chain").toList.mapM parseSig
      let keys ← strsAt j "keys"
      pure (Json.mkObj [("outcome", jOutcome (call chain keys)), ("get_arguments", jStrs (getArguments chain).eraseDups),
        ("absorbing", Json.bool (absorbing chain))])
  | "sig_row" =>
      let r ← parseRow (← j.getObjVal? "row")
      pure (jRow r)
  | "files" =>
      let files ← (← getArr j "files").toList.mapM parseFile
      let ls ← match j.getObjVal? "lookups" with
        | .ok (Json.arr a) => a.toList.mapM parseLookup
        | _ => pure readerLookups
      pure (Json.mkObj [
        ("per_file", Json.arr (files.map fun p => Json.mkObj [("file", jRef p.1),
          ("consumers", jStrs (consumers ls p.1)), ("name", Json.str (outputName p.1))]).toArray),
        ("db", jDb (dbFiles ls files)),
        ("flags", jFlags (dirFlags ls (files.map (·.1)))),
        ("children", Json.arr ((childDbFiles ls files).map fun c =>
          Json.mkObj [("dir", jStrs c.1), ("db", jDb c.2)]).toArray)])
  | "path_for" =>
      let k ← parseKind (← getStr j "kind")
      let pre ← strsAt j "pre"
      let name ← getStr j "name"
      match pathFor writerFiles k pre name with
      | none => pure (Json.mkObj [("file", Json.null)])
      | some f => pure (Json.mkObj [("file", jRef f), ("name", Json.str (outputName f)),
          ("consumers", jStrs (consumers readerLookups f))])
  | s => throw s!"unknown C11 query {s}"

end AF.Driver.C11Ext
