import AFDriver.Wire
import AFModel.PriorFloat
import AFModel.DblArith

/-! C02 handler: runs the prior model (`AFModel/Prior.lean`) at `K := Float`.

request  `{"p":"C02","cfg":{"repaired":b},"kind":"U|L|G|N","lo","hi","mean","sigma":hex,"ignore":b,
           "us":[hex…], "raws":[hex…]?, "xs":[hex…]?, "rand":[[lo,hi,a,b,r]…]?}`
answer   `{"places":n, "raw":[hex…], "out":[o…], "fin":[o…], "units":[hex…], "a":hex, "b":hex,
           "rand":[hex…]}` where `o` is a hex float or `"limit"`:
* `raw[i]  = rawValueFor  us[i]`                    (model of `message.value_for`)
* `out[i]  = valueFor us[i]`                        (model end to end)
* `fin[i]  = finish raws[i]`                        (gate + rounding applied to the implementation's raw value)
* `units[i] = unitValueFor xs[i]`; `a`,`b` the unit limits
* `rand[i] = randomUnit lo hi a b r`                (the unit value `Prior.random` maps; `randD[i]` the same
                                                     generic function at `Dbl`, IEEE arithmetic as data)
* `finD[i] = finishD raws[i]`                       (gate + exact rounding + clamp on doubles as data,
                                                     `AFModel/PriorDbl.lean`; repaired code only)
* optional `"rounds":[[n,hex]…]` → `"rounds":[hex…]` = `pyRoundD n x` (CPython `round(x, n)`);
  optional `"cmp":[[hex,hex]…]` → `"cmp":[[a<=b, a<b]…]` in the order of `Dbl`
* optional `"arith":[[op,hex,hex,hex]…]` → `"arith":[hex…]`, IEEE arithmetic on doubles as data
  (`AFModel/DblArith.lean`): `op` = `add|sub|mul|div` (third operand ignored), `argd` (`argD a`),
  `rawg` (`rawGaussianD a b c`), `rawu` (`rawUniformD a b c`)
-/

open Lean (Json)
open AF AF.Wire AF.Prior

namespace AF.Driver

def c02Float (j : Json) : Except String Float := do
  let s ← j.getStr?
  if s == "nan" then pure (0.0 / 0.0)
  else match floatOfHex s with
    | some f => pure f
    | none => throw s!"bad float {s}"

def c02FloatAt (j : Json) (k : String) : Except String Float := do
  c02Float (← j.getObjVal? k)

def c02Floats (j : Json) (k : String) : Except String (List Float) :=
  match j.getObjVal? k with
  | .ok a => do (← a.getArr?).toList.mapM c02Float
  | .error _ => pure []

def c02Kind : String → Except String Kind
  | "U" => pure .uniform | "L" => pure .logUniform | "G" => pure .gaussian | "N" => pure .logGaussian
  | s => throw s!"bad kind {s}"

def c02Outcome : Outcome Float → Json
  | .ok v => Json.str (hexOfFloat v)
  | .limit => Json.str "limit"

def c02OutcomeD : Outcome Dbl → Json
  | .ok v => Json.str (hexOfFloat v.toFloat)
  | .limit => Json.str "limit"

def c02Rows (j : Json) (k : String) : Except String (List (List Json)) :=
  match j.getObjVal? k with
  | .ok a => do (← a.getArr?).toList.mapM (fun row => do pure (← row.getArr?).toList)
  | .error _ => pure []

def c02Hexes (l : List Float) : Json := Json.arr (l.map (fun x => Json.str (hexOfFloat x))).toArray

def handleC02 (j : Json) : Except String Json := do
  let kind ← c02Kind (← getStr j "kind")
  let p : Params Float := {
    kind := kind, lower := (← c02FloatAt j "lo"), upper := (← c02FloatAt j "hi"),
    mean := (← c02FloatAt j "mean"), sigma := (← c02FloatAt j "sigma") }
  let repaired := match j.getObjVal? "cfg" with
    | .ok c => (getBool c "repaired").toOption.getD true
    | .error _ => true
  let cfg : Cfg := { repaired := repaired }
  let ignore := (getBool j "ignore").toOption.getD false
  let S := floatSpecial
  let us ← c02Floats j "us"
  let raws ← c02Floats j "raws"
  let xs ← c02Floats j "xs"
  let rand ← match j.getObjVal? "rand" with
    | .ok a => do (← a.getArr?).toList.mapM (fun row => do (← row.getArr?).toList.mapM c02Float)
    | .error _ => pure []
  let randUnits ← rand.mapM fun row =>
    match row with
    | [lo, hi, a, b, r] => pure (randomUnit lo hi a b r)
    | _ => throw "bad rand row"
  let places := decimalPlaces (p.upper - p.lower)
  let finD : List Json := if repaired then
      raws.map (fun r => c02OutcomeD (finishD (kind == .uniform) ignore places
        (Dbl.ofFloat p.lower) (Dbl.ofFloat p.upper) (Dbl.ofFloat r)))
    else []
  let rounds ← (← c02Rows j "rounds").mapM fun row =>
    match row with
    | [n, x] => do
      let n ← n.getNat?
      let x ← c02Float x
      pure (Json.str (hexOfFloat (pyRoundD n (Dbl.ofFloat x)).toFloat))
    | _ => throw "bad rounds row"
  let cmps ← (← c02Rows j "cmp").mapM fun row =>
    match row with
    | [a, b] => do
      let a := Dbl.ofFloat (← c02Float a)
      let b := Dbl.ofFloat (← c02Float b)
      pure (Json.arr #[Json.bool (decide (a ≤ b)), Json.bool (decide (a < b))])
    | _ => throw "bad cmp row"
  let ariths ← (← c02Rows j "arith").mapM fun row =>
    match row with
    | [op, a, b, c] => do
      let op ← op.getStr?
      let a := Dbl.ofFloat (← c02Float a)
      let b := Dbl.ofFloat (← c02Float b)
      let c := Dbl.ofFloat (← c02Float c)
      let r ← match op with
        | "add" => pure (Dbl.add a b)
        | "sub" => pure (Dbl.sub a b)
        | "mul" => pure (Dbl.mul a b)
        | "div" => pure (Dbl.div a b)
        | "argd" => pure (argD a)
        | "rawg" => pure (rawGaussianD a b c)
        | "rawu" => pure (rawUniformD a b c)
        | _ => throw s!"bad arith op {op}"
      pure (Json.str (hexOfFloat r.toFloat))
    | _ => throw "bad arith row"
  let randD ← rand.mapM fun row =>
    match row with
    | [lo, hi, a, b, r] => pure (randomUnitD (Dbl.ofFloat lo) (Dbl.ofFloat hi) (Dbl.ofFloat a)
        (Dbl.ofFloat b) (Dbl.ofFloat r)).toFloat
    | _ => throw "bad rand row"
  pure (Json.mkObj [
    ("randD", c02Hexes randD),
    ("arith", Json.arr ariths.toArray),
    ("finD", Json.arr finD.toArray),
    ("rounds", Json.arr rounds.toArray),
    ("cmp", Json.arr cmps.toArray),
    ("places", Json.num ((decimalPlaces (p.upper - p.lower) : Nat) : Lean.JsonNumber)),
    ("raw", c02Hexes (us.map (rawValueFor S p))),
    ("out", Json.arr (us.map (fun u => c02Outcome (valueFor S cfg ignore p u))).toArray),
    ("fin", Json.arr (raws.map (fun r => c02Outcome (finish S cfg ignore p r))).toArray),
    ("units", c02Hexes (xs.map (unitValueFor S p))),
    ("a", Json.str (hexOfFloat (unitValueFor S p p.lower))),
    ("b", Json.str (hexOfFloat (unitValueFor S p p.upper))),
    ("rand", c02Hexes randUnits)])

end AF.Driver
