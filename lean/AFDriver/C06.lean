import AFDriver.Wire
import AFModel.FitFS
import AFModel.FitPlan

/-! Driver for C06: decodes an abstract file-system state + settings, runs `AF.FitFS.run`,
answers with the step list, the outcome, the final state, the invariant `safe` and (on request)
every crash state.  Also replays whole histories through `AF.FitFS.exec`. -/

open Lean (Json)
open AF.Wire AF.FitFS

namespace AF.Driver.C06

def fileName : File → String
  | .marker => "marker" | .summary => "summary" | .info => "info" | .samples => "samples"
  | .internal => "internal" | .save => "save" | .start => "start" | .time => "time"

def jsonOfSt : St → Json
  | .absent => "a"
  | .torn => "p"
  | .full g => Json.num (g : Lean.JsonNumber)

def stOfJson (j : Json) : Except String St :=
  match j with
  | Json.str "a" => pure .absent
  | Json.str "p" => pure .torn
  | _ => do pure (.full (← j.getNat?))

def jsonOfFolder (fo : Folder) : Json :=
  Json.mkObj (allFiles.map fun f => (fileName f, jsonOfSt (fo f)))

def folderOfJson (j : Json) : Except String Folder := do
  let mut fo : Folder := Folder.empty
  for f in allFiles do
    match j.getObjVal? (fileName f) with
    | .ok v => fo := fo.set f (← stOfJson v)
    | .error _ => pure ()
  pure fo

def jsonOfZip : Zip → Json
  | .absent => "a"
  | .torn => "p"
  | .full c => jsonOfFolder c

def zipOfJson (j : Json) : Except String Zip :=
  match j with
  | Json.str "a" => pure .absent
  | Json.str "p" => pure .torn
  | _ => do pure (.full (← folderOfJson j))

def jsonOfFS (fs : FS) : Json :=
  Json.mkObj [("folder", jsonOfFolder fs.folder), ("zip", jsonOfZip fs.zip),
    ("clock", Json.num (fs.clock : Lean.JsonNumber))]

def fsOfJson (j : Json) : Except String FS := do
  let folder ← folderOfJson (← j.getObjVal? "folder")
  let zip ← zipOfJson (← j.getObjVal? "zip")
  let clock := (getNat j "clock").toOption.getD 0
  pure ⟨folder, zip, clock⟩

def searchOf : String → Except String Search
  | "drawer" => pure .drawer
  | "lbfgs" => pure .lbfgs
  | "dynesty" => pure .dynesty
  | s => throw s!"unknown search {s}"

def settingsOfJson (j : Json) : Except String Settings := do
  pure {
    removeFiles := ← getBool j "remove_files"
    samplesCsv := ← getBool j "samples_csv"
    keepInternal := ← getBool j "keep_internal"
    search := ← searchOf (← getStr j "search")
    fomIsLikelihood := ← getBool j "fom_is_likelihood" }

def cfgOfJson (j : Json) : Except String Cfg := do
  pure {
    zipAtomic := ← getBool j "zip_atomic"
    restoreValidates := ← getBool j "restore_validates"
    atomicWrites := ← getBool j "atomic_writes"
    fomCheckSound := ← getBool j "fom_check_sound"
    lbfgsResumes := ← getBool j "lbfgs_resumes" }

def errName : Err → String
  | .badZip => "BadZipFile" | .jsonDecode => "JSONDecodeError" | .valueError => "ValueError"
  | .fomMismatch => "SearchException" | .keyError => "KeyError" | .unpickle => "Unpickling"
  | .notFound => "FileNotFoundError" | .badTable => "BadTable"

def jsonOfView (r : View) : Json :=
  Json.mkObj [("summary", Json.num (r.summary : Lean.JsonNumber)),
    ("samples", match r.samples with
      | none => Json.null
      | some (s, i) => Json.arr #[Json.num (s : Lean.JsonNumber), Json.num (i : Lean.JsonNumber)])]

def jsonOfOutcome : Outcome → List (String × Json)
  | .ok r => [("outcome", "ok"), ("view", jsonOfView r)]
  | .raises e => [("outcome", "raises"), ("err", errName e)]

/-- a step, with `noop` = it does not change the state it is applied to (removal of an absent file) -/
def jsonOfStep (fs : FS) : Step → Json
  | .put f s a => Json.arr #["put", fileName f, jsonOfSt s, Json.bool a]
  | .remove f => Json.arr #["remove", fileName f, Json.bool (fs.folder f == .absent)]
  | .zipOpen => Json.arr #["zipOpen"]
  | .zipClose => Json.arr #["zipClose"]
  | .zipRemove => Json.arr #["zipRemove"]
  | .sample => Json.arr #["sample"]
  | .other t => Json.arr #["other", t]

def jsonOfSteps (fs : FS) : List Step → List Json
  | [] => []
  | s :: l => jsonOfStep fs s :: jsonOfSteps (apply fs s) l

def jsonOfOpt (o : Option View) : Json :=
  match o with
  | none => Json.null
  | some r => jsonOfView r

/-! the call tables compiled into this driver (`AFModel/Generated/C06.lean`), in the shape
`harness/tables_c06.py` produces them -/

def lastName (s : String) : String := (s.splitOn ".").getLast!

def jsonOfTok : AF.FitFS.Src.Tok → Json
  | .unknown n => Json.arr #["unknown", n]
  | t => Json.str (lastName (toString (repr t)))

def jsonOfGCall (c : AF.FitFS.Src.GCall) : Json :=
  Json.arr #[jsonOfTok c.name,
    Json.arr (c.guards.map fun g => Json.arr #[Json.str (lastName (toString (repr g.1))), Json.bool g.2]).toArray]

def jsonOfTable (l : List AF.FitFS.Src.GCall) : Json := Json.arr (l.map jsonOfGCall).toArray

open AF.FitFS.Gen in
def tablesJson : Json := Json.mkObj [
  ("fit", jsonOfTable fit), ("preFit", jsonOfTable preFit), ("startResume", jsonOfTable startResume),
  ("performUpdate", jsonOfTable performUpdate), ("completedFit", jsonOfTable completedFit),
  ("postFit", jsonOfTable postFit), ("outputInternal", jsonOfTable outputInternal),
  ("restore", jsonOfTable restore), ("zipRemove", jsonOfTable zipRemove), ("zip", jsonOfTable zip),
  ("zipDirectory", jsonOfTable zipDirectory), ("saveJson", jsonOfTable saveJson),
  ("saveSearchInternal", jsonOfTable saveSearchInternal), ("completed", jsonOfTable completed),
  ("saveSamples", jsonOfTable saveSamples), ("saveSamplesInner", jsonOfTable saveSamplesInner),
  ("saveSamplesSummary", jsonOfTable saveSamplesSummary), ("timerStart", jsonOfTable timerStart),
  ("timerUpdate", jsonOfTable timerUpdate), ("writeTable", jsonOfTable writeTable)]

end AF.Driver.C06

namespace AF.Driver
open AF.Driver.C06

def eventOfJson (j : Json) : Except String Event := do
  let n ← getNat j "n"
  let kill := (getNat j "kill").toOption
  pure ⟨n, kill⟩

def handleC06 (j : Json) : Except String Json := do
  let q := (getStr j "q").toOption.getD "run"
  let cfg ← cfgOfJson (← j.getObjVal? "cfg")
  let st ← settingsOfJson (← j.getObjVal? "st")
  let fs ← fsOfJson (← j.getObjVal? "fs")
  if q == "plan" then
    -- the steps of one call of `fit` read off the source tables, beside those of `run` under the
    -- configuration the source stands for (the two semantic flags taken from `cfg`)
    let n := (getNat j "n").toOption.getD 0
    let scfg := Plan.srcCfg cfg.fomCheckSound cfg.lbfgsResumes
    let r := run scfg st n fs
    let plan := Plan.planSteps st n fs
    pure (Json.mkObj [
      ("plan", Json.arr (jsonOfSteps fs plan).toArray),
      ("run", Json.arr (jsonOfSteps fs r.steps).toArray),
      ("outcome", (jsonOfOutcome r.outcome).head!.2),
      ("safe", Json.bool (safe st fs)),
      ("hyp", Json.bool (scfg.sound st)),
      ("sampled", Json.bool (sampled plan)),
      ("completed_after", jsonOfOpt (completedResult (applyAll fs plan))),
      ("src_cfg", Json.mkObj [("zip_atomic", Json.bool Plan.srcZipAtomic),
        ("restore_validates", Json.bool Plan.srcRestoreValidates),
        ("atomic_writes", Json.bool Plan.srcAtomicWrites)]),
      ("tables", tablesJson)])
  else if q == "exec" then
    -- replay a history; report the state after every event
    let evs ← (← getArr j "history").toList.mapM eventOfJson
    let rec go (fs : FS) : List Event → List Json
      | [] => []
      | e :: h =>
        let fs' := stepEvent cfg st fs e
        let r := run cfg st e.n fs
        Json.mkObj ([("state", jsonOfFS fs'), ("safe", Json.bool (safe st fs')),
          ("completed", jsonOfOpt (completedResult fs')),
          ("crash_states", Json.num ((crashStates fs r.steps).length : Lean.JsonNumber))]
          ++ (if e.kill.isNone then jsonOfOutcome r.outcome else [])) :: go fs' h
    pure (Json.mkObj [("trace", Json.arr (go fs evs).toArray)])
  else
    let n := (getNat j "n").toOption.getD 0
    let r := run cfg st n fs
    let final := r.final fs
    let base : List (String × Json) :=
      jsonOfOutcome r.outcome ++
      [("steps", Json.arr (jsonOfSteps fs r.steps).toArray),
       ("sampled", Json.bool (sampled r.steps)),
       ("final", jsonOfFS final),
       ("safe", Json.bool (safe st fs)),
       ("hyp", Json.bool (cfg.sound st)),
       ("final_safe", Json.bool (safe st final)),
       ("completed_before", jsonOfOpt (completedResult fs)),
       ("completed_after", jsonOfOpt (completedResult final))]
    let crash : List (String × Json) :=
      if (getBool j "crash_states").toOption.getD false then
        [("crash", Json.arr ((crashStates fs r.steps).map fun c =>
          Json.mkObj [("state", jsonOfFS c), ("safe", Json.bool (safe st c)),
            ("completed", jsonOfOpt (completedResult c))]).toArray)]
      else []
    pure (Json.mkObj (base ++ crash))

end AF.Driver
