import AFDriver.Wire
import AFModel.FloatOps
import AFModel.Passing
import AFModel.WidthCfg
import AFModel.PassRoutes
import AFModel.PassPlace
import AFModel.Generated.C12

open Lean (Json)
open AF AF.Wire

namespace AF.Driver

def optFloat (j : Json) (k : String) : Option Float :=
  match j.getObjVal? k with
  | .ok (Json.str s) => floatOfHex s
  | _ => none

def jsonOfPD (d : PD Float) : Json :=
  Json.mkObj [("kind", d.kind), ("lo", hexOfFloat d.lo), ("hi", hexOfFloat d.hi),
    ("mean", hexOfFloat d.mean), ("sigma", hexOfFloat d.sigma)]

partial def clsTreeOfJson (j : Json) : Except String ClsTree := do
  let p ← getStr j "p"
  let bs ← (← getArr j "b").toList.mapM clsTreeOfJson
  pure (.node p.toList bs)

def jsonOfCVal : CVal Float → Json
  | .wm rel v => Json.mkObj [("k", "wm"), ("relative", rel), ("value", hexOfFloat v)]
  | .lim lo hi => Json.mkObj [("k", "lim"), ("lo", hexOfFloat lo), ("hi", hexOfFloat hi)]
  | .other => Json.mkObj [("k", "other")]

/-- the configuration chain: names of generated tables (`"empty"` = a directory without prior files) -/
def chainOfJson (j : Json) : Except String (List (Config Float)) := do
  (← getArr j "chain").toList.mapM fun n => do
    let n ← n.getStr?
    if n == "empty" then pure []
    else match AF.WidthCfg.Generated.named.lookup n with
      -- sorted once per request (`callCfg_presorted`: same answers; sorting a sorted table is linear)
      | some c => pure (sortByLen c)
      | none => throw s!"unknown configuration table {n}"

def placeOfJson (j : Json) : Except String (Place Float) := do
  let cls ← clsTreeOfJson (← j.getObjVal? "cls")
  let attr ← getStr j "attr"
  let own : Option (Bool × Float) := match j.getObjVal? "own" with
    | .ok o => match getBool o "relative", getFloat o "value" with
      | .ok r, .ok v => some (r, v)
      | _, _ => none
    | _ => none
  pure { cls := cls, attr := attr.toList, own := own }

def jsonOfFound {α} (f : α → Json) : Found α → Json
  | .found a => Json.mkObj [("k", "found"), ("v", f a)]
  | .missing => Json.mkObj [("k", "missing")]
  | .malformed => Json.mkObj [("k", "malformed")]

/-- `q = "table"`: the generated tables; `q = "lookup"`: configuration of one (class, attribute) -/
def handleC12Cfg (q : String) (j : Json) : Except String Json := do
  match q with
  | "table" =>
    let tables : List (String × Json) := AF.WidthCfg.Generated.named.map fun (n, c) =>
      (n, Json.arr (c.map fun e => Json.mkObj [("path", String.ofList e.path), ("val", jsonOfCVal e.val)]).toArray)
    let nonneg : List (String × Json) := AF.WidthCfg.Generated.named.map fun (n, c) =>
      (n, Json.bool (configAbsNonneg (fun a b => decide (a ≤ b)) 0.0 [c]))
    pure (Json.mkObj [("tables", Json.mkObj tables), ("abs_nonneg", Json.mkObj nonneg)])
  | "lookup" =>
    let cs ← chainOfJson j
    let pl ← placeOfJson j
    let cfg := resolveCfg 0.5 cs pl
    pure (Json.mkObj [
      ("family", Json.arr ((family pl.cls).map (fun s => Json.str (String.ofList s))).toArray),
      ("wm_found", jsonOfFound (fun (m : Bool × Float) => Json.mkObj [("relative", m.1), ("value", hexOfFloat m.2)])
        (widthModifierFound cs pl.cls pl.attr)),
      ("lim_found", jsonOfFound (fun (l : Float × Float) => Json.mkObj [("lo", hexOfFloat l.1), ("hi", hexOfFloat l.2)])
        (limitsFound cs pl.cls pl.attr)),
      ("relative", cfg.relative), ("value", hexOfFloat cfg.value),
      ("glimits", match cfg.glimits with
        | some (a, b) => Json.arr #[hexOfFloat a, hexOfFloat b]
        | none => Json.null),
      ("ok_with_limits", resolveOk cs true pl), ("ok_no_limits", resolveOk cs false pl)])
  | "kwargs" =>
    let t := (← parseNode (← j.getObjVal? "comp")).node
    let v ← vecOfJson (← j.getObjVal? "v")
    let keys := uniquePaths t
    let groups := allPaths t
    pure (Json.mkObj [
      ("keys", Json.arr (keys.map jsonOfPath).toArray),
      ("groups", Json.arr (groups.map (fun g => Json.arr (g.map jsonOfPath).toArray)).toArray),
      ("vector", Json.arr ((resultVector t v).map (fun o => match o with
        | some x => Json.str (hexOfFloat x)
        | none => Json.null)).toArray),
      ("own", keysOwnGroups keys groups)])
  | s => throw s!"bad q {s}"

def handleC12 (j : Json) : Except String Json := do
  if let .ok q := getStr j "q" then
    return ← handleC12Cfg q j
  let parsed ← parseNode (← j.getObjVal? "comp")
  let t := parsed.node
  let mj ← j.getObjVal? "mode"
  let mk ← getStr mj "k"
  let mode : PassMode Float ← match mk with
    | "means" => pure (.means (optFloat mj "a") (optFloat mj "r") ((getBool mj "no_limits").toOption.getD false))
    | "uniform" => pure (.uniform (← getFloat mj "b"))
    | "with_limits" => pure .withLimits
    | s => throw s!"bad mode {s}"
  let olds ← (← getArr j "olds").toList.mapM fun p => do
    pure ({ kind := (← getStr p "kind"), lo := (← getFloat p "lo"), hi := (← getFloat p "hi"),
            mean := (getFloat p "mean").toOption.getD 0.0, sigma := (getFloat p "sigma").toOption.getD 0.0 } : PD Float)
  -- the configuration of every parameter: looked up by the model (`places` + `chain`), or (older
  -- replays) handed over resolved (`cfgs`)
  let noLim := match mode with
    | .means _ _ nl => nl
    | _ => true
  let (places?, chain) ← match j.getObjVal? "places" with
    | .ok (Json.arr ps) => do
        let pls ← ps.toList.mapM placeOfJson
        pure (some pls, ← chainOfJson j)
    | _ => match j.getObjVal? "classes" with
      -- class and attribute name of every parameter derived by the model from the composition
      | .ok (Json.obj kvs) => do
          let classes ← kvs.toList.mapM fun (k, v) => do pure (k, ← clsTreeOfJson v)
          let owns ← (← getArr j "owns").toList.mapM fun o => do
            pure (match getBool o "relative", getFloat o "value" with
              | .ok r, .ok v => some (r, v)
              | _, _ => (none : Option (Bool × Float)))
          pure (some (placesFromTree classes t owns), ← chainOfJson j)
      | _ => pure (none, [])
  let cfgArr : Array Json := match j.getObjVal? "cfgs" with
    | .ok (Json.arr a) => a
    | _ => #[]
  let cfgsGiven ← cfgArr.toList.mapM fun c => do
    let gl := match optFloat c "glo", optFloat c "ghi" with
      | some a, some b => some (a, b)
      | _, _ => none
    pure ({ relative := (← getBool c "relative"), value := (← getFloat c "value"), glimits := gl } : PCfg Float)
  let xs ← (← getArr j "xs").toList.mapM fun e => do
    let pair ← e.getArr?
    if pair.size != 2 then throw "bad x pair"
    pure ((← floatOfJson pair[0]!), (← floatOfJson pair[1]!))
  -- `Result.model` & co.: the vector goes through a path-keyed sample and back
  let viaKwargs := (getBool j "via_kwargs").toOption.getD false
  let recovered := resultVector t (xs.map (·.1))
  if viaKwargs && recovered.any (·.isNone) then
    return Json.mkObj [("key_error", true)]
  let xs := if viaKwargs then recovered.map (fun o => (o.getD 0.0, 0.0)) else xs
  let args := match places? with
    | some pls => passArgsCfg floatPass 0.5 chain mode t olds pls xs
    | none => passArgs floatPass mode t olds cfgsGiven xs
  let cfgOk := match places? with
    | some pls => pls.all (resolveOk chain (!noLim))
    | none => true
  let base := (getNat j "base").toOption.getD 1000000
  let r := match mode with
    | .withLimits => renameIds (freshSigma t base) t
    | _ => t
  pure (Json.mkObj [
    ("new", Json.arr (args.map (fun (_, d) => jsonOfPD d)).toArray),
    ("paths", Json.arr ((paths r).map jsonOfPath).toArray),
    ("count", Json.num ((count r : Nat) : Lean.JsonNumber)),
    ("cfg_ok", cfgOk),
    ("place_keys", Json.arr ((placeKeys t).map (fun (c, a) => Json.arr #[match c with
      | some c => Json.str c
      | none => Json.null, Json.str a])).toArray)])

end AF.Driver
