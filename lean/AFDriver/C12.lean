import AFDriver.Wire
import AFModel.FloatOps
import AFModel.Passing

open Lean (Json)
open AF AF.Wire

namespace AF.Driver

def optFloat (j : Json) (k : String) : Option Float :=
  match j.getObjVal? k with
  | .ok (Json.str s) => floatOfHex s
  | _ => none

def jsonOfPD (d : PD Float) : Json :=
  Json.mkObj [("kind", d.kind), ("lo", hexOfFloat d.lo), ("hi", hexOfFloat d.hi),
    ("mean", hexOfFloat d.mean), ("sigma", hexOfFloat d.sigma)]

def handleC12 (j : Json) : Except String Json := do
  let parsed ← parseNode (← j.getObjVal? "comp")
  let t := parsed.node
  let mj ← j.getObjVal? "mode"
  let mk ← getStr mj "k"
  let mode : PassMode Float ← match mk with
    | "means" => pure (.means (optFloat mj "a") (optFloat mj "r") ((getBool mj "no_limits").toOption.getD false))
    | "uniform" => pure (.uniform (← getFloat mj "b"))
    | "with_limits" => pure .withLimits
    | s => throw s!"bad mode {s}"
  let olds ← (← getArr j "olds").toList.mapM fun p => do
    pure ({ kind := (← getStr p "kind"), lo := (← getFloat p "lo"), hi := (← getFloat p "hi"),
            mean := (getFloat p "mean").toOption.getD 0.0, sigma := (getFloat p "sigma").toOption.getD 0.0 } : PD Float)
  let cfgs ← (← getArr j "cfgs").toList.mapM fun c => do
    let gl := match optFloat c "glo", optFloat c "ghi" with
      | some a, some b => some (a, b)
      | _, _ => none
    pure ({ relative := (← getBool c "relative"), value := (← getFloat c "value"), glimits := gl } : PCfg Float)
  let xs ← (← getArr j "xs").toList.mapM fun e => do
    let pair ← e.getArr?
    if pair.size != 2 then throw "bad x pair"
    pure ((← floatOfJson pair[0]!), (← floatOfJson pair[1]!))
  let args := passArgs floatPass mode t olds cfgs xs
  let base := (getNat j "base").toOption.getD 1000000
  let r := match mode with
    | .withLimits => renameIds (freshSigma t base) t
    | _ => t
  pure (Json.mkObj [
    ("new", Json.arr (args.map (fun (_, d) => jsonOfPD d)).toArray),
    ("paths", Json.arr ((paths r).map jsonOfPath).toArray),
    ("count", Json.num ((count r : Nat) : Lean.JsonNumber))])

end AF.Driver
