import AFDriver.Wire
import AFModel.SamplesIO
import AFModel.SamplesStats

open Lean (Json)
open AF AF.Wire AF.SamplesIO AF.SamplesStats

namespace AF.Driver

namespace C09

def floatVOps : VOps Float where
  add := fun a b => a + b
  isZero := fun a => a == 0.0
  gt := fun a b => decide (a > b)

def strOf (n : Name) : String := String.ofList n

def jsonOfName (n : Name) : Json := Json.str (strOf n)
def jsonOfNPath (p : NPath) : Json := Json.arr (p.map jsonOfName).toArray

/-- a tuple key is an array of strings, a plain key a string -/
def jsonOfKey : Key → Json
  | .str s => jsonOfName s
  | .path p => jsonOfNPath p

def keyOfJson (j : Json) : Except String Key :=
  match j with
  | .str s => pure (.str s.toList)
  | .arr a => do
      let ps ← a.toList.mapM (·.getStr?)
      pure (.path (ps.map String.toList))
  | _ => throw "bad key"

def jsonOfFloat (x : Float) : Json := Json.str (hexOfFloat x)

def jsonOfSample (s : Sample Float) : Json :=
  Json.mkObj [("ll", jsonOfFloat s.ll), ("lp", jsonOfFloat s.lp), ("w", jsonOfFloat s.w),
    ("kw", Json.arr (s.kwargs.map fun kv => Json.arr #[jsonOfKey kv.1, jsonOfFloat kv.2]).toArray)]

def jsonOfOpt {α} (f : α → Json) : Option α → Json
  | some a => f a
  | none => Json.null

def jsonOfList {α} (f : α → Json) (l : List α) : Json := Json.arr (l.map f).toArray

def sampleOfJson (j : Json) : Except String (Sample Float) := do
  let kw ← (← getArr j "kw").toList.mapM fun e => do
    let pair ← e.getArr?
    if pair.size != 2 then throw "bad kwarg"
    pure ((← keyOfJson pair[0]!), (← floatOfJson pair[1]!))
  pure (mkSample (← getFloat j "ll") (← getFloat j "lp") (← getFloat j "w") kw)

def jsonOfParam (P : Param) : Json :=
  Json.mkObj [("paths", jsonOfList jsonOfNPath P.paths), ("names", jsonOfList jsonOfName P.names),
    ("uniq", jsonOfNPath P.uniq)]

def jsonOfVecOpt : Option (List Float) → Json := jsonOfOpt jsonOfVec

def natJson (n : Nat) : Json := Json.num (n : Lean.JsonNumber)

/-- the rational a finite double denotes -/
def ratOfFloat (x : Float) : Option Rat :=
  let bits := x.toBits.toNat
  let neg := bits / 2 ^ 63 % 2 == 1
  let ex : Nat := (bits / 2 ^ 52) % 2048
  let frac : Nat := bits % 2 ^ 52
  if ex == 2047 then none
  else
    let (m, e) : Nat × Int := if ex == 0 then (frac, -1074) else (frac + 2 ^ 52, (ex : Int) - 1075)
    let mag : Rat := if e ≥ 0 then ((m * 2 ^ e.toNat : Nat) : Rat) else (m : Rat) / ((2 ^ (-e).toNat : Nat) : Rat)
    some (if neg then -mag else mag)

def jsonOfRat (r : Rat) : Json := Json.str s!"{r.num}/{r.den}"

def ratSample (s : Sample Float) : Option (Sample Rat) := do
  let ll ← ratOfFloat s.ll
  let lp ← ratOfFloat s.lp
  let w ← ratOfFloat s.w
  let kw ← mapOpt (fun kv : Key × Float => (ratOfFloat kv.2).map fun v => (kv.1, v)) s.kwargs
  pure ⟨ll, lp, w, kw⟩

def jsonOfEst (e : Est) : Json :=
  Json.arr #[jsonOfRat e.median, jsonOfRat e.lower, jsonOfRat e.upper, jsonOfRat e.errLower, jsonOfRat e.errUpper]

end C09

open C09 in
def handleC09 (j : Json) : Except String Json := do
  let parsed ← parseNode (← j.getObjVal? "comp")
  let t := parsed.node
  let cfgJ := (j.getObjVal? "cfg").toOption.getD (Json.mkObj [])
  let cfg : Cfg := {
    keysNormalised := (getBool cfgJ "keys").toOption.getD true
    dictKeepsFalsy := (getBool cfgJ "falsy").toOption.getD true }
  let sh := shapeOf t
  let ops := floatVOps
  let mut out : List (String × Json) := [
    ("shape", jsonOfList jsonOfParam sh),
    ("wf", Json.bool (decide (WF sh))),
    ("headers", jsonOfList jsonOfName (headers sh))]
  -- samples given as vectors (Sample.from_lists) or as explicit constructor calls
  let mut ss : List (Sample Float) := []
  match j.getObjVal? "vectors" with
  | .ok vj =>
      for e in (← vj.getArr?) do
        let ps ← vecOfJson (← e.getObjVal? "v")
        ss := ss ++ [fromVector sh (← getFloat e "ll") (← getFloat e "lp") (← getFloat e "w") ps]
  | .error _ => pure ()
  match j.getObjVal? "samples" with
  | .ok sj =>
      for e in (← sj.getArr?) do
        ss := ss ++ [← sampleOfJson e]
  | .error _ => pure ()
  let pads := (← (getArr j "pads" <|> pure #[])).toList.filterMap (·.getNat?.toOption)
  out := out ++ [
    ("samples", jsonOfList jsonOfSample ss),
    ("param_lists", jsonOfList (fun s => jsonOfVecOpt (paramList cfg sh s)) ss),
    ("unique_values", jsonOfList (fun s => jsonOfList (fun P => jsonOfOpt jsonOfFloat (valueForPath cfg s P.uniq)) sh) ss),
    ("best_index", jsonOfOpt natJson (argmaxFirst ops.gt (ss.map (·.ll)))),
    ("best", jsonOfVecOpt (bestFit cfg ops sh ss))]
  -- table
  let tb : Option (Table Float) := saveCsv cfg ops sh pads id ss
  out := out ++ [("csv", jsonOfOpt (fun tb => Json.mkObj [
      ("header", jsonOfList jsonOfName tb.header),
      ("rows", jsonOfList jsonOfVec tb.rows)]) tb)]
  let loaded := tb.bind (loadCsv id)
  out := out ++ [
    ("csv_loaded", jsonOfOpt (jsonOfList jsonOfSample) loaded),
    ("csv_param_lists", jsonOfOpt (jsonOfList (fun s => jsonOfVecOpt (paramList cfg sh s))) loaded),
    ("csv_best", jsonOfVecOpt (loaded.bind (bestFit cfg ops sh)))]
  -- summary: every sample through the dictionary form
  let sums := ss.map (summaryRoundtrip cfg ops)
  out := out ++ [
    ("summary_loaded", jsonOfList jsonOfSample sums),
    ("summary_param_lists", jsonOfList (fun s => jsonOfVecOpt (paramList cfg sh s)) sums)]
  -- database rows
  let eff := toEfficient ss
  let effLoaded := eff.map ofEfficient
  out := out ++ [
    ("eff_keys", jsonOfOpt (fun e => jsonOfList jsonOfKey e.keys) eff),
    ("eff_values", jsonOfOpt (fun e => jsonOfList jsonOfVec e.values) eff),
    ("eff_loaded", jsonOfOpt (jsonOfList jsonOfSample) effLoaded),
    ("eff_param_lists", jsonOfOpt (jsonOfList (fun s => jsonOfVecOpt (paramList cfg sh s))) effLoaded)]
  -- estimates (exact rationals; only asked for finite sample sets)
  match j.getObjVal? "stats" with
  | .ok sj =>
      let ucs ← getNat sj "ucs"
      let qlows ← (← getArr sj "qlows").toList.mapM floatOfJson
      let qlowsM ← (← getArr sj "qlows_mcmc").toList.mapM floatOfJson
      out := out ++ [
        ("max_post_index", jsonOfOpt natJson (maxPostIndex ops ss)),
        ("minimise_idx", jsonOfList natJson (minimiseIdx ops ss))]
      match mapOpt ratSample ss, mapOpt ratOfFloat qlows, mapOpt ratOfFloat qlowsM with
      | some rs, some qs, some qms =>
          out := out ++ [
            ("stats", Json.mkObj [
              ("pdf", jsonOfList (fun q => jsonOfOpt (jsonOfList (jsonOfOpt jsonOfEst)) (estimates cfg ucs q sh rs)) qs),
              ("mcmc", jsonOfList (fun q => jsonOfOpt (jsonOfList (jsonOfOpt jsonOfEst)) (estimatesMCMC cfg q sh rs)) qms)]),
            ("converged", Json.bool (converged (rs.map (·.w))))]
          -- the model attached on reload lists the parameters in the order `reorder`
          match j.getObjVal? "reorder" with
          | .ok rj =>
              let idx := (← rj.getArr?).toList.filterMap (·.getNat?.toOption)
              let sh2 := reorder idx sh
              out := out ++ [("reordered", Json.mkObj [
                ("shape", jsonOfList jsonOfParam sh2),
                ("pdf", jsonOfList (fun q => jsonOfOpt (jsonOfList (jsonOfOpt jsonOfEst)) (estimates cfg ucs q sh2 rs)) qs),
                ("by_position", jsonOfList (fun q =>
                  match estimates cfg ucs q sh rs, estimates cfg ucs q sh2 rs with
                  | some stored, some fresh =>
                      jsonOfList (fun k => Json.bool (decide (attributed stored k = fresh[k]?))) (List.range idx.length)
                  | _, _ => Json.null) qs)])]
          | .error _ => pure ()
      | _, _, _ => out := out ++ [("stats", Json.null)]
  | .error _ => pure ()
  pure (Json.mkObj out)

end AF.Driver
