import AFDriver.Wire
import AFModel.FloatOps

open Lean (Json)
open AF AF.Wire

namespace AF.Driver

def parsePathArgs (j : Json) : Except String (List (Path × Float)) := do
  (← j.getArr?).toList.mapM fun e => do
    let pair ← e.getArr?
    if pair.size != 2 then throw "bad path arg"
    let p ← (← pair[0]!.getArr?).toList.mapM (·.getStr?)
    let v ← floatOfJson pair[1]!
    pure (p, v)

def handleC01 (j : Json) : Except String Json := do
  let parsed ← parseNode (← j.getObjVal? "comp")
  let t := parsed.node
  let mut out : List (String × Json) := [
    ("count", Json.num ((count t : Nat) : Lean.JsonNumber)),
    ("ids", Json.arr ((uniqueIds t).map (fun (n : Nat) => Json.num (n : Lean.JsonNumber))).toArray),
    ("paths", Json.arr ((paths t).map jsonOfPath).toArray),
    ("path_ids", Json.arr ((pathPriors t).map (fun x => Json.num (x.2 : Lean.JsonNumber))).toArray),
    ("unique_paths", Json.arr ((uniquePaths t).map jsonOfPath).toArray)]
  match j.getObjVal? "v" with
  | .ok vj =>
      let v ← vecOfJson vj
      out := out ++ [("inst_vec", jsonOfInst (instFromVector floatOps t v))]
  | .error _ => pure ()
  match j.getObjVal? "path_args" with
  | .ok pj =>
      let pa ← parsePathArgs pj
      out := out ++ [("inst_path", jsonOfInst (inst floatOps (argsOfPaths t pa) t))]
  | .error _ => pure ()
  pure (Json.mkObj out)

end AF.Driver
