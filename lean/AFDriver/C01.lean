import AFDriver.Wire
import AFModel.FloatOps
import AFModel.Build

open Lean (Json)
open AF AF.Wire

namespace AF.Driver

def parsePathArgs (j : Json) : Except String (List (Path × Float)) := do
  (← j.getArr?).toList.mapM fun e => do
    let pair ← e.getArr?
    if pair.size != 2 then throw "bad path arg"
    let p ← (← pair[0]!.getArr?).toList.mapM (·.getStr?)
    let v ← floatOfJson pair[1]!
    pure (p, v)

def handleC01Comp (j : Json) : Except String Json := do
  let parsed ← parseNode (← j.getObjVal? "comp")
  let t := parsed.node
  let mut out : List (String × Json) := [
    ("count", Json.num ((count t : Nat) : Lean.JsonNumber)),
    ("ids", Json.arr ((uniqueIds t).map (fun (n : Nat) => Json.num (n : Lean.JsonNumber))).toArray),
    ("paths", Json.arr ((paths t).map jsonOfPath).toArray),
    ("path_ids", Json.arr ((pathPriors t).map (fun x => Json.num (x.2 : Lean.JsonNumber))).toArray),
    ("unique_paths", Json.arr ((uniquePaths t).map jsonOfPath).toArray)]
  match j.getObjVal? "v" with
  | .ok vj =>
      let v ← vecOfJson vj
      -- built with the member order `posLeL` (the order the C01 theorems are about); the `splitOn`
      -- rendering `posLe` used by the other composition properties must give the same instance
      let iL := jsonOfInst (instFromVector floatOpsL t v)
      out := out ++ [("inst_vec", iL),
        ("name_orders_agree", Json.bool (iL.compress == (jsonOfInst (instFromVector floatOps t v)).compress))]
  | .error _ => pure ()
  match j.getObjVal? "path_args" with
  | .ok pj =>
      let pa ← parsePathArgs pj
      out := out ++ [("inst_path", jsonOfInst (inst floatOpsL (argsOfPaths t pa) t))]
  | .error _ => pure ()
  pure (Json.mkObj out)

/-! ## construction from the class signature (`AFModel/Build.lean`) -/

partial def parseArgD (j : Json) : Except String ArgD := do
  match (← getStr j "d") with
  | "cfg" => pure .cfg
  | "tup" => pure (.tup (← getNat j "n"))
  | "sub" => pure (.sub (← getStr j "cls") (← parseArgs (← j.getObjVal? "args")))
  | "str" => pure (.str (← getStr j "tag"))
  | "opt" => pure .opt
  | s => throw s!"bad argd {s}"
where
  parseArgs (j : Json) : Except String (List (String × ArgD)) := do
    (← j.getArr?).toList.mapM fun e => do
      let pair ← e.getArr?
      if pair.size != 2 then throw "bad arg"
      pure ((← pair[0]!.getStr?), (← parseArgD pair[1]!))

partial def parseOv (j : Json) : Except String (Ov Float) := do
  match (← getStr j "o") with
  | "node" => pure (.node (← parseNode (← j.getObjVal? "node")).node)
  | "int" => pure (.int (← getFloat j "v") (← getStr j "tag"))
  | "cls" => pure (.cls (← getStr j "cls") (← parseArgD.parseArgs (← j.getObjVal? "args")))
  | "list" => pure (.list (← (← getArr j "items").toList.mapM parseOv))
  | "dict" => pure (.dict (← parseKw (← j.getObjVal? "items")))
  | s => throw s!"bad override {s}"
where
  parseKw (j : Json) : Except String (List (String × Ov Float)) := do
    (← j.getArr?).toList.mapM fun e => do
      let pair ← e.getArr?
      if pair.size != 2 then throw "bad keyword"
      pure ((← pair[0]!.getStr?), (← parseOv pair[1]!))

def binOpName : BinOp → String
  | .add => "add" | .sub => "sub" | .mul => "mul" | .div => "div"
  | .floordiv => "floordiv" | .mod => "mod" | .pow => "pow"

def unOpName : UnOp → String
  | .neg => "neg" | .abs => "abs" | .log => "log" | .log10 => "log10"

partial def jsonOfNode : Node Float → Json
  | .prior id => Json.mkObj [("k", "prior"), ("id", Json.num (id : Lean.JsonNumber))]
  | .const v => Json.mkObj [("k", "const"), ("v", hexOfFloat v)]
  | .opaque tag => Json.mkObj [("k", "opaque"), ("tag", tag)]
  | .model cls ctor attrs => Json.mkObj [("k", "model"), ("cls", cls),
      ("ctor", Json.arr (ctor.map Json.str).toArray), ("attrs", attrsJ attrs)]
  | .coll attrs => Json.mkObj [("k", "coll"), ("attrs", attrsJ attrs)]
  | .tuple attrs => Json.mkObj [("k", "tuple"), ("attrs", attrsJ attrs)]
  | .arith op attrs l r => Json.mkObj [("k", "arith"), ("op", binOpName op), ("attrs", attrsJ attrs),
      ("l", jsonOfNode l), ("r", jsonOfNode r)]
  | .modif op attrs x => Json.mkObj [("k", "modif"), ("op", unOpName op), ("attrs", attrsJ attrs),
      ("x", jsonOfNode x)]
  | .array shape attrs => Json.mkObj [("k", "array"),
      ("shape", Json.arr (shape.map (fun (n : Nat) => Json.num (n : Lean.JsonNumber))).toArray),
      ("attrs", attrsJ attrs)]
where
  attrsJ (attrs : List (String × Node Float)) : Json :=
    Json.arr (attrs.map (fun (k, n) => Json.arr #[Json.str k, jsonOfNode n])).toArray

/-- answers about a composition the *model* built (`mkModel` / `mkCollection`) -/
def builtAnswer (j : Json) (t : Node Float) (next : Nat) : Except String Json := do
  let mut out : List (String × Json) := [
    ("node", jsonOfNode t),
    ("next", Json.num (next : Lean.JsonNumber)),
    ("count", Json.num ((count t : Nat) : Lean.JsonNumber)),
    ("ids", Json.arr ((uniqueIds t).map (fun (n : Nat) => Json.num (n : Lean.JsonNumber))).toArray),
    ("paths", Json.arr ((paths t).map jsonOfPath).toArray)]
  match j.getObjVal? "v" with
  | .ok vj =>
      let v ← vecOfJson vj
      out := out ++ [("inst_vec", jsonOfInst (instFromVector floatOpsL t v))]
  | .error _ => pure ()
  pure (Json.mkObj out)

def handleC01Build (j : Json) : Except String Json := do
  let kind ← getStr j "build"
  let base ← getNat j "base"
  match kind with
  | "model" =>
      let sj ← j.getObjVal? "sig"
      let sig : ClassSig := { name := (← getStr sj "name"), args := (← parseArgD.parseArgs (← sj.getObjVal? "args")) }
      let kw ← parseOv.parseKw (← j.getObjVal? "kw")
      let r := mkModel sig kw base
      builtAnswer j r.1 r.2
  | "collection" =>
      let r := mkCollection (← parseOv (← j.getObjVal? "items")) base
      builtAnswer j r.1 r.2
  | "names" =>
      -- the member order: `posLeL` (the order the theorems are about) beside `posLe`, and the names
      -- `make_tuple_prior` / `append` make
      let names ← (← getArr j "names").toList.mapM (·.getStr?)
      let pairs := names.map (fun s => (s, ()))
      let sortedL := (sortByName posLeL pairs).map (·.1)
      let sortedS := (sortByName posLe pairs).map (·.1)
      let members ← (← getArr j "members").toList.mapM fun e => do
        let pair ← e.getArr?
        if pair.size != 2 then throw "bad member"
        pure (memberName (← pair[0]!.getStr?) (← pair[1]!.getNat?))
      let idx ← (← getArr j "indices").toList.mapM (·.getNat?)
      pure (Json.mkObj [
        ("sorted", Json.arr (sortedL.map Json.str).toArray),
        ("sorted_splitOn", Json.arr (sortedS.map Json.str).toArray),
        ("keys", Json.arr (names.map (fun s =>
            let k := posKeyS s
            Json.arr #[Json.str k.1, Json.num (Lean.JsonNumber.fromInt k.2.1), Json.str k.2.2])).toArray),
        ("members", Json.arr (members.map Json.str).toArray),
        ("indices", Json.arr (idx.map (fun i => Json.str (indexName i))).toArray)])
  | s => throw s!"bad build kind {s}"

def handleC01 (j : Json) : Except String Json := do
  match j.getObjVal? "build" with
  | .ok _ => handleC01Build j
  | .error _ => handleC01Comp j

end AF.Driver
