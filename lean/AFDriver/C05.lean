import AFDriver.Wire
import AFModel.FloatOps
import AFModel.SamplesConv
import AFModel.SamplesMore

/-! Driver for C05: decodes a sampler's internal arrays, runs the conversion of
`AFModel/SamplesConv.lean` on `Float`, answers the sample list, the best sample and (when a
composition is supplied) the best-fit instance. -/

open Lean (Json)
open AF AF.Wire AF.Samples

namespace AF.Driver

def floatSOps : SOps Float where
  add := fun a b => a + b
  sub := fun a b => a - b
  negHalf := fun a => -0.5 * a
  exp := Float.exp
  zero := 0.0
  one := 1.0
  lt := fun a b => a < b
  le := fun a b => a ≤ b

def matOfJson (j : Json) : Except String (List (List Float)) := do
  (← j.getArr?).toList.mapM vecOfJson

def cubeOfJson (j : Json) : Except String (List (List (List Float))) := do
  (← j.getArr?).toList.mapM matOfJson

def jsonOfSample (s : Sample Float) : Json :=
  Json.mkObj [("params", jsonOfVec s.params), ("ll", Json.str (hexOfFloat s.ll)),
    ("lp", Json.str (hexOfFloat s.lp)), ("w", Json.str (hexOfFloat s.w)),
    ("post", Json.str (hexOfFloat (s.post floatSOps)))]

def sampleOfJson (j : Json) : Except String (Sample Float) := do
  pure { params := (← vecOfJson (← j.getObjVal? "params")), ll := (← getFloat j "ll"),
         lp := (← getFloat j "lp"), w := (← getFloat j "w") }

def optFloatOfJson (j : Json) : Except String (Option Float) :=
  match j with
  | Json.null => pure none
  | _ => do pure (some (← floatOfJson j))

def natsOfJson (j : Json) : Except String (List Nat) := do
  (← j.getArr?).toList.mapM (·.getNat?)

def pathsOfJson (j : Json) : Except String (List Path) := do
  (← j.getArr?).toList.mapM fun p => do (← p.getArr?).toList.mapM (·.getStr?)

def jsonOfKSample (s : KSample Path Float) : Json :=
  Json.mkObj [("kw", Json.arr (s.kwargs.map (fun (k, v) => Json.arr #[jsonOfPath k, Json.str (hexOfFloat v)])).toArray),
    ("ll", Json.str (hexOfFloat s.ll)), ("lp", Json.str (hexOfFloat s.lp)), ("w", Json.str (hexOfFloat s.w))]

def jsonOfOpt {α} (f : α → Json) : Option α → Json
  | some a => f a
  | none => Json.null

/-- the transformations of `AFModel/SamplesMore.lean` applied to one reported sample list -/
def handleXform (j : Json) : Except String Json := do
  let o := floatSOps
  let ss ← (← getArr j "samples").toList.mapM sampleOfJson
  let mut out : List (String × Json) := [("wsum", Json.str (hexOfFloat (weightSum o ss)))]
  match j.getObjVal? "thr" with
  | .ok tj =>
      let above := aboveThreshold o (← floatOfJson tj) ss
      out := out ++ [("above", Json.arr (above.map jsonOfSample).toArray),
        ("above_best", jsonOfOpt jsonOfSample (maxSample o above))]
  | .error _ => pure ()
  out := out ++ [("best_index", jsonOfOpt (fun (a : Sample Float × Nat) => Json.num a.2) (maxLLIdx o ss)),
    ("post_index", jsonOfOpt (fun (a : Sample Float × Nat) => Json.num a.2) (maxPostIdx o Float.isNaN ss)),
    ("minimise", jsonOfOpt (fun (l : List (Sample Float × Nat)) => Json.arr (l.map (fun a =>
        Json.mkObj [("i", Json.num a.2), ("s", jsonOfSample a.1)])).toArray) (minimise o Float.isNaN ss))]
  match j.getObjVal? "keys", j.getObjVal? "paths" with
  | .ok kj, .ok pj =>
      let keys ← pathsOfJson kj
      let paths ← pathsOfJson pj
      let ks := ss.map (toK keys)
      let w := ks.map (withPathsK paths)
      let wo := ks.map (withoutPathsK paths)
      out := out ++ [("with", Json.arr (w.map jsonOfKSample).toArray),
        ("with_best", jsonOfOpt jsonOfKSample (maxSampleK o w)),
        ("without", Json.arr (wo.map jsonOfKSample).toArray),
        ("without_best", jsonOfOpt jsonOfKSample (maxSampleK o wo))]
  | _, _ => pure ()
  pure (Json.mkObj out)

def handleC05 (j : Json) : Except String Json := do
  let q ← getStr j "q"
  if q == "xform" then return (← handleXform j)
  let priors ← match j.getObjVal? "priors" with
    | .ok pj => (← pj.getArr?).toList.mapM fun p => do
        let kind ← getStr p "kind"
        pure (kind, (getFloat p "mean").toOption.getD 0.0, (getFloat p "sigma").toOption.getD 1.0)
    | .error _ => pure []
  -- `model.log_prior_list_from_vector` (a `map` over priors in id order and the vector)
  let lpList : List Float → List Float := fun v =>
    (priors.zip v).map (fun ((kind, mean, sigma), x) => logPriorFloat kind mean sigma x)
  -- `sum(...)` of it
  let prior : List Float → Float := fun v => pySum floatFom (lpList v)
  let o := floatSOps
  let mut extra : List (String × Json) := []
  let samples? : Option (List (Sample Float)) ← match q with
    | "dynesty" => pure (dynestyConv o prior (← matOfJson (← j.getObjVal? "samples"))
        (← vecOfJson (← j.getObjVal? "logl")) (← vecOfJson (← j.getObjVal? "logwt"))
        (← vecOfJson (← j.getObjVal? "logz")))
    | "emcee" =>
        let cfg : Cfg := { emceeSameSlice := (getBool j "same_slice").toOption.getD true }
        let thin ← getNat j "thin"
        if thin == 0 then pure none   -- Python: ValueError, slice step cannot be zero
        else pure (some (emceeConv cfg o prior (← cubeOfJson (← j.getObjVal? "chain"))
          (← matOfJson (← j.getObjVal? "logp")) (← getNat j "discard") thin))
    | "pyswarms" => pure (some (pyswarmsConv o prior (← cubeOfJson (← j.getObjVal? "pos"))
        (← vecOfJson (← j.getObjVal? "cost"))))
    | "bfgs" =>
        let x ← vecOfJson (← j.getObjVal? "x")
        -- the stored `-0.5 * fitness(x)`: either supplied, or derived from the likelihood value at x
        let lpost? ← match j.getObjVal? "log_post" with
          | .ok v => pure (some (← floatOfJson v))
          | .error _ => do
              let ll ← getFloat j "ll"
              let out : Outcome Float := if ll.isNaN then .nan else .fin ll
              pure (bfgsLogPost o floatFom (fun _ => .ok (.tup [])) lpList (-(1.0 / 0.0)) x out)
        match lpost? with
        | none => pure none
        | some lpost =>
          extra := extra ++ [("log_post", Json.str (hexOfFloat lpost))]
          pure (some (bfgsConv o prior x lpost))
    | "bfgs_hist" => pure (some (bfgsHistConv o prior (← matOfJson (← j.getObjVal? "hist"))
        (← vecOfJson (← j.getObjVal? "lls"))))
    | "drawer" => pure (some (drawerConv o prior (← matOfJson (← j.getObjVal? "params"))
        (← vecOfJson (← j.getObjVal? "posts"))))
    | "nautilus" => pure (some (nautilusConv o prior (← matOfJson (← j.getObjVal? "points"))
        (← vecOfJson (← j.getObjVal? "logw")) (← vecOfJson (← j.getObjVal? "logl"))))
    | "ultranest" => pure (some (ultranestConv prior (← matOfJson (← j.getObjVal? "points"))
        (← vecOfJson (← j.getObjVal? "logl")) (← vecOfJson (← j.getObjVal? "weights"))))
    | "zeus" =>
        let cfg : ZCfg := { zeusSameSlice := (getBool j "same_slice").toOption.getD true }
        let thin ← getNat j "thin"
        let chain ← cubeOfJson (← j.getObjVal? "chain")
        let walkers := (chain.head?.map List.length).getD 0
        if thin == 0 then pure none   -- Python: ValueError, slice step cannot be zero
        else if (getBool j "walker_major").toOption.getD false then
          pure (some (zeusConv cfg o prior (walkerMajor walkers) (walkerMajor walkers) chain
            (← matOfJson (← j.getObjVal? "logp")) (← getNat j "discard") thin))
        else pure (some (zeusConv cfg o prior List.flatten List.flatten chain
          (← matOfJson (← j.getObjVal? "logp")) (← getNat j "discard") thin))
    | "samples" => pure (some (← (← getArr j "samples").toList.mapM sampleOfJson))
    | "init" =>
        let batches ← (← getArr j "batches").toList.mapM fun b => do
          let inputs ← matOfJson (← b.getObjVal? "inputs")
          let figs ← (← getArr b "figs").toList.mapM optFloatOfJson
          let order ← natsOfJson (← b.getObjVal? "order")
          pure (inputs, figs, order)
        let pairs := initRun batches
        extra := extra ++ [("pairs", Json.arr (pairs.map (fun (p, f) =>
          Json.arr #[jsonOfVec p, Json.str (hexOfFloat f)])).toArray)]
        pure (some [])
    | s => throw s!"bad query {s}"
  match samples? with
  | none => pure (Json.mkObj [("err", "raises")])
  | some ss =>
    let mut out : List (String × Json) := [("samples", Json.arr (ss.map jsonOfSample).toArray)] ++ extra
    match maxSample o ss with
    | some b => out := out ++ [("best", jsonOfSample b)]
    | none => out := out ++ [("best", Json.null)]
    match j.getObjVal? "comp" with
    | .ok cj =>
        let t := (← parseNode cj).node
        out := out ++ [("keys_ok", Json.bool (keysOK t))]
        match maxSample o ss with
        | some b =>
          match vectorOfSample t b with
          | some v => out := out ++ [("vector", jsonOfVec v)]
          | none => out := out ++ [("vector", Json.null)]
        | none => pure ()
        match bestInstance floatOps o t ss with
        | some i => out := out ++ [("inst", jsonOfInst i)]
        | none => out := out ++ [("inst", Json.null)]
    | .error _ => pure ()
    pure (Json.mkObj out)

end AF.Driver
