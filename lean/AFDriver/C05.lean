import AFDriver.Wire
import AFModel.FloatOps
import AFModel.SamplesConv

/-! Driver for C05: decodes a sampler's internal arrays, runs the conversion of
`AFModel/SamplesConv.lean` on `Float`, answers the sample list, the best sample and (when a
composition is supplied) the best-fit instance. -/

open Lean (Json)
open AF AF.Wire AF.Samples

namespace AF.Driver

def floatSOps : SOps Float where
  add := fun a b => a + b
  sub := fun a b => a - b
  negHalf := fun a => -0.5 * a
  exp := Float.exp
  zero := 0.0
  one := 1.0
  lt := fun a b => a < b
  le := fun a b => a ≤ b

def matOfJson (j : Json) : Except String (List (List Float)) := do
  (← j.getArr?).toList.mapM vecOfJson

def cubeOfJson (j : Json) : Except String (List (List (List Float))) := do
  (← j.getArr?).toList.mapM matOfJson

def jsonOfSample (s : Sample Float) : Json :=
  Json.mkObj [("params", jsonOfVec s.params), ("ll", Json.str (hexOfFloat s.ll)),
    ("lp", Json.str (hexOfFloat s.lp)), ("w", Json.str (hexOfFloat s.w)),
    ("post", Json.str (hexOfFloat (s.post floatSOps)))]

def sampleOfJson (j : Json) : Except String (Sample Float) := do
  pure { params := (← vecOfJson (← j.getObjVal? "params")), ll := (← getFloat j "ll"),
         lp := (← getFloat j "lp"), w := (← getFloat j "w") }

def optFloatOfJson (j : Json) : Except String (Option Float) :=
  match j with
  | Json.null => pure none
  | _ => do pure (some (← floatOfJson j))

def natsOfJson (j : Json) : Except String (List Nat) := do
  (← j.getArr?).toList.mapM (·.getNat?)

def handleC05 (j : Json) : Except String Json := do
  let q ← getStr j "q"
  let priors ← match j.getObjVal? "priors" with
    | .ok pj => (← pj.getArr?).toList.mapM fun p => do
        let kind ← getStr p "kind"
        pure (kind, (getFloat p "mean").toOption.getD 0.0, (getFloat p "sigma").toOption.getD 1.0)
    | .error _ => pure []
  -- `model.log_prior_list_from_vector` (a `map` over priors in id order and the vector)
  let lpList : List Float → List Float := fun v =>
    (priors.zip v).map (fun ((kind, mean, sigma), x) => logPriorFloat kind mean sigma x)
  -- `sum(...)` of it
  let prior : List Float → Float := fun v => pySum floatFom (lpList v)
  let o := floatSOps
  let mut extra : List (String × Json) := []
  let samples? : Option (List (Sample Float)) ← match q with
    | "dynesty" => pure (dynestyConv o prior (← matOfJson (← j.getObjVal? "samples"))
        (← vecOfJson (← j.getObjVal? "logl")) (← vecOfJson (← j.getObjVal? "logwt"))
        (← vecOfJson (← j.getObjVal? "logz")))
    | "emcee" =>
        let cfg : Cfg := { emceeSameSlice := (getBool j "same_slice").toOption.getD true }
        let thin ← getNat j "thin"
        if thin == 0 then pure none   -- Python: ValueError, slice step cannot be zero
        else pure (some (emceeConv cfg o prior (← cubeOfJson (← j.getObjVal? "chain"))
          (← matOfJson (← j.getObjVal? "logp")) (← getNat j "discard") thin))
    | "pyswarms" => pure (some (pyswarmsConv o prior (← cubeOfJson (← j.getObjVal? "pos"))
        (← vecOfJson (← j.getObjVal? "cost"))))
    | "bfgs" =>
        let x ← vecOfJson (← j.getObjVal? "x")
        -- the stored `-0.5 * fitness(x)`: either supplied, or derived from the likelihood value at x
        let lpost? ← match j.getObjVal? "log_post" with
          | .ok v => pure (some (← floatOfJson v))
          | .error _ => do
              let ll ← getFloat j "ll"
              let out : Outcome Float := if ll.isNaN then .nan else .fin ll
              pure (bfgsLogPost o floatFom (fun _ => .ok (.tup [])) lpList (-(1.0 / 0.0)) x out)
        match lpost? with
        | none => pure none
        | some lpost =>
          extra := extra ++ [("log_post", Json.str (hexOfFloat lpost))]
          pure (some (bfgsConv o prior x lpost))
    | "bfgs_hist" => pure (some (bfgsHistConv o prior (← matOfJson (← j.getObjVal? "hist"))
        (← vecOfJson (← j.getObjVal? "lls"))))
    | "drawer" => pure (some (drawerConv o prior (← matOfJson (← j.getObjVal? "params"))
        (← vecOfJson (← j.getObjVal? "posts"))))
    | "samples" => pure (some (← (← getArr j "samples").toList.mapM sampleOfJson))
    | "init" =>
        let batches ← (← getArr j "batches").toList.mapM fun b => do
          let inputs ← matOfJson (← b.getObjVal? "inputs")
          let figs ← (← getArr b "figs").toList.mapM optFloatOfJson
          let order ← natsOfJson (← b.getObjVal? "order")
          pure (inputs, figs, order)
        let pairs := initRun batches
        extra := extra ++ [("pairs", Json.arr (pairs.map (fun (p, f) =>
          Json.arr #[jsonOfVec p, Json.str (hexOfFloat f)])).toArray)]
        pure (some [])
    | s => throw s!"bad query {s}"
  match samples? with
  | none => pure (Json.mkObj [("err", "raises")])
  | some ss =>
    let mut out : List (String × Json) := [("samples", Json.arr (ss.map jsonOfSample).toArray)] ++ extra
    match maxSample o ss with
    | some b => out := out ++ [("best", jsonOfSample b)]
    | none => out := out ++ [("best", Json.null)]
    match j.getObjVal? "comp" with
    | .ok cj =>
        let t := (← parseNode cj).node
        out := out ++ [("keys_ok", Json.bool (keysOK t))]
        match maxSample o ss with
        | some b =>
          match vectorOfSample t b with
          | some v => out := out ++ [("vector", jsonOfVec v)]
          | none => out := out ++ [("vector", Json.null)]
        | none => pure ()
        match bestInstance floatOps o t ss with
        | some i => out := out ++ [("inst", jsonOfInst i)]
        | none => out := out ++ [("inst", Json.null)]
    | .error _ => pure ()
    pure (Json.mkObj out)

end AF.Driver
