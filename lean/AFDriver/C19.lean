import Lean.Data.Json
import AFModel.Migrate
import AFModel.Generated.C19

/-! Driver of C19: runs `AF.Migrate.runHistory` over the step table generated from the repository. -/

open Lean (Json)
open AF.Migrate

namespace AF.Driver

namespace C19

def jsonOfStmt : Stmt → Json
  | .addColumn t c => Json.mkObj [("k", "add"), ("t", t), ("c", c)]
  | .createTable t cols => Json.mkObj [("k", "create"), ("t", t), ("cols", Json.arr (cols.map Json.str).toArray)]
  | .renameColumn t a b => Json.mkObj [("k", "rename"), ("t", t), ("a", a), ("b", b)]
  | .dropColumn t c => Json.mkObj [("k", "drop"), ("t", t), ("c", c)]

def jsonOfSchema (s : Schema) : Json :=
  Json.arr (s.map fun (t, cs) => Json.arr #[Json.str t, Json.arr (cs.map Json.str).toArray]).toArray

def jsonOfRev : Rev → Json
  | .noTable => "noTable"
  | .empty => "empty"
  | .row none => Json.mkObj [("row", Json.null)]
  | .row (some i) => Json.mkObj [("row", Json.str i)]

def jsonOfLog (l : Log) : Json :=
  Json.arr (l.map fun (st, ok) => Json.arr #[jsonOfStmt st, Json.bool ok]).toArray

def parseSchema (j : Json) : Except String Schema := do
  (← j.getArr?).toList.mapM fun e => do
    let pair ← e.getArr?
    if pair.size != 2 then throw "bad table"
    let t ← pair[0]!.getStr?
    let cs ← (← pair[1]!.getArr?).toList.mapM (·.getStr?)
    pure (t, cs)

def parseRev (j : Json) : Except String Rev :=
  match j with
  | .str "noTable" => pure .noTable
  | .str "empty" => pure .empty
  | _ => do
    match j.getObjVal? "row" with
    | .ok .null => pure (.row none)
    | .ok (.str s) => pure (.row (some s))
    | _ => throw "bad rev"

def parseFile (j : Json) : Except String (Option Store) :=
  match j with
  | .null => pure none
  | _ => do
    let s ← parseSchema (← j.getObjVal? "schema")
    let r ← parseRev (← j.getObjVal? "rev")
    pure (some { schema := s, rev := r })

def parseCfg (j : Json) : Except String Cfg := do
  let b (k : String) : Except String Bool := (j.getObjVal? k) >>= (·.getBool?)
  pure { migrateCommits := (← b "migrateCommits"), stampUpsert := (← b "stampUpsert"),
         createStamps := (← b "createStamps") }

/-- all commit/no-commit histories of length 1..depth, shortest first -/
def histories : Nat → List (List Bool)
  | 0 => [[]]
  | n + 1 => (histories n).flatMap fun h => [h ++ [false], h ++ [true]]

def allHistories (depth : Nat) : List (List Bool) :=
  (List.range depth).flatMap fun n => histories (n + 1)

def pathString (h : List Bool) : String := String.ofList (h.map fun b => if b then 'c' else 'n')

end C19

open C19 in
def handleC19 (j : Json) : Except String Json := do
  let q ← (j.getObjVal? "q") >>= (·.getStr?)
  match q with
  | "table" =>
    pure (Json.mkObj [
      ("steps", Json.arr (Generated.steps.map fun s =>
        Json.mkObj [("id", s.id), ("stmts", Json.arr (s.stmts.map jsonOfStmt).toArray)]).toArray),
      ("rev_ids", Json.arr (Generated.revIds.map Json.str).toArray),
      ("latest", latestId Generated.table),
      ("history_rev_ids", Json.arr (Generated.historyRevIds.map Json.str).toArray),
      ("orm", jsonOfSchema Generated.orm),
      ("base", jsonOfSchema Generated.base),
      ("variants", Json.mkObj (Generated.variants.map fun (n, _, s) => (n, jsonOfSchema s))),
      ("variant_revs", Json.mkObj (Generated.variants.map fun (n, k, _) => (n, Json.num (k : Lean.JsonNumber)))),
      ("wf", Json.bool (decide Generated.table.WF))])
  | "tree" =>
    let cfg ← parseCfg (← j.getObjVal? "cfg")
    let file ← parseFile (← j.getObjVal? "file")
    let depth ← (j.getObjVal? "depth") >>= (·.getNat?)
    -- optional: the first open is interrupted after `crash` statements
    let (file, crashJ) ← match j.getObjVal? "crash" with
      | .ok cj => do
        let n ← cj.getNat?
        match file with
        | some s =>
          let r := interrupted Generated.table s n
          pure (some r.1, Json.mkObj [("log", jsonOfLog r.2), ("schema", jsonOfSchema r.1.schema), ("rev", jsonOfRev r.1.rev)])
        | none => throw "crash needs an existing file"
      | .error _ => pure (file, Json.null)
    let out := (allHistories depth).map fun h =>
      match (runHistory cfg Generated.table Generated.orm file h).getLast? with
      | some (st, log) =>
        Json.mkObj [("path", pathString h), ("log", jsonOfLog log), ("schema", jsonOfSchema st.schema),
                    ("rev", jsonOfRev st.rev), ("covers", Json.bool (covers st.schema Generated.orm))]
      | none => Json.null
    pure (Json.mkObj [("nodes", Json.arr out.toArray), ("crash", crashJ)])
  | s => throw s!"unknown C19 query {s}"

end AF.Driver
