import Lean.Data.Json
import AFModel.Migrate
import AFModel.MigrateRows
import AFModel.MigrateFeat
import AFModel.Generated.C19

/-! Driver of C19: runs `AF.Migrate.runHistory` over the step table generated from the repository. -/

open Lean (Json)
open AF.Migrate

namespace AF.Driver

namespace C19

def jsonOfStmt : Stmt → Json
  | .addColumn t c => Json.mkObj [("k", "add"), ("t", t), ("c", c)]
  | .createTable t cols => Json.mkObj [("k", "create"), ("t", t), ("cols", Json.arr (cols.map Json.str).toArray)]
  | .renameColumn t a b => Json.mkObj [("k", "rename"), ("t", t), ("a", a), ("b", b)]
  | .dropColumn t c => Json.mkObj [("k", "drop"), ("t", t), ("c", c)]

def jsonOfSchema (s : Schema) : Json :=
  Json.arr (s.map fun (t, cs) => Json.arr #[Json.str t, Json.arr (cs.map Json.str).toArray]).toArray

def jsonOfRev : Rev → Json
  | .noTable => "noTable"
  | .empty => "empty"
  | .row none => Json.mkObj [("row", Json.null)]
  | .row (some i) => Json.mkObj [("row", Json.str i)]

def jsonOfLog (l : Log) : Json :=
  Json.arr (l.map fun (st, ok) => Json.arr #[jsonOfStmt st, Json.bool ok]).toArray

def parseSchema (j : Json) : Except String Schema := do
  (← j.getArr?).toList.mapM fun e => do
    let pair ← e.getArr?
    if pair.size != 2 then throw "bad table"
    let t ← pair[0]!.getStr?
    let cs ← (← pair[1]!.getArr?).toList.mapM (·.getStr?)
    pure (t, cs)

def parseRev (j : Json) : Except String Rev :=
  match j with
  | .str "noTable" => pure .noTable
  | .str "empty" => pure .empty
  | _ => do
    match j.getObjVal? "row" with
    | .ok .null => pure (.row none)
    | .ok (.str s) => pure (.row (some s))
    | _ => throw "bad rev"

def parseFile (j : Json) : Except String (Option Store) :=
  match j with
  | .null => pure none
  | _ => do
    let s ← parseSchema (← j.getObjVal? "schema")
    let r ← parseRev (← j.getObjVal? "rev")
    pure (some { schema := s, rev := r })

def parseCfg (j : Json) : Except String Cfg := do
  let b (k : String) : Except String Bool := (j.getObjVal? k) >>= (·.getBool?)
  pure { migrateCommits := (← b "migrateCommits"), stampUpsert := (← b "stampUpsert"),
         createStamps := (← b "createStamps") }

/-- all commit/no-commit histories of length 1..depth, shortest first -/
def histories : Nat → List (List Bool)
  | 0 => [[]]
  | n + 1 => (histories n).flatMap fun h => [h ++ [false], h ++ [true]]

def allHistories (depth : Nat) : List (List Bool) :=
  (List.range depth).flatMap fun n => histories (n + 1)

/-! rows: a table travels as `[name, [columns], [[[column, value | null], …], …]]` -/

def jsonOfCell : Cell → Json
  | none => Json.null
  | some v => Json.str v

def jsonOfData (d : Data) : Json :=
  Json.arr (d.map fun T => Json.arr #[Json.str T.name, Json.arr (T.cols.map Json.str).toArray,
    Json.arr (T.rows.map fun r => Json.arr (r.map fun kv => Json.arr #[Json.str kv.1, jsonOfCell kv.2]).toArray).toArray]).toArray

def parseCell (j : Json) : Except String Cell :=
  match j with
  | .null => pure none
  | .str s => pure (some s)
  | _ => throw "bad cell"

def parseData (j : Json) : Except String Data := do
  (← j.getArr?).toList.mapM fun e => do
    let a ← e.getArr?
    if a.size != 3 then throw "bad table with rows"
    let t ← a[0]!.getStr?
    let cs ← (← a[1]!.getArr?).toList.mapM (·.getStr?)
    let rows ← (← a[2]!.getArr?).toList.mapM fun r => do
      (← r.getArr?).toList.mapM fun kv => do
        let p ← kv.getArr?
        if p.size != 2 then throw "bad cell pair"
        pure ((← p[0]!.getStr?), (← parseCell p[1]!))
    pure { name := t, cols := cs, rows := rows }

/-- columns of the file before a use whose values are found under another name (or not at all) after it:
`[table, column, new name | null]` (`logTrack`) -/
def movedJson (before : Option RStore) (log : Log) : Json :=
  match before with
  | none => Json.arr #[]
  | some b =>
    Json.arr ((b.data.flatMap fun T => T.cols.filterMap fun c =>
      match logTrack T.name log c with
      | some c' => if c' = c then none else some (Json.arr #[Json.str T.name, Json.str c, Json.str c'])
      | none => some (Json.arr #[Json.str T.name, Json.str c, Json.null])).toArray)

def parseRFile (j : Json) : Except String (Option RStore) :=
  match j with
  | .null => pure none
  | _ => do
    let d ← parseData (← j.getObjVal? "tables")
    let r ← parseRev (← j.getObjVal? "rev")
    pure (some { data := d, rev := r })

def pathString (h : List Bool) : String := String.ofList (h.map fun b => if b then 'c' else 'n')

end C19

open C19 in
def handleC19 (j : Json) : Except String Json := do
  let q ← (j.getObjVal? "q") >>= (·.getStr?)
  match q with
  | "table" =>
    pure (Json.mkObj [
      ("steps", Json.arr (Generated.steps.map fun s =>
        Json.mkObj [("id", s.id), ("stmts", Json.arr (s.stmts.map jsonOfStmt).toArray)]).toArray),
      ("rev_ids", Json.arr (Generated.revIds.map Json.str).toArray),
      ("latest", latestId Generated.table),
      ("history_rev_ids", Json.arr (Generated.historyRevIds.map Json.str).toArray),
      ("orm", jsonOfSchema Generated.orm),
      ("base", jsonOfSchema Generated.base),
      ("variants", Json.mkObj (Generated.variants.map fun (n, _, s) => (n, jsonOfSchema s))),
      ("variant_revs", Json.mkObj (Generated.variants.map fun (n, k, _) => (n, Json.num (k : Lean.JsonNumber)))),
      ("wf", Json.bool (decide Generated.table.WF))])
  | "tree" =>
    let cfg ← parseCfg (← j.getObjVal? "cfg")
    let file ← parseFile (← j.getObjVal? "file")
    let depth ← (j.getObjVal? "depth") >>= (·.getNat?)
    -- optional: the first open is interrupted after `crash` statements
    let (file, crashJ) ← match j.getObjVal? "crash" with
      | .ok cj => do
        let n ← cj.getNat?
        match file with
        | some s =>
          let r := interrupted Generated.table s n
          pure (some r.1, Json.mkObj [("log", jsonOfLog r.2), ("schema", jsonOfSchema r.1.schema), ("rev", jsonOfRev r.1.rev)])
        | none => throw "crash needs an existing file"
      | .error _ => pure (file, Json.null)
    let out := (allHistories depth).map fun h =>
      match (runHistory cfg Generated.table Generated.orm file h).getLast? with
      | some (st, log) =>
        Json.mkObj [("path", pathString h), ("log", jsonOfLog log), ("schema", jsonOfSchema st.schema),
                    ("rev", jsonOfRev st.rev), ("covers", Json.bool (covers st.schema Generated.orm))]
      | none => Json.null
    pure (Json.mkObj [("nodes", Json.arr out.toArray), ("crash", crashJ)])
  | "rtree" =>
    -- the model with rows (`runHistoryR` / `interruptedR`); a node whose tables equal those of the use before
    -- it (or of the file handed in) answers `"same": true` instead of repeating them
    let cfg ← parseCfg (← j.getObjVal? "cfg")
    let file ← parseRFile (← j.getObjVal? "file")
    let depth ← (j.getObjVal? "depth") >>= (·.getNat?)
    let (file, crashJ) ← match j.getObjVal? "crash" with
      | .ok cj => do
        let n ← cj.getNat?
        match file with
        | some s =>
          let r := interruptedR Generated.table s n
          pure (some r.1, Json.mkObj [("log", jsonOfLog r.2), ("tables", jsonOfData r.1.data),
            ("schema", jsonOfSchema (schemaOf r.1.data)), ("rev", jsonOfRev r.1.rev),
            ("moved", movedJson (some s) (interruptedDurableLog Generated.table s n)), ("wf", Json.bool (wfData r.1.data))])
        | none => throw "crash needs an existing file"
      | .error _ => pure (file, Json.null)
    let out := (allHistories depth).map fun h =>
      let rs := runHistoryR cfg Generated.table Generated.orm file h
      match rs.getLast? with
      | some (st, log) =>
        let before : Option RStore := match rs.dropLast.getLast? with
          | some p => some p.1
          | none => file
        let same := match before with
          | some b => decide (b.data = st.data)
          | none => false
        Json.mkObj [("path", pathString h), ("log", jsonOfLog log), ("schema", jsonOfSchema (schemaOf st.data)),
                    ("rev", jsonOfRev st.rev), ("same", Json.bool same),
                    ("tables", if same then Json.null else jsonOfData st.data),
                    ("moved", if cfg.migrateCommits then movedJson before log else Json.arr #[]),
                    ("wf", Json.bool (wfData st.data))]
      | none => Json.null
    pure (Json.mkObj [("nodes", Json.arr out.toArray), ("crash", crashJ),
      ("file_wf", Json.bool (match file with | some s => wfData s.data | none => true)),
      ("rename_targets", Json.arr ((renameTargets Generated.steps).map fun tc =>
        Json.arr #[Json.str tc.1, Json.str tc.2]).toArray)])
  | "features" =>
    -- which current features are usable on a schema (`usable` over the needs regenerated from the mappers)
    let s ← parseSchema (← j.getObjVal? "schema")
    pure (Json.mkObj [
      ("usable", Json.mkObj ((usableEach s Generated.features).map fun p => (p.1, Json.bool p.2))),
      ("all", Json.bool (allUsable s Generated.features)),
      ("needs", Json.mkObj (Generated.features.map fun f =>
        (f.1, Json.arr (f.2.map fun tc => Json.arr #[Json.str tc.1, Json.str tc.2]).toArray)))])
  | s => throw s!"unknown C19 query {s}"

end AF.Driver
