import Lean.Data.Json
import AFModel.Ident
import AFModel.IdentComp
import AFModel.IdentJoin
import AFModel.IdentSearch
import AFDriver.Wire

open Lean (Json)
open AF

namespace AF.Driver

partial def parsePyVal (j : Json) : Except String PyVal := do
  let t ← (j.getObjVal? "t") >>= (·.getStr?)
  let fields (key : String) : Except String (List (String × PyVal)) := do
    let arr ← (j.getObjVal? key) >>= (·.getArr?)
    arr.toList.mapM fun a => do
      let pair ← a.getArr?
      if pair.size != 2 then throw "bad field"
      pure ((← pair[0]!.getStr?), (← parsePyVal pair[1]!))
  let strs (key : String) : Except String (List String) := do
    ((← (j.getObjVal? key) >>= (·.getArr?)).toList.mapM (·.getStr?))
  match t with
  | "cls" => pure (.cls (← (j.getObjVal? "path") >>= (·.getStr?)))
  | "obj" =>
      let cls ← (j.getObjVal? "cls") >>= (·.getStr?)
      let mo ← (j.getObjVal? "mo") >>= (·.getBool?)
      let idf ← match j.getObjVal? "idf" with
        | .ok (Json.arr _) => (fields "idf").map some
        | _ => pure none
      let ctor ← match j.getObjVal? "ctor" with
        | .ok (Json.arr _) => strs "ctor"
        | _ => pure []
      let ex ← match j.getObjVal? "excl" with
        | .ok (Json.arr _) => (strs "excl").map some
        | _ => pure none
      let d ← match j.getObjVal? "dict" with
        | .ok (Json.arr _) => fields "dict"
        | _ => pure []
      pure (.obj cls mo idf ctor ex d)
  | "dict" => pure (.dict (← fields "items"))
  | "float" =>
      let h ← (j.getObjVal? "v") >>= (·.getStr?)
      match AF.Wire.floatOfHex h with
      | some f => pure (.float f.toBits)
      | none => throw s!"bad float {h}"
  | "str" => pure (.str (← (j.getObjVal? "v") >>= (·.getStr?)))
  | "int" => pure (.int (← (j.getObjVal? "v") >>= (·.getInt?)))
  | "bool" => pure (.bool (← (j.getObjVal? "v") >>= (·.getBool?)))
  | "none" => pure .none
  | "iter" =>
      let arr ← (j.getObjVal? "items") >>= (·.getArr?)
      pure (.iter (← arr.toList.mapM parsePyVal))
  | s => throw s!"bad pyval {s}"

def parseMeta (j : Json) : Except String Meta := do
  let id ← match j.getObjVal? "id" with
    | .ok v => v.getNat?
    | _ => pure 0
  let label ← match j.getObjVal? "label" with
    | .ok (Json.str s) => pure (some s)
    | _ => pure none
  let asserts ← match j.getObjVal? "asserts" with
    | .ok (Json.arr a) => a.toList.mapM (·.getStr?)
    | _ => pure []
  pure ⟨id, label, asserts⟩

def priorKindOf : String → Except String PriorKind
  | "uniform" => pure .uniform
  | "logUniform" => pure .logUniform
  | "gaussian" => pure .gaussian
  | "logGaussian" => pure .logGaussian
  | s => throw s!"bad prior kind {s}"

/-- a composition as the identifier meets it (`harness/c07_comp.py: cnode_of`) -/
partial def parseCNode (j : Json) : Except String CNode := do
  let k ← (j.getObjVal? "k") >>= (·.getStr?)
  let bits (key : String) : Except String UInt64 := do
    match j.getObjVal? key with
    | .ok (Json.str h) =>
      match AF.Wire.floatOfHex h with
      | some f => pure f.toBits
      | none => throw s!"bad float {h}"
    | _ => pure 0
  let attrs (key : String) : Except String (List (String × CNode)) := do
    let arr ← (j.getObjVal? key) >>= (·.getArr?)
    arr.toList.mapM fun a => do
      let pair ← a.getArr?
      if pair.size != 2 then throw "bad attr"
      pure ((← pair[0]!.getStr?), (← parseCNode pair[1]!))
  let nats (v : Json) : Except String (List Nat) := do (← v.getArr?).toList.mapM (·.getNat?)
  let str (key : String) : Except String String := (j.getObjVal? key) >>= (·.getStr?)
  match k with
  | "prior" =>
      pure (.prior (← parseMeta j) (← priorKindOf (← str "kind")) (← bits "lo") (← bits "hi") (← bits "mean") (← bits "sigma"))
  | "flt" => pure (.flt (← bits "v"))
  | "int" => pure (.int (← (j.getObjVal? "v") >>= (·.getInt?)))
  | "bool" => pure (.bool (← (j.getObjVal? "v") >>= (·.getBool?)))
  | "str" => pure (.str (← str "v"))
  | "none" => pure .none
  | "model" => pure (.model (← parseMeta j) (← str "path") (← attrs "attrs"))
  | "coll" => pure (.coll (← parseMeta j) (← (j.getObjVal? "item_number") >>= (·.getNat?)) (← attrs "attrs"))
  | "tuple" => pure (.tuple (← parseMeta j) (← attrs "attrs"))
  | "arith" =>
      pure (.arith (← parseMeta j) (← AF.Wire.binOpOf (← str "op")) (← str "ln") (← str "rn")
        (← parseCNode (← j.getObjVal? "l")) (← parseCNode (← j.getObjVal? "r")))
  | "modif" =>
      pure (.modif (← parseMeta j) (← AF.Wire.unOpOf (← str "op")) (← str "name") (← parseCNode (← j.getObjVal? "x")))
  | "array" =>
      let ix ← (← (j.getObjVal? "indices") >>= (·.getArr?)).toList.mapM nats
      pure (.array (← parseMeta j) (← nats (← j.getObjVal? "shape")) ix (← attrs "attrs"))
  | "inst" =>
      pure (.inst (← str "cls") (← (← (j.getObjVal? "ctor") >>= (·.getArr?)).toList.mapM (·.getStr?)) (← attrs "dict"))
  | "minst" => pure (.minst (← parseMeta j) (← attrs "attrs"))
  | "seq" => pure (.seq (← (← (j.getObjVal? "items") >>= (·.getArr?)).toList.mapM parseCNode))
  | s => throw s!"bad cnode {s}"

def strArr (l : List String) : Json := Json.arr (l.map Json.str).toArray

/-- `{"kind":"comp","node":…[,"search":pyval][,"tag":str]}`: the reflection route and the closed form of
    the composition's tokens, the tokens of the fit `[search, model(, tag)]`, the prior ids at the places -/
def handleC07Comp (j : Json) : Except String Json := do
  let t ← parseCNode (← j.getObjVal? "node")
  let base := [("tokens", strArr (tokens (reflect t))), ("ctokens", strArr (ctokens t)),
               ("prior_ids", Json.arr (t.priorIds.map (fun n => Json.num (Lean.JsonNumber.fromNat n))).toArray)]
  match j.getObjVal? "search" with
  | .ok sj =>
      let s ← parsePyVal sj
      let tag ← match j.getObjVal? "tag" with
        | .ok (Json.str x) => pure (some x)
        | _ => pure none
      pure (Json.mkObj (base ++ [("fit", strArr (tokens (fitVal s t tag)))]))
  | _ => pure (Json.mkObj base)

/-- `{"kind":"join","tokens":[…]}`: the hashed text and the dot-free pieces of a token list -/
def handleC07Join (j : Json) : Except String Json := do
  let ts ← (← (j.getObjVal? "tokens") >>= (·.getArr?)).toList.mapM (·.getStr?)
  pure (Json.mkObj [("joined", Json.str (joinTokens ts)), ("pieces", strArr (tokenPieces ts)),
    ("dotfree", Json.bool (ts.all (fun t => dotFree t.toList)))])

/-- `{"kind":"search","cls":name,"settings":[[name, pyval]…]}`: tokens of a search of a class of the generated table -/
def handleC07Search (j : Json) : Except String Json := do
  let name ← (j.getObjVal? "cls") >>= (·.getStr?)
  let arr ← (j.getObjVal? "settings") >>= (·.getArr?)
  let settings ← arr.toList.mapM fun a => do
    let pair ← a.getArr?
    if pair.size != 2 then throw "bad setting"
    pure ((← pair[0]!.getStr?), (← parsePyVal pair[1]!))
  match lookupRow name with
  | none => pure (Json.mkObj [("known", Json.bool false)])
  | some row =>
      pure (Json.mkObj [("known", Json.bool true), ("tokens", strArr (tokens (searchVal row (settingsOf settings)))),
        ("idf", strArr row.idf), ("others", strArr row.others)])

def handleC07 (j : Json) : Except String Json := do
  match j.getObjVal? "kind" with
  | .ok (Json.str "search") => handleC07Search j
  | .ok (Json.str "comp") => handleC07Comp j
  | .ok (Json.str "join") => handleC07Join j
  | _ =>
  let v ← parsePyVal (← j.getObjVal? "val")
  let ts := tokens v
  pure (Json.mkObj [("tokens", Json.arr (ts.map Json.str).toArray), ("joined", Json.str (joinTokens ts))])

end AF.Driver
