import Lean.Data.Json
import AFModel.Ident
import AFDriver.Wire

open Lean (Json)
open AF

namespace AF.Driver

partial def parsePyVal (j : Json) : Except String PyVal := do
  let t ← (j.getObjVal? "t") >>= (·.getStr?)
  let fields (key : String) : Except String (List (String × PyVal)) := do
    let arr ← (j.getObjVal? key) >>= (·.getArr?)
    arr.toList.mapM fun a => do
      let pair ← a.getArr?
      if pair.size != 2 then throw "bad field"
      pure ((← pair[0]!.getStr?), (← parsePyVal pair[1]!))
  let strs (key : String) : Except String (List String) := do
    ((← (j.getObjVal? key) >>= (·.getArr?)).toList.mapM (·.getStr?))
  match t with
  | "cls" => pure (.cls (← (j.getObjVal? "path") >>= (·.getStr?)))
  | "obj" =>
      let cls ← (j.getObjVal? "cls") >>= (·.getStr?)
      let mo ← (j.getObjVal? "mo") >>= (·.getBool?)
      let idf ← match j.getObjVal? "idf" with
        | .ok (Json.arr _) => (fields "idf").map some
        | _ => pure none
      let ctor ← match j.getObjVal? "ctor" with
        | .ok (Json.arr _) => strs "ctor"
        | _ => pure []
      let ex ← match j.getObjVal? "excl" with
        | .ok (Json.arr _) => (strs "excl").map some
        | _ => pure none
      let d ← match j.getObjVal? "dict" with
        | .ok (Json.arr _) => fields "dict"
        | _ => pure []
      pure (.obj cls mo idf ctor ex d)
  | "dict" => pure (.dict (← fields "items"))
  | "float" =>
      let h ← (j.getObjVal? "v") >>= (·.getStr?)
      match AF.Wire.floatOfHex h with
      | some f => pure (.float f.toBits)
      | none => throw s!"bad float {h}"
  | "str" => pure (.str (← (j.getObjVal? "v") >>= (·.getStr?)))
  | "int" => pure (.int (← (j.getObjVal? "v") >>= (·.getInt?)))
  | "bool" => pure (.bool (← (j.getObjVal? "v") >>= (·.getBool?)))
  | "none" => pure .none
  | "iter" =>
      let arr ← (j.getObjVal? "items") >>= (·.getArr?)
      pure (.iter (← arr.toList.mapM parsePyVal))
  | s => throw s!"bad pyval {s}"

def handleC07 (j : Json) : Except String Json := do
  let v ← parsePyVal (← j.getObjVal? "val")
  let ts := tokens v
  pure (Json.mkObj [("tokens", Json.arr (ts.map Json.str).toArray), ("joined", Json.str (joinTokens ts))])

end AF.Driver
