import AFDriver.Wire
import AFModel.Persist
import AFModel.DictForm
import AFModel.DictJson
import AFModel.FloatOps

open Lean (Json)
open AF AF.Wire

namespace AF.Driver

/-! ### wire: the rich composition (`PN`), the JSON structure (`JV`), the real dictionary (`DV`) -/

def pkindOf : String → Except String PKind
  | "Uniform" => pure .uniform
  | "LogUniform" => pure .logUniform
  | "Gaussian" => pure .gaussian
  | "LogGaussian" => pure .logGaussian
  | s => throw s!"bad prior kind {s}"

def scalOfJson (j : Json) : Except String (Scal Float) := do
  match j with
  | .null => pure .null
  | .bool b => pure (.bool b)
  | _ =>
    match j.getObjVal? "i" with
    | .ok v => pure (.int (← v.getInt?))
    | .error _ =>
      match j.getObjVal? "f" with
      | .ok v => pure (.num (← floatOfJson v))
      | .error _ =>
        match j.getObjVal? "s" with
        | .ok v => pure (.str (← v.getStr?))
        | .error _ => throw "bad scalar"

partial def pnOfJson (j : Json) : Except String (PN Float) := do
  let attrsOf (key : String) : Except String (List (String × PN Float)) := do
    let arr ← getArr j key
    arr.toList.mapM (fun a => do
      let pair ← a.getArr?
      if pair.size != 2 then throw "bad attr"
      pure ((← pair[0]!.getStr?), (← pnOfJson pair[1]!)))
  let listOf (key : String) : Except String (List (PN Float)) := do
    match j.getObjVal? key with
    | .ok (Json.arr arr) => arr.toList.mapM pnOfJson
    | _ => pure []
  match ← getStr j "k" with
  | "prior" =>
      let d : PDesc Float := {
        kind := (← pkindOf (← getStr j "kind")), lo := (← getFloat j "lo"), hi := (← getFloat j "hi"),
        mean := (getFloat j "mean").toOption.getD 0.0, sigma := (getFloat j "sigma").toOption.getD 0.0 }
      pure (.prior (← getNat j "id") d)
  | "lit" => pure (.lit (← scalOfJson (← j.getObjVal? "v")))
  | "model" => pure (.model (← getStr j "cp") (← attrsOf "attrs") (← listOf "asserts"))
  | "inst" => pure (.inst (← getStr j "cp") (← attrsOf "attrs"))
  | "coll" => pure (.coll (← getNat j "n") (← attrsOf "attrs") (← listOf "asserts"))
  | "tuple" => pure (.tuple (← attrsOf "attrs"))
  | "arith" => pure (.arith (← getStr j "ct") (← getStr j "ln") (← getStr j "rn")
        (← pnOfJson (← j.getObjVal? "l")) (← pnOfJson (← j.getObjVal? "r")))
  | "both" => pure (.both (← pnOfJson (← j.getObjVal? "x")) (← pnOfJson (← j.getObjVal? "y")))
  | "modif" => pure (.modif (← getStr j "mt") (← getStr j "name") (← pnOfJson (← j.getObjVal? "x")))
  | "array" => pure (.array (← (← getArr j "shape").toList.mapM (·.getNat?)) (← attrsOf "attrs"))
  | "list" => pure (.list ((getBool j "tuple").toOption.getD false) (← listOf "items"))
  | s => throw s!"bad PN kind {s}"

def jsonOfScal : Scal Float → Json
  | .null => Json.null
  | .bool b => Json.bool b
  | .int i => Json.mkObj [("i", Json.num (Lean.JsonNumber.fromInt i))]
  | .num v => Json.mkObj [("f", hexOfFloat v)]
  | .str s => Json.mkObj [("s", s)]

partial def jsonOfJV : JV Float → Json
  | .scal s => jsonOfScal s
  | .arr items => Json.arr (items.map jsonOfJV).toArray
  | .obj fields => Json.mkObj [("o", Json.arr (fields.map (fun (k, v) => Json.arr #[Json.str k, jsonOfJV v])).toArray)]

/-- the REAL dictionary (in the `JV` wire encoding) read into the typed form: dispatch on `"type"` -/
partial def dvOfJson (j : Json) : Except String (DV Float) := do
  match j.getObjVal? "o" with
  | .error _ => pure (.lit (← scalOfJson j))
  | .ok o =>
    let fields ← (← o.getArr?).toList.mapM (fun a => do
      let pair ← a.getArr?
      if pair.size != 2 then throw "bad field"
      pure ((← pair[0]!.getStr?), pair[1]!))
    let get (k : String) : Except String Json :=
      match fields.find? (·.1 == k) with
      | some (_, v) => pure v
      | none => throw s!"missing key {k}"
    let str (k : String) : Except String String := do
      match ← scalOfJson (← get k) with
      | .str s => pure s
      | _ => throw s!"{k}: not a string"
    let num (k : String) : Except String Float := do
      match ← scalOfJson (← get k) with
      | .num v => pure v
      | .int i => pure (Float.ofInt i)
      | _ => throw s!"{k}: not a number"
    let args (j : Json) : Except String (List (String × Json)) := do
      (← (← j.getObjVal? "o").getArr?).toList.mapM (fun a => do
        let pair ← a.getArr?
        if pair.size != 2 then throw "bad field"
        pure ((← pair[0]!.getStr?), pair[1]!))
    let dvArgs (kvs : List (String × Json)) : Except String (List (String × DV Float)) :=
      kvs.mapM (fun (k, v) => do pure (k, ← dvOfJson v))
    let asserts : Except String (List (DV Float)) :=
      match fields.find? (·.1 == "assertions") with
      | some (_, Json.arr arr) => arr.toList.mapM dvOfJson
      | _ => pure []
    match ← str "type" with
    | "model" => pure (.model (← str "class_path") (← asserts) (← dvArgs (← args (← get "arguments"))))
    | "instance" => pure (.inst (← str "class_path") (← dvArgs (← args (← get "arguments"))))
    | "collection" =>
        let n ← match fields.find? (·.1 == "item_number") with
          | some (_, v) => (do match ← scalOfJson v with
              | .int i => pure i.toNat
              | _ => throw "item_number")
          | none => pure 0
        pure (.coll (← asserts) n (← dvArgs (← args (← get "arguments"))))
    | "tuple_prior" => pure (.tuple (← dvArgs (← args (← get "arguments"))))
    | "compound" =>
        let ct ← str "compound_type"
        if ct == "CompoundAssertion" then
          pure (.both (← dvOfJson (← get "assertion_1")) (← dvOfJson (← get "assertion_2")))
        else pure (.compound ct (← dvOfJson (← get "left")) (← dvOfJson (← get "right")))
    | "modified" => pure (.modified (← str "modified_type") (← str "name") (← dvOfJson (← get "prior")))
    | "array" =>
        let a ← args (← get "arguments")
        let shapeJ ← match a.find? (·.1 == "shape") with
          | some (_, v) => pure v
          | none => throw "array without shape"
        let shapeVals ← (← (match (← args shapeJ).find? (·.1 == "values") with
          | some (_, v) => pure v
          | none => throw "shape without values")).getArr?
        let shape ← shapeVals.toList.mapM (fun v => do match ← scalOfJson v with
          | .int i => pure i.toNat
          | _ => throw "shape entry")
        -- `Array.from_dict`: `if key.startswith("prior")`
        pure (.array shape (← dvArgs (a.filter (fun kv => kv.1.startsWith "prior"))))
    | "list" => pure (.list false (← (← (← get "values").getArr?).toList.mapM dvOfJson))
    | "tuple" => pure (.list true (← (← (← get "values").getArr?).toList.mapM dvOfJson))
    | t =>
        let kind ← pkindOf t
        let id ← match ← scalOfJson (← get "id") with
          | .int i => pure i.toNat
          | _ => throw "prior id"
        let lo ← num "lower_limit"
        let hi ← num "upper_limit"
        let mean ← if kind.hasMoments then num "mean" else pure 0.0
        let sigma ← if kind.hasMoments then num "sigma" else pure 0.0
        let d : PDesc Float := { kind := kind, lo := lo, hi := hi, mean := mean, sigma := sigma }
        pure (.prior id d)

/-- what is reported about a (re)loaded composition: advertised paths in parameter order, identity
ranks, count, and its own dictionary with every id replaced by its rank -/
def reportPN (r : PN Float) : Json :=
  let e := pnErase (fun _ => []) r
  let pp := pathPriors e
  let ids := uniqueIds e
  let rank (i : Nat) : Nat := (indexOf? ids i).getD 0
  let allIds := sortDedup (pnLoadOrder r)
  let rankAll (i : Nat) : Nat := (indexOf? allIds i).getD 0
  Json.mkObj [
    ("count", Json.num ((count e : Nat) : Lean.JsonNumber)),
    ("paths", Json.arr ((pp.map (·.1)).map jsonOfPath).toArray),
    ("path_ranks", Json.arr (pp.map (fun x => Json.num ((rank x.2 : Nat) : Lean.JsonNumber))).toArray),
    ("redict", jsonOfJV (render (toDV (renamePN rankAll r))))]

/-- class table: scalar defaults of constructor arguments, by class path -/
def defaultsOfJson (j : Json) : Except String (String → List (String × Scal Float)) := do
  match j.getObjVal? "defaults" with
  | .error _ => pure (fun _ => [])
  | .ok d =>
    let entries ← (← d.getArr?).toList.mapM (fun e => do
      let pair ← e.getArr?
      if pair.size != 2 then throw "bad defaults entry"
      let args ← (← pair[1]!.getArr?).toList.mapM (fun a => do
        let kv ← a.getArr?
        if kv.size != 2 then throw "bad default"
        pure ((← kv[0]!.getStr?), (← scalOfJson kv[1]!)))
      pure ((← pair[0]!.getStr?), args))
    pure (fun cp => match entries.find? (·.1 == cp) with
      | some (_, a) => a
      | none => [])

def handleC08Dict (q : String) (j : Json) : Except String Json := do
  let base := (getNat j "base").toOption.getD 1000000
  let dflt ← defaultsOfJson j
  match q with
  | "todict" =>
      -- the writer on the extracted composition, and the model's own round trip of it
      let t ← pnOfJson (← j.getObjVal? "pn")
      let n := (getNat j "times").toOption.getD 1
      pure (Json.mkObj [
        ("dict", jsonOfJV (render (toDV t))),
        ("reload", reportPN (dictRTn dflt t base 1000 n))])
  | "fromdict" =>
      -- the reader on the REAL dictionary
      let d ← dvOfJson (← j.getObjVal? "dict")
      pure (reportPN (fromDV dflt d { next := base }).1)
  | "asserts" =>
      -- the reader on the REAL dictionary, then the verdict of every assertion of the reloaded model for values
      -- given per identity rank
      let d ← dvOfJson (← j.getObjVal? "dict")
      let r := (fromDV dflt d { next := base }).1
      let vals ← vecOfJson (← j.getObjVal? "vals")
      let allIds := sortDedup (pnLoadOrder r)
      let ρ (i : Nat) : Inst Float := match indexOf? allIds i with
        | some k => (match vals[k]? with
            | some v => .num v
            | none => .missing)
        | none => .missing
      pure (Json.mkObj [("verdicts", Json.arr ((assertVerdicts floatOps (fun _ => []) ρ r).map Json.bool).toArray)])
  | "pickle" =>
      let t ← pnOfJson (← j.getObjVal? "pn")
      let r := pickleRT t
      let e := pnErase (fun _ => []) r
      pure (Json.mkObj [
        ("paths", Json.arr (((pathPriors e).map (·.1)).map jsonOfPath).toArray),
        ("ids", Json.arr ((pathPriors e).map (fun x => Json.num ((x.2 : Nat) : Lean.JsonNumber))).toArray),
        ("dict", jsonOfJV (render (toDV r)))])
  | "dbcounter" =>
      -- member names of a collection's rows -> the counter of the rebuilt collection
      let names ← (← getArr j "names").toList.mapM (·.getStr?)
      let pos (n : String) : Option Nat := if n.length > 0 && n.all Char.isDigit then n.toNat? else none
      pure (Json.mkObj [("item_number", Json.num ((nextPosition (names.map pos) : Nat) : Lean.JsonNumber))])
  | s => throw s!"bad C08 question {s}"

def handleC08 (j : Json) : Except String Json := do
  match getStr j "q" with
  | .ok q => handleC08Dict q j
  | .error _ =>
  let parsed ← parseNode (← j.getObjVal? "comp")
  let t := parsed.node
  let base := (getNat j "base").toOption.getD 1000000
  let keep := (getBool j "keep_ids").toOption.getD false
  -- dictionary form: the modelled writer and reader; database rows rebuild arithmetic priors through
  -- their constructor too (operand names left_/right_) but keep ids; pickle keeps everything
  let route := (getStr j "route").toOption.getD (if keep then "pickle" else "dict")
  let r := match route with
    | "dict" => dictRoundTrip t base
    | "database" => canonNamesDb t
    | _ => reloadKeepingIds t
  let pp := pathPriors r
  -- ranks of the new ids (the real ids differ by an offset)
  let ids := uniqueIds r
  let rank (i : Nat) : Nat := (indexOf? ids i).getD 0
  pure (Json.mkObj [
    ("count", Json.num ((count r : Nat) : Lean.JsonNumber)),
    ("paths", Json.arr ((pp.map (·.1)).map jsonOfPath).toArray),
    ("path_ranks", Json.arr (pp.map (fun x => Json.num ((rank x.2 : Nat) : Lean.JsonNumber))).toArray),
    ("unique_paths", Json.arr ((uniquePaths r).map jsonOfPath).toArray)])

end AF.Driver
