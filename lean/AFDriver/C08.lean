import AFDriver.Wire
import AFModel.Persist
import AFModel.DictForm

open Lean (Json)
open AF AF.Wire

namespace AF.Driver

def handleC08 (j : Json) : Except String Json := do
  let parsed ← parseNode (← j.getObjVal? "comp")
  let t := parsed.node
  let base := (getNat j "base").toOption.getD 1000000
  let keep := (getBool j "keep_ids").toOption.getD false
  -- dictionary form: the modelled writer and reader; database rows rebuild arithmetic priors through
  -- their constructor too (operand names left_/right_) but keep ids; pickle keeps everything
  let route := (getStr j "route").toOption.getD (if keep then "pickle" else "dict")
  let r := match route with
    | "dict" => dictRoundTrip t base
    | "database" => canonNamesDb t
    | _ => reloadKeepingIds t
  let pp := pathPriors r
  -- ranks of the new ids (the real ids differ by an offset)
  let ids := uniqueIds r
  let rank (i : Nat) : Nat := (indexOf? ids i).getD 0
  pure (Json.mkObj [
    ("count", Json.num ((count r : Nat) : Lean.JsonNumber)),
    ("paths", Json.arr ((pp.map (·.1)).map jsonOfPath).toArray),
    ("path_ranks", Json.arr (pp.map (fun x => Json.num ((rank x.2 : Nat) : Lean.JsonNumber))).toArray),
    ("unique_paths", Json.arr ((uniquePaths r).map jsonOfPath).toArray)])

end AF.Driver
