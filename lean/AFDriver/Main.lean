import AFDriver.C01

open Lean (Json)

namespace AF.Driver

def dispatch (j : Json) : Except String Json := do
  let p ← AF.Wire.getStr j "p"
  match p with
  | "C01" => handleC01 j
  | "ping" => pure (Json.mkObj [("pong", true)])
  | s => throw s!"unknown handler {s}"

def answer (line : String) : String :=
  match Json.parse line with
  | .error e => (Json.mkObj [("driver_error", Json.str s!"parse: {e}")]).compress
  | .ok j =>
    match dispatch j with
    | .ok r => r.compress
    | .error e => (Json.mkObj [("driver_error", Json.str e)]).compress

partial def loop (hin hout : IO.FS.Stream) : IO Unit := do
  let line ← hin.getLine
  if line.isEmpty then return ()
  let l := line.trimAscii.toString
  if l.isEmpty then
    loop hin hout
  else
    hout.putStrLn (answer l)
    hout.flush
    loop hin hout

end AF.Driver

def main : IO Unit := do
  AF.Driver.loop (← IO.getStdin) (← IO.getStdout)
