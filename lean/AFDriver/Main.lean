import AFDriver.Registry

open Lean (Json)

namespace AF.Driver

def dispatch (j : Json) : Except String Json := do
  let p ← (j.getObjVal? "p") >>= (·.getStr?)
  registry p j

def answer (line : String) : String :=
  match Json.parse line with
  | .error e => (Json.mkObj [("driver_error", Json.str s!"parse: {e}")]).compress
  | .ok j =>
    match dispatch j with
    | .ok r => r.compress
    | .error e => (Json.mkObj [("driver_error", Json.str e)]).compress

partial def loop (hin hout : IO.FS.Stream) : IO Unit := do
  let line ← hin.getLine
  if line.isEmpty then return ()
  let l := line.trimAscii.toString
  if l.isEmpty then
    loop hin hout
  else
    hout.putStrLn (answer l)
    hout.flush
    loop hin hout

end AF.Driver

def main : IO Unit := do
  AF.Driver.loop (← IO.getStdin) (← IO.getStdout)
