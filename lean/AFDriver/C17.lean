import AFDriver.Wire
import AFModel.Msg
import AFModel.MsgGB

/-! Driver for C17: evaluates a *program* over message registers with the `Float` instance of the
`AF.Msg` model. Special functions of scipy arrive as finite tables (`tables`). -/

open Lean (Json)
open AF.Wire AF.Msg

namespace AF.Driver.C17

inductive Val where
  | msg (m : M Float)
  | num (x : Float)
  | pair (a b : Float)
  | bool (b : Bool)
  deriving Inhabited

def famOf : String → Except String Family
  | "normal" => pure .normal | "naturalNormal" => pure .naturalNormal | "gamma" => pure .gamma
  | "beta" => pure .beta | "fixed" => pure .fixed
  | s => throw s!"bad family {s}"

def famName : Family → String
  | .normal => "normal" | .naturalNormal => "naturalNormal" | .gamma => "gamma"
  | .beta => "beta" | .fixed => "fixed"

def trOf (j : Json) : Except String (Tr Float) := do
  match (← getStr j "t") with
  | "phi" => pure .phi
  | "log" => pure .log
  | "log10" => pure .log10
  | "exp" => pure .exp
  | "shift" => pure (.shift (← getFloat j "s") (← getFloat j "c"))
  | s => throw s!"bad transform {s}"

def jsonOfTr : Tr Float → Json
  | .phi => Json.mkObj [("t", "phi")]
  | .log => Json.mkObj [("t", "log")]
  | .log10 => Json.mkObj [("t", "log10")]
  | .exp => Json.mkObj [("t", "exp")]
  | .shift s c => Json.mkObj [("t", "shift"), ("s", hexOfFloat s), ("c", hexOfFloat c)]

def jsonOfBase (b : Base Float) : Json :=
  Json.mkObj [("k", "plain"), ("fam", famName b.fam), ("p1", hexOfFloat b.p1), ("p2", hexOfFloat b.p2),
    ("ln", hexOfFloat b.logNorm), ("id", Json.num (b.id : Lean.JsonNumber)),
    ("lo", hexOfFloat b.lower), ("hi", hexOfFloat b.upper)]

def jsonOfM : M Float → Json
  | .plain b => jsonOfBase b
  | .transformed t => Json.mkObj [("k", "tr"), ("base", jsonOfBase t.base),
      ("trs", Json.arr (t.trs.map jsonOfTr).toArray),
      ("id", match t.id with | some n => Json.num (n : Lean.JsonNumber) | none => Json.null),
      ("lo", hexOfFloat t.lower), ("hi", hexOfFloat t.upper)]

def jsonOfVal : Val → Json
  | .msg m => jsonOfM m
  | .num x => Json.mkObj [("k", "num"), ("v", hexOfFloat x)]
  | .pair a b => Json.mkObj [("k", "pair"), ("a", hexOfFloat a), ("b", hexOfFloat b)]
  | .bool b => Json.mkObj [("k", "bool"), ("v", b)]

def tableOf (j : Json) (k : String) : Except String (List (Float × Float)) :=
  match j.getObjVal? k with
  | .error _ => pure []
  | .ok a => do
    (← a.getArr?).toList.mapM fun e => do
      let pair ← e.getArr?
      if pair.size != 2 then throw "bad table entry"
      pure ((← floatOfJson pair[0]!), (← floatOfJson pair[1]!))

def tablesOf (j : Json) : Except String Tables :=
  match j.getObjVal? "tables" with
  | .error _ => pure {}
  | .ok t => do
    pure { ndtr := (← tableOf t "ndtr"), ndtri := (← tableOf t "ndtri"),
           erfinv := (← tableOf t "erfinv"), normPdf := (← tableOf t "normpdf") }

def table3Of (j : Json) (k : String) : Except String (List (Float × Float × Float)) :=
  match j.getObjVal? k with
  | .error _ => pure []
  | .ok a => do
    (← a.getArr?).toList.mapM fun e => do
      let t ← e.getArr?
      if t.size != 3 then throw "bad table entry"
      pure ((← floatOfJson t[0]!), (← floatOfJson t[1]!), (← floatOfJson t[2]!))

def tables2Of (j : Json) : Except String Tables2 :=
  match j.getObjVal? "tables" with
  | .error _ => pure {}
  | .ok t => do
    pure { lgamma := (← table3Of t "lgamma"), digamma := (← table3Of t "digamma"),
           trigamma := (← table3Of t "trigamma") }

def getMsg (regs : Array Val) (j : Json) (k : String) : Except String (M Float) := do
  let i ← getNat j k
  match regs[i]? with
  | some (.msg m) => pure m
  | _ => throw s!"register {i} is not a message"

def floats (j : Json) (k : String) : Except String (List Float) := do
  (← getArr j k).toList.mapM floatOfJson

def newOf (j : Json) : Except String (Base Float) := do
  let fam ← famOf (← getStr j "fam")
  let p1 ← getFloat j "p1"
  let p2 ← getFloat j "p2"
  let ln ← getFloat j "ln"
  let id ← getNat j "id"
  let lo ← getFloat j "lo"
  let hi ← getFloat j "hi"
  pure { fam := fam, p1 := p1, p2 := p2, logNorm := ln, id := id, lower := lo, upper := hi }

def step (fn : Fn Float) (sp : Sp Float) (regs : Array Val) (j : Json) : Except String Val := do
  let op ← getStr j "op"
  match op with
  | "new" => pure (.msg (.plain (← newOf j)))
  | "tnew" =>
    -- the base is a register, or given inline (`base`: a `new` statement)
    let inner ← match j.getObjVal? "base" with
      | .ok bj => do pure (M.plain (← newOf bj))
      | .error _ => getMsg regs j "b"
    let trs ← (← getArr j "trs").toList.mapM trOf
    let id := (getNat j "id").toOption
    let lo ← getFloat j "lo"
    let hi ← getFloat j "hi"
    -- the constructor flattens a transformed base: its transforms come first
    pure (.msg (inner.wrap trs id lo hi))
  | "mul" => pure (.msg ((← getMsg regs j "a").mul fn (← getMsg regs j "b")))
  | "div" => pure (.msg ((← getMsg regs j "a").div fn (← getMsg regs j "b")))
  | "pow" => pure (.msg ((← getMsg regs j "a").pow fn (← getFloat j "k")))
  | "smul" => pure (.msg ((← getMsg regs j "a").smul fn (← getFloat j "c")))
  | "sdiv" => pure (.msg ((← getMsg regs j "a").sdiv fn (← getFloat j "c")))
  | "copy" => pure (.msg (← getMsg regs j "a"))
  | "base" => pure (.msg (.plain (← getMsg regs j "a").base))
  | "tonat" => pure (.msg (.plain (← getMsg regs j "a").base.toNatural))
  | "fromnat" =>
    let fam ← famOf (← getStr j "fam")
    let e1 ← getFloat j "e1"
    let e2 ← getFloat j "e2"
    let ln ← getFloat j "ln"
    let id ← getNat j "id"
    let lo ← getFloat j "lo"
    let hi ← getFloat j "hi"
    pure (.msg (.plain (fromNatural fn fam (e1, e2) ln id lo hi)))
  | "fromsuff" =>
    let fam ← famOf (← getStr j "fam")
    let m1 ← getFloat j "m1"
    let m2 ← getFloat j "m2"
    let ln ← getFloat j "ln"
    let id ← getNat j "id"
    pure (.msg (.plain (fromSuff fn fam m1 m2 ln id)))
  | "project" =>
    let fam ← famOf (← getStr j "fam")
    let xs ← floats j "xs"
    let lws ← floats j "lws"
    let id ← getNat j "id"
    pure (.msg (.plain (project fn fam xs lws id)))
  | "mproject" =>
    let a ← getMsg regs j "a"
    let xs ← floats j "xs"
    let lws ← floats j "lws"
    let id ← getNat j "id"
    pure (.msg (a.project fn xs lws id))
  | "natural" => let e := (← getMsg regs j "a").natural; pure (.pair e.1 e.2)
  | "valid" => pure (.bool ((← getMsg regs j "a").base.isValid fn))
  | "mean" => pure (.num ((← getMsg regs j "a").mean fn))
  | "variance" => pure (.num ((← getMsg regs j "a").variance fn))
  | "logpdf" => pure (.num ((← getMsg regs j "a").logpdf fn (← getFloat j "x")))
  | "factor" => pure (.num ((← getMsg regs j "a").factor fn (← getFloat j "x")))
  | "cdf" => pure (.num ((← getMsg regs j "a").cdf fn (← getFloat j "x")))
  | "valuefor" => pure (.num ((← getMsg regs j "a").valueFor fn (← getFloat j "x")))
  | "transform" => pure (.num (transformChain fn (← getMsg regs j "a").trs (← getFloat j "x")))
  | "inverse" => pure (.num (inverseChain fn (← getMsg regs j "a").trs (← getFloat j "x")))
  -- Gamma / Beta families and the every-family forms (`AFModel/MsgGB.lean`)
  | "logpdfx" => pure (.num ((← getMsg regs j "a").logpdfX fn sp (← getFloat j "x")))
  | "meanx" => pure (.num ((← getMsg regs j "a").meanX fn sp))
  | "expstats" => let e := (← getMsg regs j "a").base.expectedStats fn sp; pure (.pair e.1 e.2)
  | "canon" =>
    let t := toCanonical fn sp (← getMsg regs j "a").base.fam (← getFloat j "x"); pure (.pair t.1 t.2)
  | "logpartition" =>
    let m ← getMsg regs j "a"
    pure (.num (logPartitionGB fn sp m.base.fam m.natural))
  | "fromsuffx" =>
    let fam ← famOf (← getStr j "fam")
    pure (.msg (.plain (fromSuffX fn sp fam (← getFloat j "m1") (← getFloat j "m2") (← getFloat j "ln") (← getNat j "id"))))
  | "projectx" =>
    let fam ← famOf (← getStr j "fam")
    pure (.msg (.plain (projectX fn sp fam (← floats j "xs") (← floats j "lws") (← getNat j "id"))))
  | "mprojectx" =>
    let a ← getMsg regs j "a"
    pure (.msg (a.projectX fn sp (← floats j "xs") (← floats j "lws") (← getNat j "id")))
  | "mulb" =>
    let b ← getMsg regs j "b"
    pure (.msg (.plain ((← getMsg regs j "a").base.mulB fn b.natural (← getNat j "j"))))
  | "divb" =>
    let b ← getMsg regs j "b"
    pure (.msg (.plain ((← getMsg regs j "a").base.divB fn b.natural b.base.logNorm (← getNat j "j"))))
  | "residual" =>
    let fam ← famOf (← getStr j "fam")
    let r := suffResidual fn sp fam (← getFloat j "m1") (← getFloat j "m2"); pure (.pair r.1 r.2)
  | "invpsilog" => pure (.num (invpsilog fn sp (← getFloat j "x")))
  | "invbeta" => let ab := invBetaSuffstats fn sp (← getFloat j "x") (← getFloat j "y"); pure (.pair ab.1 ab.2)
  | "frommode" =>
    let fam ← famOf (← getStr j "fam")
    pure (.msg (.plain (fromMode fn sp fam (← getFloat j "m") (← getFloat j "v") (← getFloat j "ln") (← getNat j "id")
      (← getFloat j "lo") (← getFloat j "hi"))))
  | s => throw s!"bad op {s}"

end AF.Driver.C17

namespace AF.Driver
open AF.Driver.C17

def handleC17 (j : Json) : Except String Json := do
  let fn := floatFn (← tablesOf j)
  let sp := floatSp (← tables2Of j)
  let prog ← getArr j "prog"
  let mut regs : Array Val := #[]
  for s in prog do
    regs := regs.push (← step fn sp regs s)
  pure (Json.mkObj [("out", Json.arr (regs.map jsonOfVal))])

end AF.Driver
