import Lean.Data.Json
import AFModel.Comp
import AFModel.Gate

/-! Line-protocol codec shared by all property handlers. Floats travel as 16 hex digits. -/

open Lean (Json)

namespace AF.Wire

def hexDigit (c : Char) : Option Nat :=
  if '0' ≤ c ∧ c ≤ '9' then some (c.toNat - '0'.toNat)
  else if 'a' ≤ c ∧ c ≤ 'f' then some (c.toNat - 'a'.toNat + 10)
  else if 'A' ≤ c ∧ c ≤ 'F' then some (c.toNat - 'A'.toNat + 10)
  else none

def parseHex (s : String) : Option Nat :=
  s.toList.foldl (fun acc c => match acc, hexDigit c with
    | some a, some d => some (a * 16 + d)
    | _, _ => none) (some 0)

def floatOfHex (s : String) : Option Float :=
  if s == "nan" then some (0.0 / 0.0)
  else if s.length != 16 then none else (parseHex s).map (fun n => Float.ofBits n.toUInt64)

def hexOfNat (n : Nat) (width : Nat) : String :=
  let rec go (n : Nat) (k : Nat) (acc : List Char) : List Char :=
    match k with
    | 0 => acc
    | k + 1 =>
      let d := n % 16
      let c := if d < 10 then Char.ofNat ('0'.toNat + d) else Char.ofNat ('a'.toNat + d - 10)
      go (n / 16) k (c :: acc)
  String.ofList (go n width [])

def hexOfFloat (x : Float) : String :=
  if x.isNaN then "nan" else hexOfNat x.toBits.toNat 16

def getStr (j : Json) (k : String) : Except String String :=
  (j.getObjVal? k) >>= (·.getStr?)

def getNat (j : Json) (k : String) : Except String Nat :=
  (j.getObjVal? k) >>= (·.getNat?)

def getBool (j : Json) (k : String) : Except String Bool :=
  (j.getObjVal? k) >>= (·.getBool?)

def getArr (j : Json) (k : String) : Except String (Array Json) :=
  (j.getObjVal? k) >>= (·.getArr?)

def getFloat (j : Json) (k : String) : Except String Float := do
  let s ← getStr j k
  match floatOfHex s with
  | some f => pure f
  | none => throw s!"bad float {s}"

def floatOfJson (j : Json) : Except String Float := do
  let s ← j.getStr?
  match floatOfHex s with
  | some f => pure f
  | none => throw s!"bad float {s}"

def binOpOf : String → Except String BinOp
  | "add" => pure .add | "sub" => pure .sub | "mul" => pure .mul | "div" => pure .div
  | "floordiv" => pure .floordiv | "mod" => pure .mod | "pow" => pure .pow
  | s => throw s!"bad binop {s}"

def unOpOf : String → Except String UnOp
  | "neg" => pure .neg | "abs" => pure .abs | "log" => pure .log | "log10" => pure .log10
  | s => throw s!"bad unop {s}"

/-- prior descriptor (kind and parameters) carried beside the tree, keyed by id -/
structure PriorD where
  id : Nat
  kind : String
  lo : Float
  hi : Float
  mean : Float
  sigma : Float
  deriving Inhabited

structure Parsed where
  node : Node Float
  priors : List PriorD := []

partial def parseNodeAux (j : Json) (ps : List PriorD) : Except String (Node Float × List PriorD) := do
  let k ← getStr j "k"
  let parseAttrs (ps : List PriorD) : Except String (List (String × Node Float) × List PriorD) := do
    let arr ← getArr j "attrs"
    let mut out : List (String × Node Float) := []
    let mut ps := ps
    for a in arr do
      let pair ← a.getArr?
      if pair.size != 2 then throw "bad attr"
      let name ← pair[0]!.getStr?
      let (n, ps') ← parseNodeAux pair[1]! ps
      ps := ps'
      out := (name, n) :: out
    pure (out.reverse, ps)
  match k with
  | "prior" =>
      let id ← getNat j "id"
      let d : PriorD := {
        id := id, kind := (← getStr j "kind"),
        lo := (← getFloat j "lo"), hi := (← getFloat j "hi"),
        mean := (getFloat j "mean").toOption.getD 0.0,
        sigma := (getFloat j "sigma").toOption.getD 0.0 }
      pure (.prior id, if ps.any (·.id == id) then ps else d :: ps)
  | "const" => pure (.const (← getFloat j "v"), ps)
  | "opaque" => pure (.opaque ((getStr j "tag").toOption.getD ""), ps)
  | "model" =>
      let cls ← getStr j "cls"
      let ctor ← (← getArr j "ctor").toList.mapM (·.getStr?)
      let (attrs, ps) ← parseAttrs ps
      -- constructor arguments the model does not hold: the class default reaches the instance
      let mut defaults : List (String × Node Float) := []
      match j.getObjVal? "defaults" with
      | .ok (Json.arr arr) =>
          for a in arr do
            let pair ← a.getArr?
            if pair.size != 2 then throw "bad default"
            let (n, _) ← parseNodeAux pair[1]! []
            defaults := defaults ++ [((← pair[0]!.getStr?), n)]
      | _ => pure ()
      pure (.model cls ctor (attrs ++ defaults), ps)
  | "coll" =>
      let (attrs, ps) ← parseAttrs ps
      pure (.coll attrs, ps)
  | "tuple" =>
      let (attrs, ps) ← parseAttrs ps
      pure (.tuple attrs, ps)
  | "arith" =>
      let op ← binOpOf (← getStr j "op")
      let (attrs, ps) ← parseAttrs ps
      let (l, ps) ← parseNodeAux (← j.getObjVal? "l") ps
      let (r, ps) ← parseNodeAux (← j.getObjVal? "r") ps
      pure (.arith op attrs l r, ps)
  | "modif" =>
      let op ← unOpOf (← getStr j "op")
      let (attrs, ps) ← parseAttrs ps
      let (x, ps) ← parseNodeAux (← j.getObjVal? "x") ps
      pure (.modif op attrs x, ps)
  | "array" =>
      let shape ← (← getArr j "shape").toList.mapM (·.getNat?)
      let (attrs, ps) ← parseAttrs ps
      pure (.array shape attrs, ps)
  | s => throw s!"bad node kind {s}"

def parseNode (j : Json) : Except String Parsed := do
  let (n, ps) ← parseNodeAux j []
  pure { node := n, priors := ps.reverse }

/-- assertions attached to every node, in walk order: list of (path, assertion) -/
partial def parseAsrt (j : Json) : Except String (Asrt Float) := do
  let a ← getStr j "a"
  match a with
  | "lt" | "le" =>
      let (l, _) ← parseNodeAux (← j.getObjVal? "l") []
      let (g, _) ← parseNodeAux (← j.getObjVal? "g") []
      pure (.cmp (a == "lt") l g)
  | "and" => pure (.and (← parseAsrt (← j.getObjVal? "x")) (← parseAsrt (← j.getObjVal? "y")))
  | "lit" => pure (.lit (← getBool j "v"))
  | s => throw s!"bad assertion {s}"

def jsonOfPath (p : Path) : Json := Json.arr (p.map Json.str).toArray

partial def jsonOfInst : Inst Float → Json
  | .num v => Json.mkObj [("k", "num"), ("v", hexOfFloat v)]
  | .opaque tag => Json.mkObj [("k", "opaque"), ("tag", tag)]
  | .obj cls attrs => Json.mkObj [("k", "obj"), ("cls", cls),
      ("attrs", Json.arr (attrs.map (fun (k, i) => Json.arr #[Json.str k, jsonOfInst i])).toArray)]
  | .tup ms => Json.mkObj [("k", "tup"), ("items", Json.arr (ms.map (fun (_, i) => jsonOfInst i)).toArray)]
  | .arr shape es => Json.mkObj [("k", "arr"), ("shape", Json.arr (shape.map (fun (n : Nat) => Json.num (n : Lean.JsonNumber))).toArray),
      ("items", Json.arr (es.map jsonOfInst).toArray)]
  | .missing => Json.mkObj [("k", "missing")]
  | .raw => Json.mkObj [("k", "raw")]

def vecOfJson (j : Json) : Except String (List Float) := do
  (← j.getArr?).toList.mapM floatOfJson

def jsonOfVec (v : List Float) : Json := Json.arr (v.map (fun x => Json.str (hexOfFloat x))).toArray

end AF.Wire
