import AFDriver.Wire
import AFModel.Query
import AFModel.QuerySql

/-! Driver for C10: decodes a database + predicate + ordering + slices, runs the `Query` model. -/

open Lean (Json)
open AF AF.Wire AF.Query

namespace AF.Driver

/-- numbers travel and are stored as IEEE-754 bit patterns (decidable equality), compared as doubles; a query
constant also carries python's `str(value)` (what the query objects print into the SQL) -/
structure Lit where
  bits : UInt64
  text : String := ""
  deriving DecidableEq, Inhabited

abbrev F64 := Lit

def c10Ops : NumOps F64 :=
  ⟨fun op a b =>
    let x := Float.ofBits a.bits
    let c := Float.ofBits b.bits
    match op with
    | .eq => x == c | .lt => x < c | .le => x ≤ c | .gt => x > c | .ge => x ≥ c⟩

def c10NumLe (a b : F64) : Bool := Float.ofBits a.bits ≤ Float.ofBits b.bits

def c10Bits (j : Json) (k : String) : Except String F64 := do
  pure { bits := (← getFloat j k).toBits, text := (getStr j "t").toOption.getD "" }

def c10Show (x : F64) : String := x.text

def c10Cmp : String → Except String Cmp
  | "eq" => pure .eq | "lt" => pure .lt | "le" => pure .le | "gt" => pure .gt | "ge" => pure .ge
  | s => throw s!"bad cmp {s}"

partial def c10Obj (j : Json) : Except String (Obj F64) := do
  match ← getStr j "k" with
  | "num" => pure (.num (← c10Bits j "v"))
  | "str" => pure (.str (← getStr j "v"))
  | "none" => pure .nul
  | "node" =>
    let kids ← (← getArr j "kids").toList.mapM fun e => do
      let pair ← e.getArr?
      if pair.size != 2 then throw "bad kid"
      pure ((← pair[0]!.getStr?), (← c10Obj pair[1]!))
    pure (.node (← getStr j "cls") kids)
  | s => throw s!"bad obj kind {s}"

def c10AVal (j : Json) : Except String (AVal F64) := do
  match j with
  | Json.null => pure .null
  | _ =>
    match j.getObjVal? "s" with
    | .ok v => pure (.str (← v.getStr?))
    | .error _ =>
      match j.getObjVal? "b" with
      | .ok v => pure (.bool (← v.getBool?))
      | .error _ => pure (.num (← c10Bits j "n"))

def c10Fit (j : Json) : Except String (Fit F64) := do
  let attrs ← (← getArr j "attrs").toList.mapM fun e => do
    let pair ← e.getArr?
    if pair.size != 2 then throw "bad attr"
    pure ((← pair[0]!.getStr?), (← c10AVal pair[1]!))
  let info ← (← getArr j "info").toList.mapM fun e => do
    let pair ← e.getArr?
    if pair.size != 2 then throw "bad info"
    pure ((← pair[0]!.getStr?), (← pair[1]!.getStr?))
  pure { id := (← getStr j "id"), inst := (← c10Obj (← j.getObjVal? "inst")), attrs := attrs, info := info }

def c10Leaf (j : Json) : Except String (Leaf F64) := do
  let c ← j.getObjVal? "c"
  match ← getStr c "k" with
  | "num" => pure (.num (← c10Cmp (← getStr j "op")) (← c10Bits c "v"))
  | "str" => pure (.str (← c10Cmp (← getStr j "op")) (← getStr c "v"))
  | "none" => pure .nul
  | "cls" => pure (.cls (← getStr c "path"))
  | "any" => pure .any
  | s => throw s!"bad const kind {s}"

partial def c10Pred (j : Json) : Except String (Pred F64) := do
  match ← getStr j "k" with
  | "path" =>
    let names ← (← getArr j "names").toList.mapM (·.getStr?)
    match names with
    | [] => throw "empty path"
    | n :: ns => pure (.path n ns (← c10Leaf j))
  | "attr_eq" =>
    let a ← getStr j "attr"
    match ← c10AVal (← j.getObjVal? "v") with
    | .null => pure (.fitc (.isNull a))
    | .str s => pure (.fitc (.strEq a s))
    | .num x => pure (.fitc (.numEq a x))
    | .bool b => pure (.fitc (.boolEq a b))
  | "contains" => pure (.fitc (.contains (← getStr j "attr") (← getStr j "s")))
  | "in" => pure (.fitc (.isIn (← getStr j "attr") (← getStr j "s")))
  | "bool" => pure (.fitc (.boolAttr (← getStr j "attr")))
  | "info" => pure (.fitc (.info (← getStr j "key") (← getStr j "value")))
  | "and" => pure (.and (← c10Pred (← j.getObjVal? "x")) (← c10Pred (← j.getObjVal? "y")))
  | "or" => pure (.or (← c10Pred (← j.getObjVal? "x")) (← c10Pred (← j.getObjVal? "y")))
  | "not" => pure (.not (← c10Pred (← j.getObjVal? "x")))
  | s => throw s!"bad pred kind {s}"

/-- one row of the real object table: [id, parent_id|null, name, {"k":"num|str|none|inst", …}] -/
def c10Row (j : Json) : Except String (Row F64) := do
  let a ← j.getArr?
  if a.size != 4 then throw "bad row"
  let parent ← match a[1]! with
    | Json.null => pure none
    | pj => do pure (some (← pj.getNat?))
  let pj := a[3]!
  let payload ← match ← getStr pj "k" with
    | "num" => do pure (Payload.num (← c10Bits pj "v"))
    | "str" => do pure (Payload.str (← getStr pj "v"))
    | "none" => pure Payload.nul
    | "inst" => do pure (Payload.inst (← getStr pj "cls"))
    | s => throw s!"bad payload {s}"
  pure { id := (← a[0]!.getNat?), parent := parent, name := (← a[2]!.getStr?), payload := payload }

def c10OptInt (j : Json) : Except String (Option Int) :=
  match j with
  | Json.null => pure none
  | _ => do pure (some (← j.getInt?))

def c10Ids (l : List (Fit F64)) : Json := Json.arr (l.map (fun f => Json.str f.id)).toArray

def handleC10 (j : Json) : Except String Json := do
  let cfgJ := (j.getObjVal? "cfg").toOption.getD (Json.mkObj [])
  let cfg : Cfg := {
    junctionKeepsNot := (getBool cfgJ "junctionKeepsNot").toOption.getD true,
    sliceWindow := (getBool cfgJ "sliceWindow").toOption.getD true }
  let dbJ := (← getArr j "db").toList
  let db ← dbJ.mapM c10Fit
  -- the real tables, when the harness sends them
  let rows ← match j.getObjVal? "rows" with
    | .ok (Json.arr a) => a.toList.mapM c10Row
    | _ => pure []
  let sdb : List (StoredFit F64) ← (dbJ.zip db).mapM fun (fj, f) => do
    pure { fit := f, instanceId := (getNat fj "instance_id").toOption.getD 0 }
  let pred ← match j.getObjVal? "pred" with
    | .ok Json.null => pure none
    | .ok pj => do pure (some (← c10Pred pj))
    | .error _ => pure none
  let keys ← match j.getObjVal? "orders" with
    | .ok (Json.arr a) => a.toList.mapM fun e => do
        pure ({ attr := (← getStr e "attr"), reverse := (getBool e "reverse").toOption.getD false } : OrderKey)
    | _ => pure []
  let slices ← match j.getObjVal? "slices" with
    | .ok (Json.arr a) => a.toList.mapM fun e => do
        let pair ← e.getArr?
        if pair.size != 2 then throw "bad slice"
        pure ((← c10OptInt pair[0]!), (← c10OptInt pair[1]!))
    | _ => pure []
  let sel := match pred with
    | some p => queryFits c10Ops (compileTop cfg p) db
    | none => db
  let direct := match pred with
    | some p => directFits c10Ops p db
    | none => db
  let full := orderBy c10NumLe keys sel
  let w := sliceChain cfg full {} slices
  let last ← match j.getObjVal? "step_slice" with
    | .ok (Json.arr a) => do
        if a.size != 3 then throw "bad step slice"
        match ← c10OptInt a[2]! with
        | some st => pure (some ((← c10OptInt a[0]!), (← c10OptInt a[1]!), st))
        | none => throw "step slice without step"
    | _ => pure none
  let result := runStep c10Ops c10NumLe cfg db pred keys slices last
  let rowsSel := match pred with
    | some p => (rowsQueryFits c10Ops rows (compileTop cfg p) sdb).map (·.fit)
    | none => db
  -- the junctions with their conditions held in a set, and the SQL text printed from them
  let key := sqlStr c10Show
  -- bare-path predicates (`agg.model.g`) in junctions: repaired (not merged) or as the pinned commit (observed)
  let bare := (getBool cfgJ "bareNotMerged").toOption.getD true
  let qS := pred.map (compileSTop cfg bare Q.same key)
  let qT := pred.map (compileSTop cfg bare (fun a b => key a == key b) key)
  let selS := match qS with
    | some q => queryFits c10Ops q db
    | none => db
  pure (Json.mkObj [
    ("match_set", c10Ids selS),
    ("sql", Json.str (match qS with | some q => fitSql c10Show q | none => "SELECT id FROM fit")),
    ("sql_str", Json.str (match qS with | some q => key q | none => "SELECT id FROM fit")),
    ("render_set", Json.str (match qS with | some q => q.render | none => "")),
    -- de-duplication by structure (the theorems) and by SQL string (the code) build the same query
    ("dedup_agree", Json.bool (match qS, qT with
      | some a, some b => a.same b
      | _, _ => true)),
    ("fuel_ok_set", Json.bool (match pred with
      | some p => (compileSTop cfg bare Q.same key p).same (compileS cfg bare Q.same key (p.depth + 9) p)
      | none => true)),
    ("rows_match", c10Ids rowsSel),
    ("stored", Json.arr (sdb.map (fun sf => Json.bool (stored rows sf))).toArray),
    ("match", c10Ids sel),
    ("direct", c10Ids direct),
    ("full", c10Ids full),
    ("result", c10Ids result),
    ("window", Json.arr #[Json.num (w.off : Lean.JsonNumber),
       match w.lim with | none => Json.null | some n => Json.num (n : Lean.JsonNumber)]),
    ("wf", Json.bool (db.all (fun f => f.inst.WF))),
    ("render", Json.str (match pred with | some p => (compileTop cfg p).render | none => "")),
    -- merging depth: more fuel must not change the compiled query
    ("fuel_ok", Json.bool (match pred with
      | some p => (compileTop cfg p).render == (compile cfg (p.depth + 9) p).render
      | none => true))])

end AF.Driver
