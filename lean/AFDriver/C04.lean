import AFDriver.Wire
import AFDriver.C03
import AFModel.FloatOps
import AFModel.Fitness

open Lean (Json)
open AF AF.Wire

namespace AF.Driver

def parseOutcome (j : Json) : Except String (Outcome Float) := do
  let s ← j.getStr?
  match s with
  | "nan" => pure .nan
  | "fit" => pure .raisesFit
  | "other" => pure .raisesOther
  | h => match floatOfHex h with
    | some x => pure (.fin x)
    | none => throw s!"bad outcome {h}"

def jsonOfResult : CallResult Float → Json
  | .value x => Json.str (hexOfFloat x)
  | .raises => Json.str "raises"

def handleC04 (j : Json) : Except String Json := do
  let parsed ← parseNode (← j.getObjVal? "comp")
  let t := parsed.node
  let lims ← parseLims (← j.getObjVal? "lims")
  let asserts ← (← getArr j "asserts").toList.mapM parseAsrt
  let cfgj ← j.getObjVal? "cfg"
  let cfg : FitCfg Float := {
    fomIsLL := (← getBool cfgj "fom_is_ll"), convertChi := (← getBool cfgj "chi"),
    storeHistory := (← getBool cfgj "history"), resample := (← getFloat cfgj "resample") }
  let priors ← (← getArr j "priors").toList.mapM fun p => do
    let kind ← getStr p "kind"
    pure (kind, (getFloat p "mean").toOption.getD 0.0, (getFloat p "sigma").toOption.getD 1.0)
  let lp : List Float → List Float := fun v =>
    (priors.zip v).map (fun ((kind, mean, sigma), x) => logPriorFloat kind mean sigma x)
  let g : List Float → Except GateErr (Inst Float) := fun v => gate floatOps t lims asserts v false
  let calls ← (← getArr j "calls").toList.mapM fun c => do
    let v ← vecOfJson (← c.getObjVal? "v")
    let o ← parseOutcome (← c.getObjVal? "o")
    pure (v, o)
  let pyswarms := (getBool j "pyswarms").toOption.getD false
  if pyswarms then
    let rs := pyswarmsBatch floatFom cfg g lp calls
    pure (Json.mkObj [("results", Json.arr (rs.map jsonOfResult).toArray)])
  else
    let (rs, st) := runCalls floatFom cfg g lp {} calls
    pure (Json.mkObj [("results", Json.arr (rs.map jsonOfResult).toArray),
      ("hist_params", Json.arr (st.params.map jsonOfVec).toArray),
      ("hist_ll", jsonOfVec st.lls)])

end AF.Driver
