import AFDriver.Wire
import AFDriver.C03
import AFModel.FloatOps
import AFModel.Fitness
import AFModel.SearchTable
import AFModel.LogPrior
import AFModel.ResumeCheck
import AFModel.Generated.C04

open Lean (Json)
open AF AF.Wire

namespace AF.Driver

def parseOutcome (j : Json) : Except String (Outcome Float) := do
  let s ← j.getStr?
  match s with
  | "nan" => pure .nan
  | "fit" => pure .raisesFit
  | "other" => pure .raisesOther
  | h => match floatOfHex h with
    | some x => pure (.fin x)
    | none => throw s!"bad outcome {h}"

def jsonOfResult : CallResult Float → Json
  | .value x => Json.str (hexOfFloat x)
  | .raises => Json.str "raises"

def jsonOfRow (r : SearchRow) : Json :=
  Json.mkObj [("name", r.name),
    ("family", match r.family with | .nest => "nest" | .mcmc => "mcmc" | .mle => "mle"),
    ("owner", r.owner),
    ("fitness_class", match r.fitnessClass with | .plain => "plain" | .pyswarms => "pyswarms"),
    ("fom_is_log_likelihood", r.fomIsLL), ("convert_to_chi_squared", r.convertChi),
    ("history", match r.history with | .off => "off" | .on => "on" | .dynamic => "dynamic"),
    ("resample_bits", hexOfNat r.resampleBits.toNat 16), ("passes_paths", r.passesPaths),
    -- what the model derives from the row
    ("minimises", r.minimises), ("posterior", r.posterior),
    ("resample_received", hexOfFloat (rowResample floatFom r)),
    ("designated", rowDesignated floatFom r)]

/-- `kind = "table"`: the compiled table of search classes -/
def handleC04Table : Json :=
  Json.mkObj [("rows", Json.arr ((Generated.C04.searchRows.map jsonOfRow).toArray)),
    ("default", jsonOfRow Generated.C04.defaultRow)]

/-- `prior_table`: what `log_prior_from_value` reads from each prior, keyed by prior id (the order of
the entries is the order of a tree walk, not the parameter order) -/
def parsePriorTable (j : Json) : Except String (List (Nat × PriorD Float)) := do
  (← getArr j "prior_table").toList.mapM fun p => do
    let id ← getNat p "id"
    let kind ← getStr p "kind"
    pure (id, { kind := LpKind.ofString kind, mean := (getFloat p "mean").toOption.getD 0.0,
                sigma := (getFloat p "sigma").toOption.getD 1.0 })

def handleC04 (j : Json) : Except String Json := do
  if (getStr j "kind").toOption == some "table" then return handleC04Table
  if (getStr j "kind").toOption == some "logprior" then
    -- `model.log_prior_list_from_vector(v)` for each vector: the terms, their sum, the ids in parameter order
    let t := (← parseNode (← j.getObjVal? "comp")).node
    let tbl ← parsePriorTable j
    let vs ← (← getArr j "vectors").toList.mapM vecOfJson
    return Json.mkObj [("order", Json.arr ((uniqueIds t).map (fun (n : Nat) => (n : Json))).toArray),
      ("terms", Json.arr (vs.map (fun v => jsonOfVec (logPriorList floatLp tbl t v))).toArray),
      ("sums", jsonOfVec (vs.map (fun v => logPriorSum floatFom floatLp tbl t v)))]
  let parsed ← parseNode (← j.getObjVal? "comp")
  let t := parsed.node
  let lims ← parseLims (← j.getObjVal? "lims")
  let asserts ← (← getArr j "asserts").toList.mapM parseAsrt
  let cfgj ← j.getObjVal? "cfg"
  let cfg : FitCfg Float := {
    fomIsLL := (← getBool cfgj "fom_is_ll"), convertChi := (← getBool cfgj "chi"),
    storeHistory := (← getBool cfgj "history"), resample := (← getFloat cfgj "resample") }
  -- the log-prior terms are computed by the model from the composition tree (parameter order) and the
  -- per-prior descriptions; `priors` (descriptions already in parameter order) is no longer read
  let tbl ← parsePriorTable j
  let lp : List Float → List Float := logPriorList floatLp tbl t
  let g : List Float → Except GateErr (Inst Float) := fun v => gate floatOps t lims asserts v false
  let calls ← (← getArr j "calls").toList.mapM fun c => do
    let v ← vecOfJson (← c.getObjVal? "v")
    let o ← parseOutcome (← c.getObjVal? "o")
    pure (v, o)
  -- `kind = "resume"`: the object is built with `paths` (check_log_likelihood runs), then called
  if (getStr j "kind").toOption == some "resume" then
    let pj ← j.getObjVal? "paths"
    let paths ← if pj.isNull then pure none else do
      let sj ← pj.getObjVal? "stored"
      let stored : Stored Float ← match (← getStr sj "kind") with
        | "none" => pure Stored.noSummary
        | "nosample" => pure Stored.noSample
        | _ => do pure (Stored.sample (← getFloat sj "ll") (← vecOfJson (← sj.getObjVal? "params")))
      let o ← parseOutcome (← pj.getObjVal? "o")
      pure (some ((← getBool pj "test_mode"), (← getBool pj "cfg_on"), stored, o))
    let evaluates := match paths with
      | some (tm, on, st, _) => checkEvaluates tm on st g
      | none => false
    match constructAndRun floatFom floatClose cfg g lp paths calls with
    | .error r =>
      return Json.mkObj [("construct", match r with | .passes => "passes" | .searchException => "searchException" | .escapes => "escapes"),
        ("evaluates", evaluates)]
    | .ok (rs, st) =>
      return Json.mkObj [("construct", "passes"), ("evaluates", evaluates),
        ("results", Json.arr (rs.map jsonOfResult).toArray),
        ("hist_params", Json.arr (st.params.map jsonOfVec).toArray),
        ("hist_ll", jsonOfVec st.lls)]
  -- `search` given: the flags come from the table row of that search class, not from the request
  if let some name := (getStr j "search").toOption then
    match findRow Generated.C04.searchRows name with
    | none => throw s!"no row for search class {name}"
    | some r =>
      let hist := (getBool j "hist").toOption.getD false
      let (rs, st) := rowRun floatFom r hist g lp {} calls
      return Json.mkObj [("results", Json.arr (rs.map jsonOfResult).toArray),
        ("hist_params", Json.arr (st.params.map jsonOfVec).toArray),
        ("hist_ll", jsonOfVec st.lls)]
  let pyswarms := (getBool j "pyswarms").toOption.getD false
  if pyswarms then
    let rs := pyswarmsBatch floatFom cfg g lp calls
    pure (Json.mkObj [("results", Json.arr (rs.map jsonOfResult).toArray)])
  else
    let (rs, st) := runCalls floatFom cfg g lp {} calls
    pure (Json.mkObj [("results", Json.arr (rs.map jsonOfResult).toArray),
      ("hist_params", Json.arr (st.params.map jsonOfVec).toArray),
      ("hist_ll", jsonOfVec st.lls)])

end AF.Driver
