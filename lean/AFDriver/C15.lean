import AFDriver.Wire
import AFModel.FloatOps
import AFModel.Combined
import AFModel.CombinedOps
import AFModel.Generated.C15

open Lean (Json)
open AF AF.Wire AF.Combined

namespace AF.Driver

namespace C15

partial def parseExpr (j : Json) : Except String (Expr Nat) := do
  match j.getObjVal? "leaf" with
  | .ok l => pure (.leaf (← l.getNat?))
  | .error _ =>
    let arr ← getArr j "add"
    if arr.size != 2 then throw "bad add"
    pure (.add (← parseExpr arr[0]!) (← parseExpr arr[1]!))

def parseFreeArg (j : Json) : Except String FreeArg := do
  match j.getObjVal? "prior" with
  | .ok p => pure (.prior (← p.getNat?))
  | .error _ => pure (.part (← (← (← j.getObjVal? "part").getArr?).toList.mapM (·.getStr?)))

/-- `{"leaf": k}` | `{"add": [l, r]}` | `{"free": [args], "of": e}` -/
partial def parseFExpr (j : Json) : Except String (FExpr Nat FreeArg) := do
  match j.getObjVal? "leaf" with
  | .ok l => pure (.leaf (← l.getNat?))
  | .error _ =>
    match j.getObjVal? "free" with
    | .ok fj =>
      let args ← (← fj.getArr?).toList.mapM parseFreeArg
      pure (.free args (← parseFExpr (← j.getObjVal? "of")))
    | .error _ =>
      let arr ← getArr j "add"
      if arr.size != 2 then throw "bad add"
      pure (.add (← parseFExpr arr[0]!) (← parseFExpr arr[1]!))

def parsePath (j : Json) : Except String Path := do
  (← j.getArr?).toList.mapM (·.getStr?)

def parseAnalysis (j : Json) : Except String (Analysis Float) := do
  let own ← match j.getObjVal? "own" with
    | .ok Json.null => pure none
    | .ok o => pure (some (← parseNode o).node)
    | .error _ => pure none
  pure {
    name := (← getNat j "name"), watch := (← parsePath (← j.getObjVal? "watch")),
    w := (← getFloat j "w"), c := (← getFloat j "c"),
    bad := (← vecOfJson (← j.getObjVal? "bad")), own := own }

def parseEv (j : Json) : Except String Ev := do
  let i ← j.getInt?
  if i < 0 then pure .poll else pure (.work i.toNat)

def jsonOfOutcome : Combined.Outcome Float → Json
  | .value v => Json.mkObj [("v", hexOfFloat v)]
  | .raises t => Json.mkObj [("raises", t)]
  | .stuck => Json.str "stuck"

def jsonOfRes : Combined.Res Float → Json
  | .val v => Json.mkObj [("v", hexOfFloat v)]
  | .err t => Json.mkObj [("raises", t)]

def jsonOfNat (n : Nat) : Json := Json.num (n : Lean.JsonNumber)

def floatSum : SumOps Float := {
  add := (· + ·), sub := (· - ·), zero := 0.0,
  absGe := fun a b => a.abs ≥ b.abs,
  usable := fun c => c != 0.0 && c.isFinite }

def floatEq (a b : Float) : Bool := a == b

end C15

namespace C15

def jsonOfRoute : Route → Json
  | .eachChild cp p z => Json.mkObj [("each", Json.arr #[Json.bool cp, Json.bool p, Json.bool z])]
  | .firstChild => Json.str "firstChild"
  | .inherited => Json.str "inherited"
  | .other => Json.str "other"

def jsonOfOptNat : Option Nat → Json
  | some k => jsonOfNat k
  | none => Json.null

/-- request kind `hooks`: for every row of the generated table the calls a serial call of the hook
on a combined analysis of `n` analyses makes (`m` items in the zipped argument) -/
def handleHooks (j : Json) : Except String Json := do
  let n ← getNat j "n"
  let m ← getNat j "m"
  pure (Json.mkObj [("hooks", Json.arr (Generated.hooks.map (fun h => Json.mkObj [
    ("name", Json.str h.name), ("takes_paths", Json.bool h.takesPaths), ("shared", Json.bool h.shared),
    ("output", Json.bool h.isOutput), ("route", jsonOfRoute h.route),
    ("calls", Json.arr ((hookCalls h.route n m).map (fun c =>
      Json.arr #[jsonOfNat c.child, jsonOfOptNat c.folder, jsonOfOptNat c.arg])).toArray)])).toArray)])

end C15

open C15 in
def handleC15 (j : Json) : Except String Json := do
  if (j.getObjValAs? String "kind").toOption == some "hooks" then return (← handleHooks j)
  let cfgj ← j.getObjVal? "cfg"
  let cfg : Cfg := {
    drainOnError := (← getBool cfgj "drain"), mapIndexesAnalyses := (← getBool cfgj "map_idx"),
    newSeesThroughIndex := (← getBool cfgj "new_idx") }
  let table ← (← getArr j "analyses").toList.mapM parseAnalysis
  let t := (← parseNode (← j.getObjVal? "comp")).node
  -- `with_free_parameters` at any position (`fexpr`) or as the outermost operation (`expr` + `free`)
  let fx : Option (FExpr Nat FreeArg) ← match j.getObjVal? "fexpr" with
    | .ok Json.null => pure none
    | .ok fj => pure (some (← parseFExpr fj))
    | .error _ => pure none
  let ocfg : OpsCfg := { freeSurvivesAdd := match cfgj.getObjVal? "free_add" with
    | .ok (Json.bool b) => b
    | _ => true }
  let e ← match fx with
    | some f => pure f.erase
    | none => parseExpr (← j.getObjVal? "expr")
  let shape := [
    ("in_order", Json.bool (inOrder e)),
    ("normal_leaves", Json.arr ((normalize e).leaves.map jsonOfNat).toArray),
    ("leaves", Json.arr (e.leaves.map jsonOfNat).toArray)]
  let built : Except String (BuiltF Nat) ← match fx with
    | some f => pure (buildF ocfg (freeIds t) f)
    | none => match j.getObjVal? "free" with
      | .ok Json.null => pure (.ok { b := build e })
      | .ok fj => do
          let args ← (← fj.getArr?).toList.mapM parseFreeArg
          pure (.ok { b := build e, free := some (freeIds t args) })
      | .error _ => pure (.ok { b := build e })
  let declared : Json := match fx with
    | some f => match declaredFree (freeIds t) f with
      | some F => Json.arr (F.map jsonOfNat).toArray
      | none => Json.null
    | none => Json.null
  match built with
  | .error msg =>
    return Json.mkObj (shape ++ [("build_error", Json.str msg), ("declared", declared),
      ("well_formed", Json.bool ((fx.map (·.wellFormed)).getD true))])
  | .ok bf =>
  let look (k : Nat) : Analysis Float := table.getD k default
  let order := bf.b.toList
  let as := order.map look
  let ownOf (k : Nat) : Bool := (look k).own.isSome
  let inf := info cfg ownOf e
  let (withFree, F) := match bf.free with
    | some F => (true, F)
    | none => (false, [])
  let base ← getNat j "base"
  let mode := modeOf inf.indexed withFree
  let fitted := fittedModel t as mode F base
  let lls := indexedLls floatOps floatEq mode as
  let cores ← getNat j "cores"
  let history ← (← getArr j "history").toList.mapM fun h => do
    let v ← vecOfJson (← h.getObjVal? "v")
    let sched ← (← getArr h "sched").toList.mapM parseEv
    pure (v, sched)
  let insts := history.map (fun h => (instFromVector floatOps fitted h.1, h.2))
  let serialOut := insts.map (fun h => serial floatSum lls h.1)
  let poolOut := evaluate cfg floatSum cores lls insts
  let per := insts.map (fun h => lls.map (· h.1))
  let subs := insts.map (fun h => match mode with
    | .plain => as.map (fun _ => h.1)
    | _ => (List.range as.length).map (fun k => subInstance h.1 k))
  let slices := partition cores order
  let modeStr := match mode with | .plain => "plain" | .own => "own" | .free => "free"
  pure (Json.mkObj (shape ++ [
    ("order", Json.arr (order.map jsonOfNat).toArray),
    ("declared", declared),
    ("well_formed", Json.bool ((fx.map (·.wellFormed)).getD true)),
    ("mode", modeStr),
    ("free_ids", Json.arr (F.map jsonOfNat).toArray),
    ("count", jsonOfNat (count fitted)),
    ("places", Json.arr ((placeRanks fitted).map (fun (p, r) => Json.arr #[jsonOfPath p, jsonOfNat r])).toArray),
    ("partition", Json.arr (slices.map (fun s => Json.arr (s.map jsonOfNat).toArray)).toArray),
    ("serial", Json.arr (serialOut.map jsonOfOutcome).toArray),
    ("pool", Json.arr (poolOut.map jsonOfOutcome).toArray),
    ("per", Json.arr (per.map (fun rs => Json.arr (rs.map jsonOfRes).toArray)).toArray),
    ("subs", Json.arr (subs.map (fun is => Json.arr (is.map jsonOfInst).toArray)).toArray),
    ("folders_serial", Json.arr ((serialFolders order.length).map jsonOfNat).toArray),
    ("folders_map", Json.arr ((mapFolders cfg (slices.map List.length)).map jsonOfNat).toArray)]))

end AF.Driver
