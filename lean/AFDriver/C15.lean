import AFDriver.Wire
import AFModel.FloatOps
import AFModel.Combined

open Lean (Json)
open AF AF.Wire AF.Combined

namespace AF.Driver

namespace C15

partial def parseExpr (j : Json) : Except String (Expr Nat) := do
  match j.getObjVal? "leaf" with
  | .ok l => pure (.leaf (← l.getNat?))
  | .error _ =>
    let arr ← getArr j "add"
    if arr.size != 2 then throw "bad add"
    pure (.add (← parseExpr arr[0]!) (← parseExpr arr[1]!))

def parsePath (j : Json) : Except String Path := do
  (← j.getArr?).toList.mapM (·.getStr?)

def parseAnalysis (j : Json) : Except String (Analysis Float) := do
  let own ← match j.getObjVal? "own" with
    | .ok Json.null => pure none
    | .ok o => pure (some (← parseNode o).node)
    | .error _ => pure none
  pure {
    name := (← getNat j "name"), watch := (← parsePath (← j.getObjVal? "watch")),
    w := (← getFloat j "w"), c := (← getFloat j "c"),
    bad := (← vecOfJson (← j.getObjVal? "bad")), own := own }

def parseFreeArg (j : Json) : Except String FreeArg := do
  match j.getObjVal? "prior" with
  | .ok p => pure (.prior (← p.getNat?))
  | .error _ => pure (.part (← parsePath (← j.getObjVal? "part")))

def parseEv (j : Json) : Except String Ev := do
  let i ← j.getInt?
  if i < 0 then pure .poll else pure (.work i.toNat)

def jsonOfOutcome : Combined.Outcome Float → Json
  | .value v => Json.mkObj [("v", hexOfFloat v)]
  | .raises t => Json.mkObj [("raises", t)]
  | .stuck => Json.str "stuck"

def jsonOfRes : Combined.Res Float → Json
  | .val v => Json.mkObj [("v", hexOfFloat v)]
  | .err t => Json.mkObj [("raises", t)]

def jsonOfNat (n : Nat) : Json := Json.num (n : Lean.JsonNumber)

def floatSum : SumOps Float := {
  add := (· + ·), sub := (· - ·), zero := 0.0,
  absGe := fun a b => a.abs ≥ b.abs,
  usable := fun c => c != 0.0 && c.isFinite }

def floatEq (a b : Float) : Bool := a == b

end C15

open C15 in
def handleC15 (j : Json) : Except String Json := do
  let cfgj ← j.getObjVal? "cfg"
  let cfg : Cfg := {
    drainOnError := (← getBool cfgj "drain"), mapIndexesAnalyses := (← getBool cfgj "map_idx"),
    newSeesThroughIndex := (← getBool cfgj "new_idx") }
  let e ← parseExpr (← j.getObjVal? "expr")
  let table ← (← getArr j "analyses").toList.mapM parseAnalysis
  let t := (← parseNode (← j.getObjVal? "comp")).node
  let look (k : Nat) : Analysis Float := table.getD k default
  let order := flatten e
  let as := order.map look
  let ownOf (k : Nat) : Bool := (look k).own.isSome
  let inf := info cfg ownOf e
  let (withFree, F) ← match j.getObjVal? "free" with
    | .ok Json.null => pure (false, [])
    | .ok fj => do
        let args ← (← fj.getArr?).toList.mapM parseFreeArg
        pure (true, freeIds t args)
    | .error _ => pure (false, [])
  let base ← getNat j "base"
  let mode := modeOf inf.indexed withFree
  let fitted := fittedModel t as mode F base
  let lls := indexedLls floatOps floatEq mode as
  let cores ← getNat j "cores"
  let history ← (← getArr j "history").toList.mapM fun h => do
    let v ← vecOfJson (← h.getObjVal? "v")
    let sched ← (← getArr h "sched").toList.mapM parseEv
    pure (v, sched)
  let insts := history.map (fun h => (instFromVector floatOps fitted h.1, h.2))
  let serialOut := insts.map (fun h => serial floatSum lls h.1)
  let poolOut := evaluate cfg floatSum cores lls insts
  let per := insts.map (fun h => lls.map (· h.1))
  let subs := insts.map (fun h => match mode with
    | .plain => as.map (fun _ => h.1)
    | _ => (List.range as.length).map (fun k => subInstance h.1 k))
  let slices := partition cores order
  let modeStr := match mode with | .plain => "plain" | .own => "own" | .free => "free"
  pure (Json.mkObj [
    ("order", Json.arr (order.map jsonOfNat).toArray),
    ("leaves", Json.arr (e.leaves.map jsonOfNat).toArray),
    ("mode", modeStr),
    ("free_ids", Json.arr (F.map jsonOfNat).toArray),
    ("count", jsonOfNat (count fitted)),
    ("places", Json.arr ((placeRanks fitted).map (fun (p, r) => Json.arr #[jsonOfPath p, jsonOfNat r])).toArray),
    ("partition", Json.arr (slices.map (fun s => Json.arr (s.map jsonOfNat).toArray)).toArray),
    ("serial", Json.arr (serialOut.map jsonOfOutcome).toArray),
    ("pool", Json.arr (poolOut.map jsonOfOutcome).toArray),
    ("per", Json.arr (per.map (fun rs => Json.arr (rs.map jsonOfRes).toArray)).toArray),
    ("subs", Json.arr (subs.map (fun is => Json.arr (is.map jsonOfInst).toArray)).toArray),
    ("folders_serial", Json.arr ((serialFolders order.length).map jsonOfNat).toArray),
    ("folders_map", Json.arr ((mapFolders cfg (slices.map List.length)).map jsonOfNat).toArray)])

end AF.Driver
