import AFDriver.Wire
import AFModel.Interp
import AFModel.InterpCov

/-! Driver for C20: decodes a series of instance trees, runs `AF.Interp.getitem` / `plan`.
Floats arrive as 16 hex digits and are converted to the rational they denote exactly; rationals
leave as numerator/denominator strings (Python turns them into the nearest double). -/

open Lean (Json)
open AF.Wire AF.Interp

namespace AF.Driver

/-- the rational a finite double denotes -/
def ratOfFloatBits (bits : Nat) : Option Rat :=
  let neg := bits / 2 ^ 63 % 2 == 1
  let ex : Nat := (bits / 2 ^ 52) % 2048
  let frac : Nat := bits % 2 ^ 52
  if ex == 2047 then none
  else
    let (m, e) : Nat × Int := if ex == 0 then (frac, -1074) else (frac + 2 ^ 52, (ex : Int) - 1075)
    let mag : Rat := if e ≥ 0 then ((m * 2 ^ e.toNat : Nat) : Rat) else (m : Rat) / ((2 ^ (-e).toNat : Nat) : Rat)
    some (if neg then -mag else mag)

def ratOfJson (j : Json) : Except String Rat := do
  let s ← j.getStr?
  if s.length != 16 then throw s!"bad float {s}"
  match parseHex s with
  | some n => match ratOfFloatBits n with
    | some r => pure r
    | none => throw s!"non-finite float {s}"
  | none => throw s!"bad float {s}"

def jsonOfRat (r : Rat) : Json :=
  Json.mkObj [("k", "num"), ("n", Json.str (toString r.num)), ("d", Json.str (toString r.den))]

partial def parseVal (j : Json) : Except String Val := do
  let k ← getStr j "k"
  let parseAttrs : Except String (List (String × Val)) := do
    (← getArr j "attrs").toList.mapM fun a => do
      let pair ← a.getArr?
      if pair.size != 2 then throw "bad attr"
      pure ((← pair[0]!.getStr?), (← parseVal pair[1]!))
  let parseItems : Except String (List Val) := do
    (← getArr j "items").toList.mapM parseVal
  match k with
  | "num" => pure (.num (← ratOfJson (← j.getObjVal? "v")))
  | "int" => pure (.int (← (← j.getObjVal? "n").getInt?))
  | "opaque" => pure (.opaque ((getStr j "tag").toOption.getD ""))
  | "obj" => pure (.obj (← getStr j "cls") (← parseAttrs))
  | "dict" => pure (.dict (← parseAttrs))
  | "list" => pure (.list (← parseItems))
  | "tup" => pure (.tup (← parseItems))
  | "ilist" => pure (.ilist (← parseItems))
  | s => throw s!"bad value kind {s}"

partial def jsonOfVal : Val → Json
  | .num v => jsonOfRat v
  | .int n => Json.mkObj [("k", "int"), ("n", Json.num (n : Lean.JsonNumber))]
  | .opaque tag => Json.mkObj [("k", "opaque"), ("tag", tag)]
  | .obj cls attrs => Json.mkObj [("k", "obj"), ("cls", cls),
      ("attrs", Json.arr (attrs.map (fun (k, x) => Json.arr #[Json.str k, jsonOfVal x])).toArray)]
  | .dict attrs => Json.mkObj [("k", "dict"),
      ("attrs", Json.arr (attrs.map (fun (k, x) => Json.arr #[Json.str k, jsonOfVal x])).toArray)]
  | .list items => Json.mkObj [("k", "list"), ("items", Json.arr (items.map jsonOfVal).toArray)]
  | .tup items => Json.mkObj [("k", "tup"), ("items", Json.arr (items.map jsonOfVal).toArray)]
  | .ilist items => Json.mkObj [("k", "ilist"), ("items", Json.arr (items.map jsonOfVal).toArray)]

def keyOfJson (j : Json) : Except String Key :=
  match j with
  | Json.str s => pure (.s s)
  | _ => do pure (.i (← j.getNat?))

def jsonOfKey : Key → Json
  | .s n => Json.str n
  | .i n => Json.num (n : Lean.JsonNumber)

def errName : Err → String
  | .path => "path" | .degenerate => "degenerate" | .notNumber => "not-number" | .empty => "empty"

def ratsOfJson (j : Json) : Except String (List Rat) := do
  (← j.getArr?).toList.mapM ratOfJson

def c20MatOfJson (j : Json) : Except String (List (List Rat)) := do
  (← j.getArr?).toList.mapM ratsOfJson

def c20JsonOfRats (l : List Rat) : Json := Json.arr (l.map jsonOfRat).toArray

/-- request kind `cov`: the plumbing of the `CovarianceInterpolator` (`AF.InterpCov.run`) -/
def handleC20Cov (j : Json) : Except String Json := do
  let ss ← (← getArr j "samples").toList.mapM fun s => do
    pure ({ t := (← ratOfJson (← s.getObjVal? "t")),
            params := (← ratsOfJson (← s.getObjVal? "params")),
            cov := (← c20MatOfJson (← s.getObjVal? "cov")),
            logl := (← ratOfJson (← s.getObjVal? "logl")) } : AF.InterpCov.Sample)
  let rels ← (← getArr j "rels").toList.mapM fun e => do
    let pair ← e.getArr?
    if pair.size != 2 then throw "bad relationship"
    pure ((← ratOfJson pair[0]!), (← ratOfJson pair[1]!))
  let k ← getNat j "k"
  let v ← ratOfJson (← j.getObjVal? "v")
  let held ← ratOfJson (← j.getObjVal? "held")
  let cfg : AF.InterpCov.Cfg :=
    { blocksSorted := (getBool j "blocks_sorted").toOption.getD false,
      setsVariable := (getBool j "sets_variable").toOption.getD false }
  let out := AF.InterpCov.run cfg k ss rels v
  pure (Json.mkObj [
    ("x", c20JsonOfRats out.x), ("y", c20JsonOfRats out.y),
    ("cov", Json.arr (out.cov.map c20JsonOfRats).toArray),
    ("single", match out.single with | some i => Json.num (i : Lean.JsonNumber) | none => Json.null),
    ("values", c20JsonOfRats out.values),
    ("variable", jsonOfRat (AF.InterpCov.covVariable cfg held v))])

def handleC20 (j : Json) : Except String Json := do
  if (getStr j "q").toOption.getD "getitem" == "cov" then
    return (← handleC20Cov j)
  let insts ← (← getArr j "insts").toList.mapM parseVal
  let tp ← (← getArr j "tp").toList.mapM keyOfJson
  let q := (getStr j "q").toOption.getD "getitem"
  if q == "plan" then
    match plan insts tp with
    | .error e => pure (Json.mkObj [("err", errName e)])
    | .ok (xs, out) =>
      pure (Json.mkObj [
        ("xs", Json.arr (xs.map jsonOfRat).toArray),
        ("plan", Json.arr (out.map (fun (p, ys) =>
          Json.arr #[Json.arr (p.map jsonOfKey).toArray, Json.arr (ys.map jsonOfRat).toArray])).toArray)])
  else
    let v ← ratOfJson (← j.getObjVal? "v")
    let sets := (getBool j "sets_variable").toOption.getD true
    let cfg : Cfg := { setsVariable := sets }
    let f ← match j.getObjVal? "table" with
      | .ok tj => do
          let table ← (← tj.getArr?).toList.mapM fun e => do
            let pair ← e.getArr?
            if pair.size != 2 then throw "bad table entry"
            pure ((← ratsOfJson pair[0]!), (← ratOfJson pair[1]!))
          pure (tableF table)
      | .error _ => pure lsq
    match getitem cfg f insts tp v with
    | .error e => pure (Json.mkObj [("err", errName e)])
    | .ok r => pure (Json.mkObj [("ok", jsonOfVal r)])

end AF.Driver
