import AFDriver.Wire
import AFModel.EP

/-! Driver for C18: decodes a declarative graph, user priors and a sequence of factor updates, runs
`AF.EP.Decl.init`, `AF.EP.run`, `AF.EP.latest`. Natural parameters arrive as 16-hex-digit doubles
and are converted to the rationals they denote exactly; rationals leave as "num/den" strings. -/

open Lean (Json)
open AF.Wire AF.EP

namespace AF.Driver.EPWire

abbrev Eta := Rat × Rat

/-- the rational a finite double denotes -/
def ratOfBits (bits : Nat) : Option Rat :=
  let neg := bits / 2 ^ 63 % 2 == 1
  let ex : Nat := (bits / 2 ^ 52) % 2048
  let frac : Nat := bits % 2 ^ 52
  if ex == 2047 then none
  else
    let (m, e) : Nat × Int := if ex == 0 then (frac, -1074) else (frac + 2 ^ 52, (ex : Int) - 1075)
    let mag : Rat := if e ≥ 0 then ((m * 2 ^ e.toNat : Nat) : Rat) else (m : Rat) / ((2 ^ (-e).toNat : Nat) : Rat)
    some (if neg then -mag else mag)

def ratOfJson (j : Json) : Except String Rat := do
  let s ← j.getStr?
  if s.length != 16 then throw s!"bad float {s}"
  match parseHex s with
  | some n => match ratOfBits n with
    | some r => pure r
    | none => throw s!"non-finite float {s}"
  | none => throw s!"bad float {s}"

def jsonOfRat (r : Rat) : Json := Json.str s!"{r.num}/{r.den}"

def etaOfJson (j : Json) : Except String Eta := do
  let a ← j.getArr?
  if a.size != 2 then throw "natural parameters must have two components"
  pure ((← ratOfJson a[0]!), (← ratOfJson a[1]!))

def jsonOfEta (e : Eta) : Json := Json.arr #[jsonOfRat e.1, jsonOfRat e.2]

def jsonOfOptEta : Option Eta → Json
  | some e => jsonOfEta e
  | none => Json.null

def natJ (n : Nat) : Json := Json.num (n : Lean.JsonNumber)

/-- `[[v, eta] …]` -/
def fieldOfJson (j : Json) : Except String (List (Nat × Eta)) := do
  (← j.getArr?).toList.mapM fun e => do
    let p ← e.getArr?
    if p.size != 2 then throw "bad field entry"
    pure ((← p[0]!.getNat?), (← etaOfJson p[1]!))

def jsonOfField (vars : List Nat) (m : Nat → Option Eta) : Json :=
  Json.arr (vars.filterMap (fun v => (m v).map (fun e => Json.arr #[natJ v, jsonOfEta e]))).toArray

def jsonOfState (fs vars : List Nat) (s : State Eta) : Json :=
  Json.arr (fs.map (fun f => Json.arr #[natJ f, jsonOfField vars (s.get f)])).toArray

/-- Normal family: proper iff the second natural parameter is negative -/
def validNormal (e : Eta) : Bool := e.2 < 0

def deltaOfJson (fs vars : List Nat) (j : Json) : Except String (State Eta → Delta) := do
  let k ← getStr j "k"
  match k with
  | "scalar" => do
      let d ← ratOfJson (← j.getObjVal? "d")
      pure (fun _ => .scalar d)
  | "pervar" => do
      let ds ← (← getArr j "d").toList.mapM fun e => do
        let p ← e.getArr?
        if p.size != 2 then throw "bad delta entry"
        pure ((← p[0]!.getNat?), (← ratOfJson p[1]!))
      pure (fun _ => .perVar (fun v => ((ds.find? (fun p => p.1 == v)).map (·.2)).getD 1))
  | "dynamic" => do
      let d ← ratOfJson (← j.getObjVal? "d")
      pure (fun s => .perVar (dynamicDelta fs vars s d))
  | s => throw s!"bad delta kind {s}"

def opOfJson (fs vars : List Nat) (j : Json) : Except String (Op Eta) := do
  pure {
    f := (← getNat j "f")
    age := (getNat j "age").toOption.getD 0
    q := (← fieldOfJson (← j.getObjVal? "q"))
    delta := (← deltaOfJson fs vars (← j.getObjVal? "delta"))
    success := (getBool j "success").toOption.getD true
    tag := (getNat j "tag").toOption.getD 0 }

def jsonOfDeltaAt (δ : Delta) (vars : List Nat) : Json :=
  Json.arr (vars.map (fun v => Json.arr #[natJ v, match δ.at v with
    | some d => jsonOfRat d
    | none => Json.null])).toArray

end AF.Driver.EPWire

namespace AF.Driver
open AF.Driver.EPWire

def handleC18 (j : Json) : Except String Json := do
  let q := (getStr j "q").toOption.getD "ep"
  let cfgJ := (j.getObjVal? "cfg").toOption.getD (Json.mkObj [])
  let cfg : Cfg := {
    countPerFactor := (getBool cfgJ "countPerFactor").toOption.getD true
    latestIsLast := (getBool cfgJ "latestIsLast").toOption.getD true }
  if q == "hist" then
    let entries ← (← getArr j "entries").toList.mapM fun e => do
      let p ← e.getArr?
      if p.size != 2 then throw "bad history entry"
      pure ((← p[0]!.getBool?), (← p[1]!.getNat?))
    pure (Json.mkObj [("latest", match latest cfg entries with
      | some t => natJ t
      | none => Json.null)])
  else
    let dj ← j.getObjVal? "decl"
    let places ← (← getArr dj "places").toList.mapM fun ps => do
      (← ps.getArr?).toList.mapM (·.getNat?)
    let d : Decl := { places := places, ipf := (← getBool dj "ipf") }
    let priorList ← fieldOfJson (← j.getObjVal? "priors")
    let prior : Nat → Eta := fun v => (lookup priorList v).getD (0, 0)
    let fs := d.factors
    let vars := d.priors
    let s0 : State Eta := d.init cfg prior
    let ops ← (← getArr j "ops").toList.mapM (opOfJson fs vars)
    let outs := run fs validNormal [] s0 ops
    let final := (outs.getLast?.map (·.state)).getD s0
    let stepsJ := (outs.zip ops).map fun (o, op) =>
      let sc := d.scope op.f
      Json.mkObj [
        ("f", natJ op.f),
        ("cav", jsonOfField sc o.approx.cavity),
        ("old", jsonOfField sc o.approx.old),
        ("model", jsonOfField sc o.approx.model),
        ("new", jsonOfField vars (o.state.get op.f)),
        ("global", jsonOfField vars (globalOpt fs o.state)),
        ("success", o.success), ("bad", o.bad)]
    pure (Json.mkObj [
      ("factors", Json.arr (fs.map (fun f => Json.arr #[natJ f, Json.arr ((d.scope f).map natJ).toArray])).toArray),
      ("counts", Json.arr (vars.map (fun v => Json.arr #[natJ v, natJ (d.count cfg v)])).toArray),
      ("init", jsonOfState fs vars s0),
      ("init_cavity", Json.arr (fs.map (fun f => Json.arr #[natJ f, jsonOfField vars (cavityOpt fs s0 f)])).toArray),
      ("init_model", Json.arr (fs.map (fun f => Json.arr #[natJ f, jsonOfField vars (modelOpt fs s0 f)])).toArray),
      ("init_global", jsonOfField vars (globalOpt fs s0)),
      ("steps", Json.arr stepsJ.toArray),
      ("final", jsonOfState fs vars final),
      ("final_global", jsonOfField vars (globalOpt fs final)),
      ("latest", Json.arr ((latestResults cfg (histOf outs ops) d.nModel).map (fun
        | some t => natJ t
        | none => Json.null)).toArray)])

end AF.Driver
