import AFDriver.Wire
import AFModel.EP
import AFModel.EPPlate

/-! Driver for C18: decodes a declarative graph, user priors and a sequence of factor updates, runs
`AF.EP.Decl.init`, `AF.EP.run`, `AF.EP.latest`. Natural parameters arrive as 16-hex-digit doubles
and are converted to the rationals they denote exactly; rationals leave as "num/den" strings. -/

open Lean (Json)
open AF.Wire AF.EP

namespace AF.Driver.EPWire

abbrev Eta := Rat × Rat

/-- the rational a finite double denotes -/
def ratOfBits (bits : Nat) : Option Rat :=
  let neg := bits / 2 ^ 63 % 2 == 1
  let ex : Nat := (bits / 2 ^ 52) % 2048
  let frac : Nat := bits % 2 ^ 52
  if ex == 2047 then none
  else
    let (m, e) : Nat × Int := if ex == 0 then (frac, -1074) else (frac + 2 ^ 52, (ex : Int) - 1075)
    let mag : Rat := if e ≥ 0 then ((m * 2 ^ e.toNat : Nat) : Rat) else (m : Rat) / ((2 ^ (-e).toNat : Nat) : Rat)
    some (if neg then -mag else mag)

def ratOfJson (j : Json) : Except String Rat := do
  let s ← j.getStr?
  if s.length != 16 then throw s!"bad float {s}"
  match parseHex s with
  | some n => match ratOfBits n with
    | some r => pure r
    | none => throw s!"non-finite float {s}"
  | none => throw s!"bad float {s}"

def jsonOfRat (r : Rat) : Json := Json.str s!"{r.num}/{r.den}"

def etaOfJson (j : Json) : Except String Eta := do
  let a ← j.getArr?
  if a.size != 2 then throw "natural parameters must have two components"
  pure ((← ratOfJson a[0]!), (← ratOfJson a[1]!))

def jsonOfEta (e : Eta) : Json := Json.arr #[jsonOfRat e.1, jsonOfRat e.2]

def jsonOfOptEta : Option Eta → Json
  | some e => jsonOfEta e
  | none => Json.null

def natJ (n : Nat) : Json := Json.num (n : Lean.JsonNumber)

/-- `[[v, eta] …]` -/
def fieldOfJson (j : Json) : Except String (List (Nat × Eta)) := do
  (← j.getArr?).toList.mapM fun e => do
    let p ← e.getArr?
    if p.size != 2 then throw "bad field entry"
    pure ((← p[0]!.getNat?), (← etaOfJson p[1]!))

def jsonOfField (vars : List Nat) (m : Nat → Option Eta) : Json :=
  Json.arr (vars.filterMap (fun v => (m v).map (fun e => Json.arr #[natJ v, jsonOfEta e]))).toArray

def jsonOfState (fs vars : List Nat) (s : State Eta) : Json :=
  Json.arr (fs.map (fun f => Json.arr #[natJ f, jsonOfField vars (s.get f)])).toArray

/-- Normal family: proper iff the second natural parameter is negative -/
def validNormal (e : Eta) : Bool := e.2 < 0

def deltaOfJson (fs vars : List Nat) (j : Json) : Except String (State Eta → Delta) := do
  let k ← getStr j "k"
  match k with
  | "scalar" => do
      let d ← ratOfJson (← j.getObjVal? "d")
      pure (fun _ => .scalar d)
  | "pervar" => do
      let ds ← (← getArr j "d").toList.mapM fun e => do
        let p ← e.getArr?
        if p.size != 2 then throw "bad delta entry"
        pure ((← p[0]!.getNat?), (← ratOfJson p[1]!))
      pure (fun _ => .perVar (fun v => ((ds.find? (fun p => p.1 == v)).map (·.2)).getD 1))
  | "dynamic" => do
      let d ← ratOfJson (← j.getObjVal? "d")
      pure (fun s => .perVar (dynamicDelta fs vars s d))
  | s => throw s!"bad delta kind {s}"

def opOfJson (fs vars : List Nat) (j : Json) : Except String (Op Eta) := do
  pure {
    f := (← getNat j "f")
    age := (getNat j "age").toOption.getD 0
    q := (← fieldOfJson (← j.getObjVal? "q"))
    delta := (← deltaOfJson fs vars (← j.getObjVal? "delta"))
    success := (getBool j "success").toOption.getD true
    tag := (getNat j "tag").toOption.getD 0 }

def jsonOfDeltaAt (δ : Delta) (vars : List Nat) : Json :=
  Json.arr (vars.map (fun v => Json.arr #[natJ v, match δ.at v with
    | some d => jsonOfRat d
    | none => Json.null])).toArray

/-! ### array-valued messages, plates, batches (`q = "plate"`) -/

abbrev ArrE := Nat → Eta

/-- an array held in memory as a function -/
@[noinline] def ofArr (es : Array Eta) : ArrE := fun i => es.getD i (0, 0)

/-- `[[h, h], …]`: one pair of natural parameters per element -/
def arrOfJson (j : Json) : Except String ArrE := do
  let es ← (← j.getArr?).mapM etaOfJson
  pure (ofArr es)

def jsonOfArr (n : Nat) (a : ArrE) : Json := Json.arr ((List.range n).map (fun i => jsonOfEta (a i))).toArray

def afieldOfJson (j : Json) : Except String (Field ArrE) := do
  (← j.getArr?).toList.mapM fun e => do
    let p ← e.getArr?
    if p.size != 2 then throw "bad field entry"
    pure ((← p[0]!.getNat?), (← arrOfJson p[1]!))

def astateOfJson (j : Json) : Except String (State ArrE) := do
  (← j.getArr?).toList.mapM fun e => do
    let p ← e.getArr?
    if p.size != 2 then throw "bad state entry"
    pure ((← p[0]!.getNat?), (← afieldOfJson p[1]!))

/-- evaluate the first `size v` entries of every message once (the model's arrays are functions; the
strict `let` makes the evaluation happen here and not at every later read) -/
def freezeField (size : Nat → Nat) (q : Field ArrE) : Field ArrE :=
  q.map (fun p =>
    let es := ((List.range (size p.1)).map p.2).toArray
    (p.1, ofArr es))

/-- the current mean field of every factor, evaluated (shadowed entries dropped) -/
def freezeState (size : Nat → Nat) (fs : List Nat) (s : State ArrE) : State ArrE :=
  fs.map (fun f => (f, freezeField size (s.field f)))

def jsonOfAField (size : Nat → Nat) (vars : List Nat) (m : Nat → Option ArrE) : Json :=
  Json.arr (vars.filterMap (fun v => (m v).map (fun a => Json.arr #[natJ v, jsonOfArr (size v) a]))).toArray

def jsonOfAState (size : Nat → Nat) (fs vars : List Nat) (s : State ArrE) : Json :=
  Json.arr (fs.map (fun f => Json.arr #[natJ f, jsonOfAField size vars (s.get f)])).toArray

def natPairs (j : Json) : Except String (List (Nat × List Nat)) := do
  (← j.getArr?).toList.mapM fun e => do
    let p ← e.getArr?
    if p.size != 2 then throw "bad pair"
    pure ((← p[0]!.getNat?), (← (← p[1]!.getArr?).toList.mapM (·.getNat?)))

structure PStep where
  f : Nat
  q : Field ArrE
  d : Rat
  success : Bool

def pstepOfJson (j : Json) : Except String PStep := do
  pure { f := (← getNat j "f"), q := (← afieldOfJson (← j.getObjVal? "q")),
         d := (← ratOfJson (← j.getObjVal? "d")), success := (getBool j "success").toOption.getD true }

def jsonOfStep (size : Nat → Nat) (fs vars : List Nat) (a : Approx ArrE) (s' : State ArrE) (f : Nat)
    (success bad : Bool) : Json :=
  Json.mkObj [
    ("f", natJ f),
    ("cav", jsonOfAField size vars a.cavity),
    ("old", jsonOfAField size vars a.old),
    ("model", jsonOfAField size vars a.model),
    ("new", jsonOfAField size vars (s'.get f)),
    ("global", jsonOfAField size vars (globalOpt fs s')),
    ("success", success), ("bad", bad)]

/-- `q = "plate"`: a graph given by scopes over plate variables, a state of array-valued messages,
whole-array projections and batches (subset → projections → merge) -/
def handlePlate (j : Json) : Except String Json := do
  let psz ← natPairs (← j.getObjVal? "plates") -- [[p, [size]]]
  let dimsL ← natPairs (← j.getObjVal? "vars") -- [[v, [p…]]]
  let scopes ← natPairs (← j.getObjVal? "factors") -- [[f, [v…]]]
  let P : Plates := {
    dims := fun v => (lookup dimsL v).getD []
    psize := fun p => ((lookup psz p).getD [1]).headD 1 }
  let fs := scopes.map (·.1)
  let vars := dimsL.map (·.1)
  let scope : Nat → List Nat := fun f => (lookup scopes f).getD []
  let s0 ← astateOfJson (← j.getObjVal? "state")
  let opsJ ← getArr j "ops"
  let mut cur : State ArrE := freezeState P.size fs s0
  let mut outs : Array Json := #[]
  for oj in opsJ do
    let k ← getStr oj "k"
    if k == "proj" then
      let st ← pstepOfJson oj
      let a := approx fs cur st.f
      let δ : Delta := .scalar st.d
      let ok := allValidArr validNormal P.size a st.q δ
      let nxt := freezeState P.size fs (projectArr validNormal cur a st.q δ)
      outs := outs.push (jsonOfStep P.size fs vars a nxt st.f (st.success && ok) (!ok))
      cur := nxt
    else
      let ix ← natPairs (← oj.getObjVal? "index")
      let ssize : Nat → Nat := subLen P ix
      let scale : Nat → Nat → Rat := fun f => rescaleOf P ix (scope f)
      let sub0 := freezeState ssize fs (subsetState P ix cur)
      let mut sub := sub0
      let mut stepsJ : Array Json := #[]
      for sj in (← getArr oj "steps") do
        let st ← pstepOfJson sj
        let a := subApprox fs sub (scale st.f) st.f
        let ok := subAllValidArr validNormal ssize sub (scale st.f) a st.q st.d
        let nxt := freezeState ssize fs (subProjectArr validNormal sub (scale st.f) a st.q st.d)
        stepsJ := stepsJ.push (jsonOfStep ssize fs vars a nxt st.f (st.success && ok) (!ok))
        sub := nxt
      let merged := freezeState P.size fs (mergeState P ix fs cur sub)
      outs := outs.push (Json.mkObj [
        ("sub", jsonOfAState ssize fs vars sub0),
        ("rescale", Json.arr (fs.map (fun f => Json.arr #[natJ f,
          Json.arr ((scope f).map (fun v => Json.arr #[natJ v, jsonOfRat (scale f v)])).toArray])).toArray),
        ("steps", Json.arr stepsJ),
        ("merged", jsonOfAState P.size fs vars merged),
        ("merged_global", jsonOfAField P.size vars (globalOpt fs merged))])
      cur := merged
  pure (Json.mkObj [
    ("init_global", jsonOfAField P.size vars (globalOpt fs (freezeState P.size fs s0))),
    ("ops", Json.arr outs),
    ("final", jsonOfAState P.size fs vars cur)])

/-- `q = "lognorm"`: the `log_norm` of every factor's stored mean field after a sequence of updates
and `log_evidence` from given variable evidences -/
def handleLogNorm (j : Json) : Except String Json := do
  let scopes ← natPairs (← j.getObjVal? "factors")
  let fs := scopes.map (·.1)
  let scope : Nat → List Nat := fun f => (lookup scopes f).getD []
  let ups ← (← getArr j "updates").toList.mapM fun e => do
    let p ← e.getArr?
    if p.size != 2 then throw "bad update"
    pure ((← p[0]!.getNat?), (← ratOfJson p[1]!))
  let zs ← (← getArr j "z").toList.mapM fun e => do
    let p ← e.getArr?
    if p.size != 2 then throw "bad evidence"
    pure ((← p[0]!.getNat?), (← ratOfJson p[1]!))
  let ln := logNormsAfter fs ups
  let lnf : Nat → Rat := fun f => (lookup ln f).getD 0
  let z : Nat → Rat := fun v => (lookup zs v).getD 0
  pure (Json.mkObj [
    ("log_norms", Json.arr (ln.map (fun p => Json.arr #[natJ p.1, jsonOfRat p.2])).toArray),
    ("log_evidence", jsonOfRat (logEvidence fs scope (zs.map (·.1)) lnf z))])

end AF.Driver.EPWire

namespace AF.Driver
open AF.Driver.EPWire

def handleC18 (j : Json) : Except String Json := do
  let q := (getStr j "q").toOption.getD "ep"
  let cfgJ := (j.getObjVal? "cfg").toOption.getD (Json.mkObj [])
  let cfg : Cfg := {
    countPerFactor := (getBool cfgJ "countPerFactor").toOption.getD true
    latestIsLast := (getBool cfgJ "latestIsLast").toOption.getD true }
  if q == "plate" then handlePlate j
  else if q == "lognorm" then handleLogNorm j
  else if q == "hist" then
    let entries ← (← getArr j "entries").toList.mapM fun e => do
      let p ← e.getArr?
      if p.size != 2 then throw "bad history entry"
      pure ((← p[0]!.getBool?), (← p[1]!.getNat?))
    pure (Json.mkObj [("latest", match latest cfg entries with
      | some t => natJ t
      | none => Json.null)])
  else
    let dj ← j.getObjVal? "decl"
    let places ← (← getArr dj "places").toList.mapM fun ps => do
      (← ps.getArr?).toList.mapM (·.getNat?)
    let d : Decl := { places := places, ipf := (← getBool dj "ipf") }
    let priorList ← fieldOfJson (← j.getObjVal? "priors")
    let prior : Nat → Eta := fun v => (lookup priorList v).getD (0, 0)
    let fs := d.factors
    let vars := d.priors
    let s0 : State Eta := d.init cfg prior
    let ops ← (← getArr j "ops").toList.mapM (opOfJson fs vars)
    let outs := run fs validNormal [] s0 ops
    let final := (outs.getLast?.map (·.state)).getD s0
    let stepsJ := (outs.zip ops).map fun (o, op) =>
      let sc := d.scope op.f
      Json.mkObj [
        ("f", natJ op.f),
        ("cav", jsonOfField sc o.approx.cavity),
        ("old", jsonOfField sc o.approx.old),
        ("model", jsonOfField sc o.approx.model),
        ("new", jsonOfField vars (o.state.get op.f)),
        ("global", jsonOfField vars (globalOpt fs o.state)),
        ("success", o.success), ("bad", o.bad)]
    pure (Json.mkObj [
      ("factors", Json.arr (fs.map (fun f => Json.arr #[natJ f, Json.arr ((d.scope f).map natJ).toArray])).toArray),
      ("counts", Json.arr (vars.map (fun v => Json.arr #[natJ v, natJ (d.count cfg v)])).toArray),
      ("init", jsonOfState fs vars s0),
      ("init_cavity", Json.arr (fs.map (fun f => Json.arr #[natJ f, jsonOfField vars (cavityOpt fs s0 f)])).toArray),
      ("init_model", Json.arr (fs.map (fun f => Json.arr #[natJ f, jsonOfField vars (modelOpt fs s0 f)])).toArray),
      ("init_global", jsonOfField vars (globalOpt fs s0)),
      ("steps", Json.arr stepsJ.toArray),
      ("final", jsonOfState fs vars final),
      ("final_global", jsonOfField vars (globalOpt fs final)),
      ("latest", Json.arr ((latestResults cfg (histOf outs ops) d.nModel).map (fun
        | some t => natJ t
        | none => Json.null)).toArray)])

end AF.Driver
