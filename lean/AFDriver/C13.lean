import Lean.Data.Json
import AFDriver.Wire
import AFModel.FloatOps
import AFModel.Freeze
import AFModel.FreezeTree
import AFModel.RecCache

open Lean (Json)
open AF AF.Wire

namespace AF.Driver

def natListMap (j : Json) : Except String (Nat → List Nat) := do
  let obj ← j.getObj?
  let pairs ← obj.toList.mapM fun (k, v) => do
    let n ← match k.toNat? with
      | some n => pure n
      | none => throw s!"bad node key {k}"
    let l ← (← v.getArr?).toList.mapM (·.getNat?)
    pure (n, l)
  pure (fun n => ((pairs.find? (·.1 == n)).map (·.2)).getD [])

def parseFOp (j : Json) : Except String FOp := do
  let a ← j.getArr?
  if a.size != 2 && a.size != 3 then throw "bad op"
  let k ← a[0]!.getStr?
  let n ← a[1]!.getNat?
  let q ← if a.size == 3 then a[2]!.getNat? else pure 0
  match k with
  | "query" => pure (.query n q)
  | "freeze" => pure (.freeze n)
  | "unfreeze" => pure (.unfreeze n)
  | "modify" => pure (.modify n)
  | "failing" => pure (.failing n)
  | s => throw s!"bad op {s}"

def jsonOfFOut : FOut → Json
  | .answered q v => Json.mkObj [("answered", Json.num ((v : Nat) : Lean.JsonNumber)),
                                ("key", Json.num ((q : Nat) : Lean.JsonNumber))]
  | .rejected => Json.str "rejected"
  | .done => Json.str "done"

/-! ### tree refinement (`AFModel/FreezeTree.lean`): request `{"mode": "tree", "roots": [comp…], "ops": […]}` -/

def parsePath (j : Json) : Except String Path := do
  (← j.getArr?).toList.mapM (·.getStr?)

def parseTQuery (kind : String) (vec : List Float) : Except String (TQuery Float) :=
  match kind with
  | "count" => pure .count
  | "paths" => pure .paths
  | "pathIds" => pure .pathIds
  | "uniquePaths" => pure .uniquePaths
  | "ids" => pure .ids
  | "inst" => pure (.inst vec)
  | s => throw s!"bad query {s}"

def jsonOfNats (l : List Nat) : Json := Json.arr (l.map (fun (n : Nat) => Json.num (n : Lean.JsonNumber))).toArray

def jsonOfTAns : TAns Float → Json
  | .nat n => Json.num (n : Lean.JsonNumber)
  | .pathsA l => Json.arr (l.map jsonOfPath).toArray
  | .natsA l => jsonOfNats l
  | .instA i => jsonOfInst i
  | .wrongLength => Json.str "wrong-length"

def jsonOfTOut : TOut Float → Json
  | .answered a => Json.mkObj [("answered", jsonOfTAns a)]
  | .rejected => Json.str "rejected"
  | .done => Json.str "done"
  | .invalid => Json.str "invalid"

/-- one wire op = one or (for a battery of questions) several model steps -/
def parseSOps (j : Json) : Except String (List (SOp Float)) := do
  let a ← j.getArr?
  if a.size < 3 then throw "bad tree op"
  let k ← a[0]!.getStr?
  let r ← a[1]!.getNat?
  let p ← parsePath a[2]!
  match k with
  | "query" =>
    let kinds ← (← a[3]!.getArr?).toList.mapM (·.getStr?)
    let vec ← if a.size > 4 then vecOfJson a[4]! else pure []
    kinds.mapM fun kd => do pure (SOp.on r (.query p (← parseTQuery kd vec)))
  | "freeze" => pure [.on r (.freeze p)]
  | "unfreeze" => pure [.on r (.unfreeze p)]
  | "set" => pure [.on r (.setAttr p (← a[3]!.getStr?) (← parseNode a[4]!).node)]
  | "remove" => pure [.on r (.remove p (← a[3]!.getStr?))]
  | "failing" => pure [.on r (.failing p)]
  | "copy" => pure [.copy r p]
  | s => throw s!"bad tree op {s}"

/-- the wire op's addressed object: (is a copy, model number, path) -/
def parseTarget (j : Json) : Except String (Bool × Nat × Path) := do
  let a ← j.getArr?
  if a.size < 3 then throw "bad tree op"
  pure ((← a[0]!.getStr?) == "copy", (← a[1]!.getNat?), (← parsePath a[2]!))

def handleC13Tree (j : Json) : Except String Json := do
  let roots ← (← (j.getObjVal? "roots") >>= (·.getArr?)).toList.mapM fun c => do pure (← parseNode c).node
  let wj := (← (j.getObjVal? "ops") >>= (·.getArr?)).toList
  let wops ← wj.mapM parseSOps
  let tgts ← wj.mapM parseTarget
  let rec go (S : Store Float) (wops : List (List (SOp Float) × (Bool × Nat × Path))) (outs safe flags : List Json) :
      List Json × List Json × List Json :=
    match wops with
    | [] => (outs.reverse, safe.reverse, flags.reverse)
    | (steps, (isCopy, r, p)) :: rest =>
      let sf := steps.all (sopSafe S)
      let res := srun floatOps S steps
      -- `_is_frozen` of the addressed object after the op (of the new model after a copy)
      let fl := if isCopy then (res.1.roots.getLast?.map (fun s => s.frozen [])).getD false
                else (res.1.roots[r]?.map (fun s => s.frozen p)).getD false
      go res.1 rest (Json.arr (res.2.map jsonOfTOut).toArray :: outs) (Json.bool sf :: safe) (Json.bool fl :: flags)
  let (outs, safe, flags) := go ⟨roots.map TState.init⟩ (wops.zip tgts) [] [] []
  pure (Json.mkObj [("outs", Json.arr outs.toArray), ("safe", Json.arr safe.toArray), ("frozen", Json.arr flags.toArray)])

/-! ### recursion cache (`AFModel/RecCache.lean`): request `{"mode": "reccache", "calls": [call…]}` -/

partial def parseRCall (j : Json) : Except String RCall := do
  let id ← getNat j "id"
  let raises ← getBool j "raises"
  let ch ← (← getArr j "children").toList.mapM parseRCall
  pure (.node id raises ch)

def handleC13Rec (j : Json) : Except String Json := do
  let calls ← (← getArr j "calls").toList.mapM parseRCall
  let r := rcalls ⟨[], []⟩ calls
  let outs := r.2.map fun o => match o with
    | .ok => Json.str "ok" | .raised => Json.str "raised" | .promise => Json.str "promise"
  pure (Json.mkObj [("outs", Json.arr outs.toArray), ("cache", jsonOfNats r.1.cache), ("trace", jsonOfNats r.1.trace)])

def handleC13 (j : Json) : Except String Json := do
  if (j.getObjVal? "mode").toOption == some (Json.str "reccache") then return (← handleC13Rec j)
  if (j.getObjVal? "mode").toOption == some (Json.str "tree") then return (← handleC13Tree j)
  let T : Topo := { sub := (← natListMap (← j.getObjVal? "sub")), anc := (← natListMap (← j.getObjVal? "anc")) }
  let frozen0 ← match j.getObjVal? "init_frozen" with
    | .ok v => (← v.getArr?).toList.mapM (·.getNat?)
    | .error _ => pure []
  let ops ← (← (j.getObjVal? "ops") >>= (·.getArr?)).toList.mapM parseFOp
  let s0 : FState := { FState.init with frozen := fun k => frozen0.contains k }
  -- run step by step, recording for each unfreeze whether it is covered by the theorem
  let rec go (s : FState) (ops : List FOp) (outs : List Json) (safe : List Json) : List Json × List Json :=
    match ops with
    | [] => (outs.reverse, safe.reverse)
    | op :: rest =>
      let sf := match op with
        | .unfreeze n => Json.bool (unfreezeSafe T s n)
        | _ => Json.bool true
      let (s', o) := fstep T s op
      go s' rest (jsonOfFOut o :: outs) (sf :: safe)
  let (outs, safe) := go s0 ops [] []
  pure (Json.mkObj [("outs", Json.arr outs.toArray), ("safe", Json.arr safe.toArray)])

end AF.Driver
