import Lean.Data.Json
import AFModel.Freeze

open Lean (Json)
open AF

namespace AF.Driver

def natListMap (j : Json) : Except String (Nat → List Nat) := do
  let obj ← j.getObj?
  let pairs ← obj.toList.mapM fun (k, v) => do
    let n ← match k.toNat? with
      | some n => pure n
      | none => throw s!"bad node key {k}"
    let l ← (← v.getArr?).toList.mapM (·.getNat?)
    pure (n, l)
  pure (fun n => ((pairs.find? (·.1 == n)).map (·.2)).getD [])

def parseFOp (j : Json) : Except String FOp := do
  let a ← j.getArr?
  if a.size != 2 && a.size != 3 then throw "bad op"
  let k ← a[0]!.getStr?
  let n ← a[1]!.getNat?
  let q ← if a.size == 3 then a[2]!.getNat? else pure 0
  match k with
  | "query" => pure (.query n q)
  | "freeze" => pure (.freeze n)
  | "unfreeze" => pure (.unfreeze n)
  | "modify" => pure (.modify n)
  | "failing" => pure (.failing n)
  | s => throw s!"bad op {s}"

def jsonOfFOut : FOut → Json
  | .answered q v => Json.mkObj [("answered", Json.num ((v : Nat) : Lean.JsonNumber)),
                                ("key", Json.num ((q : Nat) : Lean.JsonNumber))]
  | .rejected => Json.str "rejected"
  | .done => Json.str "done"

def handleC13 (j : Json) : Except String Json := do
  let T : Topo := { sub := (← natListMap (← j.getObjVal? "sub")), anc := (← natListMap (← j.getObjVal? "anc")) }
  let frozen0 ← match j.getObjVal? "init_frozen" with
    | .ok v => (← v.getArr?).toList.mapM (·.getNat?)
    | .error _ => pure []
  let ops ← (← (j.getObjVal? "ops") >>= (·.getArr?)).toList.mapM parseFOp
  let s0 : FState := { FState.init with frozen := fun k => frozen0.contains k }
  -- run step by step, recording for each unfreeze whether it is covered by the theorem
  let rec go (s : FState) (ops : List FOp) (outs : List Json) (safe : List Json) : List Json × List Json :=
    match ops with
    | [] => (outs.reverse, safe.reverse)
    | op :: rest =>
      let sf := match op with
        | .unfreeze n => Json.bool (unfreezeSafe T s n)
        | _ => Json.bool true
      let (s', o) := fstep T s op
      go s' rest (jsonOfFOut o :: outs) (sf :: safe)
  let (outs, safe) := go s0 ops [] []
  pure (Json.mkObj [("outs", Json.arr outs.toArray), ("safe", Json.arr safe.toArray)])

end AF.Driver
