import AFDriver.Wire
import AFModel.Scrape
import AFDriver.C11Ext

/-! Driver for C11: decodes an abstract output tree / a list of runs, executes
`AF.Scrape.scrape`, `layout`, `direct` (value type `Float`, order `<`), encodes rows.

queries (`"q"`):
* `scrape`  : `cfg`, `completed_only`, `slots`, optional `db` (rows already in the database)
              → `rows`, `top` (ids `Aggregator.fits` yields), `grids` (id, children, best)
* `layout`  : `runs` → `slots`
* `direct`  : `runs` → `rows`, `top`, `grids` -/

open Lean (Json)
open AF.Wire AF.Scrape

namespace AF.Driver.C11

def ltF (a b : Float) : Bool := a < b

def negInf : Float := -(1.0 / 0.0)

def optStr (j : Json) (k : String) : Except String (Option String) :=
  match j.getObjVal? k with
  | .ok Json.null => pure none
  | .ok v => do pure (some (← v.getStr?))
  | .error _ => pure none

def strList (j : Json) : Except String (List String) := do
  (← j.getArr?).toList.mapM (·.getStr?)

def optStrList (j : Json) (k : String) : Except String (Option (List String)) :=
  match j.getObjVal? k with
  | .ok Json.null => pure none
  | .ok v => do pure (some (← strList v))
  | .error _ => pure none

def pairs (j : Json) : Except String (List (String × String)) := do
  (← j.getArr?).toList.mapM fun a => do
    let p ← a.getArr?
    if p.size != 2 then throw "bad pair"
    pure ((← p[0]!.getStr?), (← p[1]!.getStr?))

def pairsAt (j : Json) (k : String) : Except String (List (String × String)) :=
  match j.getObjVal? k with
  | .ok Json.null => pure []
  | .ok v => pairs v
  | .error _ => pure []

def optPairs (j : Json) (k : String) : Except String (Option (List (String × String))) :=
  match j.getObjVal? k with
  | .ok Json.null => pure none
  | .ok v => do pure (some (← pairs v))
  | .error _ => pure none

def boolAt (j : Json) (k : String) (dflt : Bool) : Bool :=
  match j.getObjVal? k with
  | .ok (Json.bool b) => b
  | _ => dflt

def parseSample (j : Json) : Except String (Sample Float) := do
  let a ← j.getArr?
  if a.size != 5 then throw "bad sample"
  pure { ll := (← floatOfJson a[0]!), lp := (← floatOfJson a[1]!), post := (← floatOfJson a[2]!),
         w := (← floatOfJson a[3]!), params := (← vecOfJson a[4]!) }

def parseSamples (j : Json) (k : String) : Except String (Option (SamplesJ Float)) :=
  match j.getObjVal? k with
  | .ok Json.null => pure none
  | .ok v => do
      let rows ← (← getArr v "rows").toList.mapM parseSample
      pure (some { cls := (← getStr v "cls"), rows := rows })
  | .error _ => pure none

def parseAnalyses (j : Json) (k : String) : Except String (List (List (String × String))) :=
  match j.getObjVal? k with
  | .ok (Json.arr a) => a.toList.mapM pairs
  | _ => pure []

def parseContent (j : Json) : Except String (Content Float) := do
  let search ← match j.getObjVal? "search" with
    | .ok Json.null => pure none
    | .ok v => do
        pure (some ({ name := (← getStr v "name"), tag := (← optStr v "tag"),
                      tokens := (← strList (← v.getObjVal? "tokens")) } : SearchJ))
    | .error _ => pure none
  let model ← match j.getObjVal? "model" with
    | .ok Json.null => pure none
    | .ok v => do
        pure (some ({ tokens := (← strList (← v.getObjVal? "tokens")), shape := (← getStr v "shape") } : ModelJ))
    | .error _ => pure none
  pure { metadata := boolAt j "metadata" false
         completed := boolAt j "completed" false
         ident := (← optStrList j "ident")
         parent := (← optStr j "parent")
         grid := (← optStr j "grid")
         search := search
         model := model
         info := (← optPairs j "info")
         samples := (← parseSamples j "samples")
         files := (← pairsAt j "files")
         analyses := (← parseAnalyses j "analyses") }

def optContent (j : Json) (k : String) : Except String (Option (Content Float)) :=
  match j.getObjVal? k with
  | .ok Json.null => pure none
  | .ok v => do pure (some (← parseContent v))
  | .error _ => pure none

def parseSlot (j : Json) : Except String (Slot Float) := do
  pure { path := (← strList (← j.getObjVal? "path")), folder := (← optContent j "folder"),
         zip := (← optContent j "zip") }

def parseKind : String → Except String Kind
  | "both" => pure .both
  | "zip" => pure .zipOnly
  | "folder" => pure .folderOnly
  | s => throw s!"bad kind {s}"

def parseFitRun (j : Json) : Except String (FitRun Float) := do
  pure { pre := (← strList (← j.getObjVal? "pre"))
         name := (← strList (← j.getObjVal? "name"))
         nameStr := (← getStr j "name_str")
         tag := (← optStr j "tag")
         searchTok := (← strList (← j.getObjVal? "search_tok"))
         modelTok := (← strList (← j.getObjVal? "model_tok"))
         shape := (← getStr j "shape")
         info := (← optPairs j "info")
         samples := (← parseSamples j "samples")
         completed := boolAt j "completed" true
         files := (← pairsAt j "files")
         analyses := (← parseAnalyses j "analyses")
         kind := (← parseKind (← getStr j "kind"))
         saveAll := boolAt j "save_all" false }

def parseRun (j : Json) : Except String (Run Float) := do
  match (← getStr j "k") with
  | "single" => pure (.single (← parseFitRun (← j.getObjVal? "fit")))
  | "grid" =>
      let cells ← (← getArr j "cells").toList.mapM fun c => do
        let p ← c.getArr?
        if p.size != 2 then throw "bad cell"
        pure ((← p[0]!.getStr?), (← parseFitRun p[1]!))
      pure (.grid { pre := (← strList (← j.getObjVal? "pre"))
                    name := (← strList (← j.getObjVal? "name"))
                    nameStr := (← getStr j "name_str")
                    tag := (← optStr j "tag")
                    identTok := (← strList (← j.getObjVal? "ident"))
                    completed := boolAt j "completed" true
                    files := (← pairsAt j "files")
                    cells := cells })
  | s => throw s!"bad run kind {s}"

def jOptStr : Option String → Json
  | none => Json.null
  | some s => Json.str s

def jStrs (l : List String) : Json := Json.arr (l.map Json.str).toArray

def jPairs (l : List (String × String)) : Json :=
  Json.arr (l.map fun p => Json.arr #[Json.str p.1, Json.str p.2]).toArray

def jSample (s : Sample Float) : Json :=
  Json.arr #[Json.str (hexOfFloat s.ll), Json.str (hexOfFloat s.lp), Json.str (hexOfFloat s.post),
    Json.str (hexOfFloat s.w), jsonOfVec s.params]

def jSamples : Option (SamplesJ Float) → Json
  | none => Json.null
  | some sj => Json.mkObj [("cls", Json.str sj.cls), ("rows", Json.arr (sj.rows.map jSample).toArray)]

def jContent (c : Content Float) : Json :=
  Json.mkObj [
    ("metadata", Json.bool c.metadata), ("completed", Json.bool c.completed),
    ("ident", match c.ident with | none => Json.null | some l => jStrs l),
    ("parent", jOptStr c.parent), ("grid", jOptStr c.grid),
    ("search", match c.search with
      | none => Json.null
      | some s => Json.mkObj [("name", Json.str s.name), ("tag", jOptStr s.tag), ("tokens", jStrs s.tokens)]),
    ("model", match c.model with
      | none => Json.null
      | some m => Json.mkObj [("tokens", jStrs m.tokens), ("shape", Json.str m.shape)]),
    ("info", match c.info with | none => Json.null | some l => jPairs l),
    ("samples", jSamples c.samples),
    ("files", jPairs c.files),
    ("analyses", Json.arr (c.analyses.map jPairs).toArray)]

def jSlot (s : Slot Float) : Json :=
  Json.mkObj [("path", jStrs s.path),
    ("folder", match s.folder with | none => Json.null | some c => jContent c),
    ("zip", match s.zip with | none => Json.null | some c => jContent c)]

def jRow (r : Row Float) : Json :=
  Json.mkObj [
    ("id", Json.str r.id), ("name", jOptStr r.name), ("tag", jOptStr r.tag),
    ("complete", Json.bool r.complete), ("grid", Json.bool r.isGrid), ("parent", jOptStr r.parent),
    ("model", jOptStr r.model), ("info", jPairs r.info), ("samples", jSamples r.samples),
    ("max_ll", match r.maxLL with | none => Json.null | some v => Json.str (hexOfFloat v)),
    ("inst", match r.inst with | none => Json.null | some v => jsonOfVec v),
    ("files", jPairs r.files),
    ("analyses", Json.arr (r.analyses.map jPairs).toArray)]

def parseRow (j : Json) : Except String (Row Float) := do
  pure { id := (← getStr j "id"), name := (← optStr j "name"), tag := (← optStr j "tag")
         complete := boolAt j "complete" false, isGrid := boolAt j "grid" false
         parent := (← optStr j "parent"), model := (← optStr j "model")
         info := (← pairsAt j "info"), samples := (← parseSamples j "samples")
         maxLL := (match j.getObjVal? "max_ll" with
           | .ok (Json.str s) => floatOfHex s
           | _ => none)
         inst := (match j.getObjVal? "inst" with
           | .ok (Json.arr a) => (vecOfJson (Json.arr a)).toOption
           | _ => none)
         files := (← pairsAt j "files"), analyses := (← parseAnalyses j "analyses") }

/-- what a user reads back from the rows: top-level fits, and per grid search its children and
best fit (`"error"` when a child has no likelihood: `Fit.best_fit` raises) -/
def jView (db : List (Row Float)) : List (String × Json) :=
  let grids := db.filter (·.isGrid)
  [("rows", Json.arr (db.map jRow).toArray),
   ("top", jStrs ((topLevel db).map (·.id))),
   ("grids", Json.arr (grids.map fun g =>
      let kids := childrenOf db g.id
      let best : Json :=
        if kids.isEmpty then Json.str "error"
        else if kids.any (·.maxLL.isNone) then Json.str "error"
        else jOptStr (bestChild ltF negInf (kids.filterMap fun k => k.maxLL.map fun v => (k.id, v)))
      Json.mkObj [("id", Json.str g.id), ("children", jStrs (kids.map (·.id))), ("best", best)]).toArray)]

def handle (j : Json) : Except String Json := do
  match (← getStr j "q") with
  | "scrape" =>
      let cfgJ := (j.getObjVal? "cfg").toOption.getD Json.null
      let cfg : Cfg := { gridIdFolder := boolAt cfgJ "gridIdFolder" true }
      let slots ← (← getArr j "slots").toList.mapM parseSlot
      let db ← match j.getObjVal? "db" with
        | .ok (Json.arr a) => a.toList.mapM parseRow
        | _ => pure []
      let rows := scrape ltF cfg (boolAt j "completed_only" false) slots db
      pure (Json.mkObj (jView rows))
  | "layout" =>
      let runs ← (← getArr j "runs").toList.mapM parseRun
      pure (Json.mkObj [("slots", Json.arr ((layout runs).map jSlot).toArray)])
  | "direct" =>
      let runs ← (← getArr j "runs").toList.mapM parseRun
      pure (Json.mkObj (jView (direct ltF runs)))
  | _ => AF.Driver.C11Ext.handle j

end AF.Driver.C11

namespace AF.Driver

def handleC11 (j : Json) : Except String Json := AF.Driver.C11.handle j

end AF.Driver
