import Lean.Data.Json
import AFModel.ParEval
import AFModel.ParFair
import AFModel.ParLife

/-! Driver for C14: runs the pool state machines of `AFModel/ParEval.lean` on a schedule.

requests
* `{"p":"C14","q":"map","P":n,"fuel":n,"batches":[{"js":[["ok",v]|["err",t]…],"sched":[actor…]}…]}`
  successive `map` calls on one pool → per batch: finished, yielded, raised, leftover, per-worker log,
  and what the pinned commit would have yielded (`legacy_*`, arrival order)
* `{"p":"C14","q":"run_jobs","P":workers,"fuel":n,"js":[…],"sched":[±actor…],"count_twice":b,"poll_empty":b}`
  (a negative schedule entry `-a` = actor `a` with a stale `empty()` answer)
* `{"p":"C14","q":"fair","P":n,"js":[…],"sched":[actor…]}` one `map` call on a fresh pool along exactly the given
  schedule (no continuation) → finished, number of complete fair rounds of the schedule, the round bound of
  `map_terminates_under_every_fair_schedule`, the variant before and after
* `{"p":"C14","q":"life","P":n,"fuel":n,"batches":[…as map…],"del_sched":[actor…],"rounds":n}` a whole pool
  session: start, `map` calls, then `__del__` along exactly `del_sched` → per process alive / StopCommands /
  results / jobs queued, StopCommands sent, `down`; and the same after `rounds` further fair rounds
* `run_jobs` answers also carry the shutdown state: stop tokens on the shared queue and live workers when the
  run ends, and after two further fair rounds -/

open Lean (Json)
open AF.ParEval

namespace AF.Driver

private def natJ (n : Nat) : Json := Json.num (n : Lean.JsonNumber)

private def resOfJson (j : Json) : Except String (Res Nat) := do
  let a ← j.getArr?
  if a.size != 2 then throw "bad outcome"
  let tag ← a[0]!.getStr?
  let v ← a[1]!.getNat?
  match tag with
  | "ok" => pure (.ok v)
  | "err" => pure (.err v)
  | s => throw s!"bad outcome tag {s}"

private def jsonOfRes : Res Nat → Json
  | .ok v => Json.arr #[Json.str "ok", natJ v]
  | .err t => Json.arr #[Json.str "err", natJ t]

private def optNatJ : Option Nat → Json
  | some n => natJ n
  | none => Json.null

private def listOf (j : Json) (k : String) : Except String (List Json) := do
  pure (← (← j.getObjVal? k).getArr?).toList

private def jsonOfMapSt (s : MapSt Nat) : Json :=
  Json.mkObj [
    ("finished", Json.bool s.finished),
    ("yielded", Json.arr (s.output.yielded.map natJ).toArray),
    ("raised", optNatJ s.output.raised),
    ("leftover", natJ (leftover s.ws)),
    ("work_left", natJ s.mu),
    ("count", natJ s.count),
    ("performed", Json.arr (s.ws.map (fun w => Json.arr (w.performed.map natJ).toArray)).toArray),
    ("eval_order", Json.arr (s.evalOrder.map natJ).toArray),
    ("arrivals", Json.arr (s.arrivals.map jsonOfRes).toArray),
    ("legacy_yielded", Json.arr (s.legacyOutput.yielded.map natJ).toArray),
    ("legacy_raised", optNatJ s.legacyOutput.raised)]

private def evOfInt (i : Int) : Ev :=
  if i < 0 then { actor := i.natAbs, stale := true } else { actor := i.toNat }

private def jsonOfDel (s : DelSt Nat) : Json :=
  Json.mkObj [
    ("workers", Json.arr (s.ws.map (fun l => Json.mkObj [
      ("alive", Json.bool l.alive), ("stops", natJ l.stops),
      ("results", natJ (l.w.resQ.length + l.w.hold.toList.length)), ("jobs", natJ l.w.jobQ.length)])).toArray),
    ("sent", natJ s.sent), ("alive", natJ s.aliveCount), ("queued", natJ s.queued),
    ("results", natJ s.results), ("down", Json.bool s.down)]

def handleC14 (j : Json) : Except String Json := do
  let q ← (← j.getObjVal? "q").getStr?
  let P ← (← j.getObjVal? "P").getNat?
  let fuel := ((j.getObjVal? "fuel") >>= (·.getNat?)).toOption.getD 200
  match q with
  | "map" =>
    let bs ← (← listOf j "batches").mapM fun b => do
      let js ← (← listOf b "js").mapM resOfJson
      let sched ← (← listOf b "sched").mapM (·.getNat?)
      pure (js, sched)
    let states := runBatches fuel (newPool P) bs
    pure (Json.mkObj [("batches", Json.arr (states.map jsonOfMapSt).toArray)])
  | "run_jobs" =>
    let js ← (← listOf j "js").mapM resOfJson
    let sched ← (← listOf j "sched").mapM (·.getInt?)
    let cfg : Cfg := {
      countTwice := ((j.getObjVal? "count_twice") >>= (·.getBool?)).toOption.getD false,
      pollEmpty := ((j.getObjVal? "poll_empty") >>= (·.getBool?)).toOption.getD false }
    let s := runJobs cfg P js (sched.map evOfInt) fuel
    pure (Json.mkObj [
      ("done", Json.bool s.done),
      ("yielded", Json.arr (s.yielded.map jsonOfRes).toArray),
      ("raised", Json.bool s.raised),
      ("performed", Json.arr (s.performed.map natJ).toArray),
      ("queued", natJ (jobsOf s.jobQ).length),
      ("in_flight", natJ (rpipes s.ws).length),
      ("work_left", natJ s.mu),
      ("count", natJ s.count),
      ("stop_tokens", natJ (stopTokens s.jobQ)),
      ("live_workers", natJ (liveWorkers s.ws)),
      ("stop_tokens_after", natJ (stopTokens (s.run (rrEvents P ++ rrEvents P)).jobQ)),
      ("live_workers_after", natJ (liveWorkers (s.run (rrEvents P ++ rrEvents P)).ws)),
      ("queue_after", natJ (s.run (rrEvents P ++ rrEvents P)).jobQ.length)])
  | "life" =>
    let bs ← (← listOf j "batches").mapM fun b => do
      let js ← (← listOf b "js").mapM resOfJson
      let sched ← (← listOf b "sched").mapM (·.getNat?)
      pure (js, sched)
    let dels ← (← listOf j "del_sched").mapM (·.getNat?)
    let rounds := ((j.getObjVal? "rounds") >>= (·.getNat?)).toOption.getD 0
    let s := poolSession P fuel bs dels
    pure (Json.mkObj [
      ("at_end_of_schedule", jsonOfDel s),
      ("fair_rounds", natJ (fairRounds P dels)),
      ("after_rounds", jsonOfDel (s.rounds rounds))])
  | "fair" =>
    let js ← (← listOf j "js").mapM resOfJson
    let sched ← (← listOf j "sched").mapM (·.getNat?)
    let s := mapExact (newPool P) js sched
    pure (Json.mkObj [
      ("finished", Json.bool s.finished),
      ("fair_rounds", natJ (fairRounds P sched)),
      ("bound", natJ (mapRoundBound P js.length)),
      ("phi_start", natJ (initMap (newPool P) js).phi),
      ("phi_end", natJ s.phi),
      ("yielded", Json.arr (s.output.yielded.map natJ).toArray),
      ("raised", optNatJ s.output.raised),
      ("leftover", natJ (leftover s.ws))])
  | s => throw s!"C14: unknown query {s}"

end AF.Driver
