import AFDriver.Main
