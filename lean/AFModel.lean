import AFModel.Comp
import AFModel.FloatOps
