#!/bin/bash
# tools/sweep.sh "<seeds>" [tier] [props...] : run checks for several seeds in parallel, print exit codes and alarms
cd "$(dirname "$0")/.."
SEEDS=${1:-"0 1 2"}; TIER=${2:-quick}; shift 2 2>/dev/null
PROPS=${@:-$(python3 -c "import json;print(' '.join(c['property_id'] for c in json.load(open('MANIFEST.json'))['checks']))")}
(cd lean && lake build >/dev/null 2>&1)
mkdir -p /tmp/sweep
for s in $SEEDS; do for p in $PROPS; do echo "$s $p"; done; done | xargs -P ${SWEEP_P:-6} -L1 bash -c '
  s=$0; p=$1; start=$(date +%s)
  VERIF_SEED=$s ./check $p --tier '$TIER' > /tmp/sweep/$p.$s.log 2>&1; rc=$?
  echo "$p seed=$s rc=$rc $(( $(date +%s)-start ))s $(grep -c KNOWN-FINDING /tmp/sweep/$p.$s.log) known $(grep VIOLATION /tmp/sweep/$p.$s.log | head -2 | tr "\n" " ")"'
