#!/usr/bin/env python3
"""Regenerate MANIFEST.json from harness/props.py (single source of truth for claims)."""
import json, sys
from pathlib import Path
ROOT = Path(__file__).resolve().parent.parent
class props:
    CLAIMED = {p.stem: json.loads(p.read_text()) for p in sorted((ROOT / "harness" / "claims").glob("C*.json"))}
    NOT_APPLICABLE = json.loads((ROOT / "harness" / "not_applicable.json").read_text()) if (ROOT / "harness" / "not_applicable.json").exists() else {}

all_ids = [json.loads(l)["id"] for l in (ROOT / "properties.jsonl").read_text().splitlines() if l.strip()]
checks = []
for pid in all_ids:
    p = props.CLAIMED.get(pid)
    if not p:
        continue
    checks.append({
        "property_id": pid,
        "quick_cmd": f"./check {pid} --tier quick",
        "thorough_cmd": f"./check {pid} --tier thorough",
        "evidence_file": f"evidence/{pid}.json",
        "replay_cmd_template": f"./check {pid} --replay {{path}}",
        "engine": "lean4+correspondence",
        "level_claimed": {"category": p.get("category", "proof"), "text": p["text"], "design_ref": p.get("design_ref", f"DESIGN.md §4 {pid}")},
        "level_note": p["note"],
        "technique": p.get("technique", "Lean 4 theorems about a hand-written executable model + differential correspondence check of the model against the implementation"),
    })
na = [{"property_id": pid, "reason": props.NOT_APPLICABLE.get(pid, "check not built yet in this round (no model/theorem committed); not claimed")}
      for pid in all_ids if pid not in props.CLAIMED]
m = {
    "version": 1,
    "setup_cmd": "cd lean && lake build AFModel AFDriver AFProofs",
    "hooks": {
        "guard": "PYAUTOFIT_VERIF",
        "enable": "checks export PYAUTOFIT_VERIF=1; no guarded source hooks exist (scheduling, fault injection and tracing are done from the harness with fakes and audit hooks)",
        "baseline_off_cmd": "python3 tools/baseline.py",
        "source_commits": [],
        "add_only": True,
    },
    "engines": [{
        "name": "lean4+correspondence",
        "path": "lean/ + harness/",
        "serves_properties": [c["property_id"] for c in checks],
        "kind_free_text": "Lean 4.33 theorems (lake build, #print axioms audit) about hand-written executable models; models tied to /repo's working tree on every run by a differential correspondence harness (line protocol to `lake env lean --run AFDriver/Main.lean`) and regenerated tables",
    }],
    "checks": checks,
    "notes": "See DESIGN.md. Exit 0 = proofs check, model and implementation agree on everything generated, property oracle holds; KNOWN-FINDING lines for listed defects (known_findings.json).",
    "not_applicable": na,
}
(ROOT / "MANIFEST.json").write_text(json.dumps(m, indent=1) + "\n")
print(f"claimed={len(checks)} not_claimed={len(na)}")
