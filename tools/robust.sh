#!/bin/bash
# tools/robust.sh "<rng seeds>" : for every kept seeded change (seeded/*/patch.diff, plus /tmp/seed3 if present) run the
# property's check (--no-proof) on a per-property clone with each given RNG seed; print the (change, rng seed) pairs NOT caught.
SEEDS=${1:-"7 8"}
mkdir -p /work/rb
cd /verif
for P in C01 C02 C03 C04 C05 C06 C07 C08 C09 C10 C11 C12 C13 C14 C15 C16 C17 C18 C19 C20; do
 (
  C=/work/rb/$P
  [ -d $C ] || git clone -q /repo $C
  git -C $C checkout -q -- . ; git -C $C fetch -q /repo HEAD; git -C $C reset -q --hard FETCH_HEAD
  for d in /verif/seeded/$P-m*/; do
    [ -f $d/patch.diff ] || continue
    git -C $C apply --whitespace=nowarn $d/patch.diff 2>/dev/null || { echo "NOAPPLY $d"; continue; }
    for s in $SEEDS; do
      out=$(VERIF_REPO=$C VERIF_SEED=$s VERIF_DEV_EVIDENCE=/tmp/rb-ev-$P timeout 1500 ./check $P --no-proof 2>&1); rc=$?
      n=$(echo "$out" | grep -c "^VIOLATION")
      [ $n -eq 0 ] && echo "MISS $d seed=$s rc=$rc"
    done
    git -C $C checkout -q -- .
  done
  echo "DONE $P"
 ) &
done
wait
