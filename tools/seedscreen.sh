#!/bin/bash
# tools/seedscreen.sh <seed root, e.g. /tmp/seed2> Cxx [Cyy ...] : screen seeded changes in parallel, one clone per property
# (demo with/without the change, pinned baseline with the change, the property's check on a clone with the change)
ROOT=$1; shift
mkdir -p /work/sc
for P in "$@"; do
  ( for d in $ROOT/$P-out/m*/; do
      [ -f $d/patch.diff ] || continue
      python3 /verif/tools/seedcheck.py $d --clone /work/sc/$P --seeds "0 1" > $d/screen.json 2> $d/screen.err
      python3 - "$d" <<'PY'
import json, sys
d = sys.argv[1]
t = open(d + "/screen.json").read()
try:
    r = json.loads(t[t.index("{"):])
    print(d, {k: r.get(k) for k in ("confirmed", "caught", "applies", "demo_with_change", "demo_clean", "baseline_passes")},
          {k: (v["exit"], v.get("classifier")) for k, v in r.get("check", {}).items()}, flush=True)
except Exception as e:
    print(d, "PARSE-ERROR", t[-300:], flush=True)
PY
    done ) &
done
wait
