#!/bin/bash
# tools/seedeval.sh Cxx [extra seedcheck args] : evaluate /tmp/seed/Cxx-out/m* and keep confirmed ones
P=$1; shift
for d in /tmp/seed/$P-out/m*/; do m=$(basename $d); echo "=== $P $m"; python3 /verif/tools/seedcheck.py $d --keep-as $P-$m "$@" 2>&1 | python3 -c "
import sys,json
t=sys.stdin.read()
try:
    i=t.index('{'); d=json.loads(t[i:]); print({k:d[k] for k in ('confirmed','caught','applies','demo_with_change','demo_clean','baseline_passes') if k in d}); print({k:(v['exit'],v.get('classifier')) for k,v in d.get('check',{}).items()})
except Exception as e: print('PARSE-ERROR', t[-500:])"; done
