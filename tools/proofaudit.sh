#!/bin/bash
# tools/proofaudit.sh : the proof part (P) of every check, without the harness runs: build, source audit, #print axioms
cd "$(dirname "$0")/.."
export PYTHONPATH=${VERIF_REPO:-/repo}:/verif/harness
/venv/bin/python - <<'PY'
import os, sys
sys.path.insert(0, "/verif/harness")
os.chdir("/verif")
import run
bad = 0
for k in range(1, 21):
    p = f"C{k:02d}"
    r = run.proof_check(p, "quick")
    ok = r.get("ok")
    bad += 0 if ok else 1
    print(p, "ok" if ok else "FAILED", r.get("obligations"), r.get("discharged"), (r.get("why") or "")[:160])
sys.exit(1 if bad else 0)
PY
