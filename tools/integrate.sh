#!/bin/bash
# tools/integrate.sh Cxx : copy a builder agent's deliverables from /work/Cxx/verif into /verif
set -e
P=$1; p=$(echo $P | tr 'A-Z' 'a-z'); W=/work/$P/verif
cd /verif
for f in $(cd $W && git status --short | grep '^??' | awk '{print $2}'); do
  case "$f" in
    evidence/*|tools/agent_prompt.txt|replays/*) ;;
    */) mkdir -p "$f"; cp -r $W/$f. "$f" ;;
    *) mkdir -p "$(dirname $f)"; cp $W/$f $f ;;
  esac
done
echo "copied:"; git status --short | grep -v "^ M" | head -40
echo "modified tracked files in agent copy (not copied):"; (cd $W && git status --short | grep '^ M')
[ -f /work/$P/shared-changes.patch ] && echo "SHARED CHANGES PATCH EXISTS: /work/$P/shared-changes.patch"
ls $W/fixes 2>/dev/null
