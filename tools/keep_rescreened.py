#!/usr/bin/env python3
"""tools/keep_rescreened.py <seed dir> <id> : keep a seeded change whose confirmation (demo with / without in a scratch
worktree) and check run were done on a per-property clone of /repo at HEAD (tools/seedcheck.py --clone), when the
sequential runs on /repo itself did not fit into the session. meta.json says so."""
import json, shutil, sys
from pathlib import Path
V = Path(__file__).resolve().parent.parent
d, sid = Path(sys.argv[1]), sys.argv[2]
t = (d / "rescreen.json").read_text()
r = json.loads(t[t.index("{"):])
if not (r.get("confirmed") and r.get("applies")):
    print(sid, "not confirmed:", {k: r.get(k) for k in ("applies", "demo_with_change", "demo_clean")}); sys.exit(1)
meta = json.loads((d / "meta.json").read_text())
first = None
try:
    t0 = (d / "screen.json").read_text(); first = json.loads(t0[t0.index("{"):])
except Exception:
    pass
dest = V / "seeded" / sid
dest.mkdir(parents=True, exist_ok=True)
shutil.copy(d / "patch.diff", dest / "patch.diff"); shutil.copy(d / "demo.py", dest / "demo.py")
meta["verification"] = {
    "ran": ["git apply in scratch worktree", f"demo.py with change -> exit {r.get('demo_with_change')}", f"demo.py clean -> exit {r.get('demo_clean')}",
            "tools/baseline.py with change -> " + str((first or {}).get("baseline_output", "green in the first screening run")),
            f"./check {meta['property']} --tier quick --no-proof (seed 0) with the patch applied to a clone of /repo at HEAD (VERIF_REPO); "
            "not re-run on /repo itself for lack of time"],
    "check_result": r.get("check", {}), "caught_by_check": bool(r.get("caught")), "applied_to": r.get("applied_to"),
    "first_screening_before_strengthening": (first or {}).get("check"),
}
(dest / "meta.json").write_text(json.dumps(meta, indent=1))
print(sid, "kept; caught:", r.get("caught"))
