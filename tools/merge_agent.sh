#!/bin/bash
# tools/merge_agent.sh <clone dir of /verif> : merge a builder agent's commits into /verif (generated files and evidence are
# taken from the agent and regenerated afterwards; known_findings.json is merged entry-wise)
set -e
C=$1
cd /verif
git fetch -q $C HEAD
if git merge --no-edit -q FETCH_HEAD 2>/tmp/merge.err; then echo "merged cleanly"; else
  for f in $(git diff --name-only --diff-filter=U); do
    case "$f" in
      MANIFEST.json|lean/AFModel.lean|lean/AFProofs.lean|lean/AFDriver/Registry.lean|evidence/*) git checkout --theirs -- "$f"; git add "$f";;
      known_findings.json)
        git show :2:known_findings.json > /tmp/kf_ours.json; git show :3:known_findings.json > /tmp/kf_theirs.json
        python3 - <<'PY'
import json
a=json.load(open('/tmp/kf_ours.json')); b=json.load(open('/tmp/kf_theirs.json'))
la=a if isinstance(a,list) else a['findings']; lb=b if isinstance(b,list) else b['findings']
ids={e['id'] for e in la}
for e in lb:
    if e['id'] not in ids: la.append(e)
json.dump(a,open('/verif/known_findings.json','w'),indent=1)
PY
        git add known_findings.json;;
      *) echo "CONFLICT needs manual merge: $f";;
    esac
  done
  if git diff --name-only --diff-filter=U | grep -q .; then echo "unresolved conflicts remain"; exit 1; fi
  git commit -q --no-edit
fi
python3 tools/gen_registry.py > /dev/null
git add -A; git commit -qm "regenerate registry / manifest after merge" || true
echo done
