#!/usr/bin/env python3
"""tools/seedtable.py : regenerate seeded/README.md (which check catches which seeded change) from the
meta.json files and seeded/strengthening.json (what had to be added to a check before it caught a change)."""
import glob
import json
import os
from pathlib import Path

V = Path(__file__).resolve().parent.parent
strength = json.loads((V / "seeded" / "strengthening.json").read_text())
rows, missed = [], []
for d in sorted(x + "/" for x in glob.glob(str(V / "seeded" / "*")) if os.path.isdir(x)):
    sid = os.path.basename(d[:-1])
    m = json.loads(Path(d, "meta.json").read_text())
    v = m.get("verification", {})
    cr = v.get("check_result", {})
    cls = sorted({(x.get("classifier") or "") for x in cr.values() if x.get("violations")})
    t = m.get("title", "").replace("|", "/")
    t = t if len(t) <= 120 else t[:117] + "..."
    if not v.get("caught_by_check"):
        missed.append(sid)
    rows.append(f"| {sid} | {t} | {'yes' if v.get('caught_by_check') else 'NO'} | "
                f"{', '.join(c for c in cls if c) or ('tie / proof obligation broken' if v.get('caught_by_check') else '')} | {strength.get(sid, '')} |")
txt = ("# Seeded changes\n\nEach directory holds `patch.diff` (against /repo), `demo.py` (exits 1 with the change, 0 without; reads the\n"
       "library path from SEED_REPO) and `meta.json` (what it breaks, what it needs to manifest, what was run). Every change\n"
       "was written by a sub-agent that saw only the property text and a scratch worktree; confirmed with\n"
       "`tools/seedcheck.py` (applies in a scratch worktree: demo with / without, pinned baseline with the change; then the\n"
       "property's quick check, seeds 0 and 1, with the patch applied to /repo and undone straight afterwards). Of the round-5\n"
       "changes (`Cxx-m21..m23`) the 19 that were first missed or run first were run on /repo itself (seed 0); for the other 41 the\n"
       "check was run with the patch applied to a per-property clone of /repo at HEAD (`VERIF_REPO`), as their `meta.json` says.\n\n"
       f"{len(rows)} changes kept, {len(rows) - len(missed)} caught by their property's quick check"
       + (f"; not caught: {', '.join(missed)}" if missed else "") + ".\n\n"
       "| Seed | Change | caught | classifier(s) reported first | what had to be added to the check before it caught it |\n|---|---|---|---|---|\n"
       + "\n".join(rows) + "\n")
(V / "seeded" / "README.md").write_text(txt)
print(len(rows), "rows;", "missed:", missed)
