#!/usr/bin/env python3
"""tools/seedcheck.py <seed dir with patch.diff demo.py meta.json> [--keep-as <id>] [--tier quick|thorough]

Confirms a seeded defect (applies in a scratch worktree, demo fails with it / passes without it,
pinned baseline still passes with it) and runs the property's check against /repo with the patch
applied (undone straight afterwards). With --keep-as the seed is copied to /verif/seeded/<id>/ and
meta.json is extended with what was run and whether the check caught it."""
import argparse
import json
import os
import shutil
import subprocess
import sys
import tempfile
from pathlib import Path

VERIF = Path(__file__).resolve().parent.parent


def sh(cmd, **kw):
    return subprocess.run(cmd, shell=True, capture_output=True, text=True, **kw)


def main():
    ap = argparse.ArgumentParser()
    ap.add_argument("seed")
    ap.add_argument("--keep-as")
    ap.add_argument("--tier", default="quick")
    ap.add_argument("--skip-baseline", action="store_true")
    ap.add_argument("--seeds", default="0")
    ap.add_argument("--clone", default=None, help="screening: apply to this clone of /repo (VERIF_REPO) instead of /repo itself; nothing is kept")
    a = ap.parse_args()
    seed = Path(a.seed).resolve()
    meta = json.loads((seed / "meta.json").read_text())
    prop = meta["property"]
    patch = seed / "patch.diff"
    res = {"property": prop}

    wt = Path(tempfile.mkdtemp(prefix="seedwt", dir="/tmp")) / "wt"
    sh(f"git -C /repo worktree add --detach {wt} HEAD")
    try:
        r = sh(f"git -C {wt} apply --whitespace=nowarn {patch}")
        res["applies"] = r.returncode == 0
        if not res["applies"]:
            res["apply_error"] = r.stderr[-400:]
            print(json.dumps(res, indent=1))
            return 2
        env = dict(os.environ, SEED_REPO=str(wt), PYTHONWARNINGS="ignore")
        r = sh(f"/venv/bin/python {seed/'demo.py'}", env=env, timeout=900)
        res["demo_with_change"] = r.returncode
        res["demo_output"] = (r.stdout + r.stderr)[-300:]
        r = sh(f"/venv/bin/python -c 'import sys; sys.path.insert(0, \"{wt}\"); import autofit'", env=env)
        res["imports"] = r.returncode == 0
        if not a.skip_baseline:
            r = sh(f"python3 {VERIF/'tools'/'baseline.py'}", env=dict(os.environ, VERIF_REPO=str(wt)), timeout=1800)
            res["baseline_passes"] = r.returncode == 0
            res["baseline_output"] = r.stdout.strip()[-300:]
        sh(f"git -C {wt} checkout -- .")
        r = sh(f"/venv/bin/python {seed/'demo.py'}", env=env, timeout=900)
        res["demo_clean"] = r.returncode
    finally:
        sh(f"git -C /repo worktree remove --force {wt}")
        shutil.rmtree(wt.parent, ignore_errors=True)

    # the check against /repo itself (or a screening clone) with the patch applied
    target = a.clone or "/repo"
    if a.clone:
        if not Path(a.clone).exists():
            sh(f"git clone -q /repo {a.clone}")
        sh(f"git -C {target} checkout -q -- . && git -C {target} fetch -q /repo HEAD && git -C {target} reset -q --hard FETCH_HEAD")
    st = sh(f"git -C {target} status --porcelain --untracked-files=no").stdout.strip()
    if st:
        print(f"refusing: {target} has uncommitted changes", st)
        return 2
    caught = {}
    extra_env = {"VERIF_REPO": a.clone} if a.clone else {}
    try:
        r = sh(f"git -C {target} apply --whitespace=nowarn {patch}")
        assert r.returncode == 0, r.stderr
        for s in a.seeds.split():
            r = sh(f"./check {prop} --tier {a.tier}" + (" --no-proof" if (a.clone or os.environ.get("SEEDCHECK_NO_PROOF")) else ""), cwd=VERIF, env=dict(os.environ, VERIF_SEED=s, **extra_env), timeout=7200)
            lines = [l for l in r.stdout.splitlines() if l.startswith("VIOLATION")]
            caught[s] = {"exit": r.returncode, "violations": lines[:3]}
            if lines:
                rp = lines[0].split("replay=")[1].split()[0]
                try:
                    d = json.loads((VERIF / rp).read_text())
                    caught[s]["classifier"] = d.get("classifier") or d.get("kind")
                    caught[s]["what"] = (d.get("what") or str(d.get("no_longer_checks")))[:200]
                except Exception:
                    pass
    finally:
        sh(f"git -C {target} checkout -- .")
    res["check"] = caught
    res["applied_to"] = target
    res["caught"] = any(v["exit"] == 1 and v["violations"] for v in caught.values())
    res["confirmed"] = bool(res.get("demo_with_change") == 1 and res.get("demo_clean") == 0 and res.get("imports") and res.get("baseline_passes", True))
    print(json.dumps(res, indent=1))
    if a.keep_as and res["confirmed"] and not a.clone:
        dest = VERIF / "seeded" / a.keep_as
        dest.mkdir(parents=True, exist_ok=True)
        if seed.resolve() != dest.resolve():
            shutil.copy(patch, dest / "patch.diff")
            shutil.copy(seed / "demo.py", dest / "demo.py")
        meta["verification"] = {
            "ran": ["git apply in scratch worktree", "demo.py with change -> exit %s" % res.get("demo_with_change"),
                    "demo.py clean -> exit %s" % res.get("demo_clean"),
                    "tools/baseline.py with change -> %s" % res.get("baseline_output", "skipped"),
                    f"./check {prop} --tier {a.tier} with patch applied to /repo (seeds {a.seeds})"],
            "check_result": caught,
            "caught_by_check": res["caught"],
        }
        (dest / "meta.json").write_text(json.dumps(meta, indent=1))
    return 0


if __name__ == "__main__":
    sys.exit(main())
