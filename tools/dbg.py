"""development helper: python tools/dbg.py Cxx [classifier...] : run a harness without the proof step and print one failing case per classifier"""
import sys, json, warnings, os
warnings.filterwarnings("ignore")
sys.path.insert(0,'/verif/harness'); sys.path.insert(0, os.environ.get('VERIF_REPO','/repo'))
import common, importlib
prop=sys.argv[1]; want=sys.argv[2:]
ctx=common.Ctx(prop,os.environ.get('VERIF_TIER','quick'),int(os.environ.get('VERIF_SEED','0')))
common.setup_repo()
mod=importlib.import_module(prop.lower())
mod.run(ctx)
seen=set()
from collections import Counter
print('disagreements', dict(Counter(d['clause'] for d in ctx.disagreements)))
for d in ctx.disagreements[:3]:
    print('  ', d['clause'], str(d['impl'])[:300], '|', str(d['model'])[:300]); print('     case:', json.dumps(d['case'], default=str)[:1200])
for f in ctx.failures+[dict(classifier=k, what=v[0]['what'], case=v[1], detail=v[2]) for k,v in ctx.known_hits.items()]:
    c=f['classifier']
    if c in seen or (want and c not in want): continue
    seen.add(c)
    print('==',c,'|',f['what']); print('   detail:',json.dumps(f['detail'],default=str)[:600]); print('   case:',json.dumps(f['case'],default=str)[:1800])
if ctx._driver: ctx.lean.close()
