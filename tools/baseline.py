#!/usr/bin/env python3
"""Run the repository's pinned baseline (guard OFF) and compare with BASELINE.json's stable_pass."""
import json, os, subprocess, sys, tempfile, xml.etree.ElementTree as ET
base = json.load(open("/root/.vp/BASELINE.json"))
env = dict(os.environ)
env.pop("PYAUTOFIT_VERIF", None)
with tempfile.TemporaryDirectory() as d:
    x = os.path.join(d, "junit.xml")
    cmd = base["cmd"].replace("<file>", x).replace("cd /repo", "cd " + (os.environ.get("VERIF_REPO") or "/repo"))
    p = subprocess.run(cmd, shell=True, env=env, capture_output=True, text=True)
    passed = set()
    for tc in ET.parse(x).getroot().iter("testcase"):
        if not any(c.tag in ("failure", "error", "skipped") for c in tc):
            passed.add(f"{tc.get('classname')}::{tc.get('name')}")
missing = [t for t in base["stable_pass"] if t not in passed]
print(f"stable_pass={len(base['stable_pass'])} passed_now={len(passed)} missing={len(missing)}")
for m in missing[:40]:
    print("  MISSING", m)
sys.exit(1 if missing else 0)
