#!/bin/bash
# tools/try.sh Cxx <patch.diff | -> [seeds...] : development aid. Runs ./check Cxx --no-proof on the clone ${TRY_CLONE:-/work/st}
# (reset to /repo HEAD, with the patch applied if given) and prints one line per seed: number of VIOLATION lines, classifiers.
P=$1; PATCH=$2; shift 2; SEEDS=${@:-"5 6"}
[ -d ${TRY_CLONE:-/work/st} ] || git clone -q /repo ${TRY_CLONE:-/work/st}
git -C ${TRY_CLONE:-/work/st} checkout -q -- . ; git -C ${TRY_CLONE:-/work/st} fetch -q /repo HEAD; git -C ${TRY_CLONE:-/work/st} reset -q --hard FETCH_HEAD
if [ "$PATCH" != "-" ]; then git -C ${TRY_CLONE:-/work/st} apply --whitespace=nowarn $PATCH || exit 2; fi
cd /verif
for s in $SEEDS; do
  out=$(VERIF_REPO=${TRY_CLONE:-/work/st} VERIF_SEED=$s timeout 1500 ./check $P --no-proof 2>&1); rc=$?
  n=$(echo "$out" | grep -c "^VIOLATION")
  cls=$(for f in $(echo "$out" | grep "^VIOLATION" | sed 's/.*replay=\([^ ]*\).*/\1/'); do python3 -c "import json,sys; d=json.load(open('/verif/$f')); print(d.get('classifier') or d.get('no_longer_checks'))"; done | tr '\n' ' ')
  echo "$P $( [ "$PATCH" = "-" ] && echo clean || echo patched ) seed=$s rc=$rc violations=$n $cls"
  [ $rc -ge 2 ] && echo "$out" | tail -5
done
git -C ${TRY_CLONE:-/work/st} checkout -q -- .
