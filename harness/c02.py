"""C02 — priors map the unit interval monotonically onto their support.

For generated priors (4 families x ordinary / extreme / malformed parameters) and unit grids:

* correspondence, bit exact  : gate + rounding layer.  The implementation's `prior.message.value_for(u)`
  is handed to the Lean model's `finish`; its outcome (value bits or limit exception) must equal
  `prior.value_for(u)` / `prior.value_for(u, ignore_prior_limits=True)`.  `Prior.random` must equal
  `value_for` at the model's `randomUnit` (Python's `random.uniform` arithmetic) for the same generator state.
* correspondence, tolerance  : the model's transform stacks run on `Float` (`rawValueFor`, `unitValueFor`,
  own numerical Phi / Phi^-1) against `message.value_for`, `unit_value_for`, unit limits.
* oracle (independent of the model, restates the property on the real outputs): value inside limits or
  `PriorLimitException`; no exception while the mapped value is inside limits; non-decreasing on the sorted
  grid; `unit_value_for(value_for(u)) = u`; agreement with the declared distribution's quantile function
  (closed forms + scipy `ndtri`; mpmath at 40 digits in the thorough tier); random draws inside limits;
  `model.vector_from_unit_vector` = the priors' `value_for` in id order.

Floating point: the code evaluates `erfinv(1 - 2(1 - u))`, i.e. the quantile at some `u'` with
`|u' - u| <= 2^-53`; all value comparisons are therefore "backward": the value must lie between the
reference quantile at `u - DELTA` and at `u + DELTA` (DELTA = 2^-52), widened by the rounding slack of the
final arithmetic.  Clauses about inversion/quantile are evaluated only where the prior is *resolvable* in
double precision at that point (slack in the value moves the exact CDF by <= 1e-6)."""
import json
import math
import random as pyrandom
import subprocess

import numpy as np
from scipy import special

from common import f2h, h2f, VERIF

import autofit as af
from autofit import exc

DELTA = 2.0 ** -52
INF = math.inf
KINDS = {"U": "Uniform", "L": "LogUniform", "G": "Gaussian", "N": "LogGaussian"}

RULE = (
    "priors of the four families with ordinary, extreme (1e-300..1e300, widths down to a few ulp, limits up "
    "to 12 sigma in the tails, ranges of up to 600 decades, limits off the 1e-14 grid) and malformed "
    "parameters; per prior a sorted unit grid {0, 1, 2^-k, 1-2^-k, +-1e-14 around the ends, unit limits "
    "+-, uniform} and seeded random draws; non-trivial = prior constructed and at least 3 interior units "
    "mapped to a finite value; distinct = hash of (family, parameter bits, unit grid bits)"
)

ASSUMPTIONS = [
    "special functions (scipy erfinv/ndtr/ndtri/norm.cdf, numpy log10/exp/power) are compared with a stated "
    "tolerance against the model's own numerical Phi/Phi^-1 and libm, never bit-exactly",
    "inversion/quantile clauses are evaluated only where the prior is resolvable in double precision "
    "(rounding slack of the value moves the exact CDF by <= 1e-6); gate, monotonicity and random-draw "
    "clauses are evaluated everywhere",
    "unit values are taken in [0,1]; the global `random` module is the source of Prior.random",
]


# ---------------------------------------------------------------------------------------------
# small float helpers


def ulp(x):
    x = abs(float(x))
    if math.isinf(x) or x != x:
        return 0.0
    return math.ulp(x)


def num(x):
    """JSON-able float"""
    x = float(x)
    if x != x:
        return "nan"
    if math.isinf(x):
        return "inf" if x > 0 else "-inf"
    return x


def unnum(x):
    return float(x)


def same(a, b):
    """outcome equality: 'limit' or floats equal as values (nan = nan, -0.0 = 0.0)"""
    if isinstance(a, str) or isinstance(b, str):
        return a == b
    return (a != a and b != b) or a == b


def call(f, *a, **k):
    """value | 'limit' | 'exc:<Type>'"""
    try:
        return float(f(*a, **k))
    except exc.PriorLimitException:
        return "limit"
    except Exception as e:  # noqa
        return "exc:" + type(e).__name__


# ---------------------------------------------------------------------------------------------
# reference quantile / CDF of the declared distribution (independent of the implementation)


class Ref:
    def __init__(self, d):
        self.k = d["kind"]
        self.lo, self.hi = d["lo"], d["hi"]
        self.mean, self.sigma = d.get("mean", 0.0), d.get("sigma", 0.0)
        if self.k == "L":
            self.l10lo, self.l10hi = math.log10(self.lo), math.log10(self.hi)

    # "argument" space: value itself (U, G), log10 value (L), ln value (N)
    def arg_of_unit(self, u):
        u = min(max(u, 0.0), 1.0)
        if self.k == "U":
            return self.lo + u * (self.hi - self.lo) if u < 1.0 else self.hi
        if self.k == "L":
            return self.l10lo + u * (self.l10hi - self.l10lo)
        z = float(special.ndtri(u))
        if self.sigma == 0.0:
            return self.mean if not math.isinf(z) else math.nan
        return self.mean + self.sigma * z

    def arg_slack(self, a, u):
        """rounding slack of the final arithmetic, in argument space"""
        if self.k == "U":
            w = self.hi - self.lo
            return 4 * ulp(max(abs(self.lo), abs(self.hi))) + 0.5e-14 * min(1.0, w) * (1 + 1e-6)
        if self.k == "L":
            return 8 * ulp(abs(self.l10lo) + abs(self.l10hi) + 1.0) + 2e-16 * abs(self.l10hi - self.l10lo)
        z = abs(a - self.mean) if not (math.isinf(a) or a != a) else 0.0
        return z * 8e-15 + 4 * ulp(abs(self.mean) + z)

    def val_of_arg(self, a, direction):
        """value for an argument, rounded outwards (direction -1/+1)"""
        with np.errstate(all="ignore"):
            if self.k in ("U", "G"):
                return a
            if self.k == "L":
                v = float(np.power(10.0, a))
            else:
                v = float(np.exp(a))
        if math.isinf(v) or v != v:
            return v
        return v * (1 + direction * 4e-15) + direction * 1.5e-323

    def arg_of_val(self, v):
        with np.errstate(all="ignore"):
            if self.k in ("U", "G"):
                return v
            if self.k == "L":
                return float(np.log10(v)) if v > 0 else (-INF if v == 0 else math.nan)
            return float(np.log(v)) if v > 0 else (-INF if v == 0 else math.nan)

    def cdf_of_arg(self, a):
        if self.k == "U":
            t = (a - self.lo) / (self.hi - self.lo)
        elif self.k == "L":
            t = (a - self.l10lo) / (self.l10hi - self.l10lo)
        else:
            if self.sigma == 0.0:
                return math.nan
            return float(special.ndtr((a - self.mean) / self.sigma))
        return min(max(t, 0.0), 1.0)

    def bounds(self, u):
        """[lo, hi] the mapped value must lie in"""
        a0 = self.arg_of_unit(u - DELTA)
        a1 = self.arg_of_unit(u + DELTA)
        if a0 != a0 or a1 != a1:
            return None
        s0, s1 = self.arg_slack(a0, u), self.arg_slack(a1, u)
        extra = 0.0
        if self.k in ("L", "N"):
            # slack of exp/pow itself is relative and handled by val_of_arg
            pass
        return self.val_of_arg(a0 - s0 - extra, -1), self.val_of_arg(a1 + s1 + extra, +1)

    def cdf_window(self, v):
        """exact CDF over the rounding neighbourhood of v: (F(v-), F(v+))"""
        a = self.arg_of_val(v)
        if a != a:
            return None
        if self.k in ("L", "N"):
            s = self.arg_slack(a, None) + 8e-15 + 4 * ulp(a)
        else:
            s = self.arg_slack(a, None) + 2 * ulp(v)
        lo, hi = self.cdf_of_arg(a - s), self.cdf_of_arg(a + s)
        if lo != lo or hi != hi:
            return None
        return lo, hi


# ---------------------------------------------------------------------------------------------
# generation


def _mag(rng, lo_exp, hi_exp):
    return rng.uniform(1, 10) * 10.0 ** rng.randint(lo_exp, hi_exp)


def gen_prior(rng):
    """-> description dict; stream in d['stream']"""
    k = rng.choice("ULGN")
    r = rng.random()
    stream = "ordinary" if r < 0.5 else ("extreme" if r < 0.95 else "malformed")
    d = {"kind": k, "stream": stream}
    if stream == "malformed":
        if k in "UL":
            a = _mag(rng, -3, 3)
            d.update(lo=a, hi=rng.choice([a, a / 2, -a]))
            if k == "L" and rng.random() < 0.5:
                d.update(lo=rng.choice([0.0, -1.0]), hi=1.0)
        else:
            d.update(mean=0.0, sigma=-abs(_mag(rng, -2, 2)), lo=-INF if k == "G" else 0.0, hi=INF)
        return d
    if k == "U":
        if stream == "ordinary":
            a = rng.choice([0.0, -1.0, 1.0, rng.uniform(-100, 100), round(rng.uniform(-10, 10), 2)])
            w = rng.choice([1.0, 2.0, 0.5, rng.uniform(0.01, 1000), round(rng.uniform(0.1, 10), 1)])
            lo, hi = a, a + w
        else:
            mode = rng.choice(["offgrid", "tiny", "huge", "narrow", "mixed", "ulps"])
            if mode == "offgrid":
                # limits between two multiples of 1e-14 (the 14-decimal grid)
                base = rng.randint(-10 ** 3, 10 ** 3) * 10.0 ** rng.randint(-14, -1)
                lo = base + rng.uniform(0, 1) * 1e-14
                hi = lo + rng.choice([rng.uniform(0, 1) * 10.0 ** rng.randint(-14, 0), 0.1, 1.0])
            elif mode == "tiny":
                lo = rng.choice([0.0, _mag(rng, -300, -14), -_mag(rng, -300, -14)])
                hi = lo + _mag(rng, -300, -13)
            elif mode == "huge":
                lo = rng.choice([0.0, -_mag(rng, 280, 307), _mag(rng, 200, 300)])
                hi = lo + _mag(rng, 285, 307)
            elif mode == "narrow":
                lo = rng.choice([1.0, -1.0]) * _mag(rng, -5, 20)
                hi = lo + abs(lo) * 10.0 ** rng.uniform(-13, -3)
            elif mode == "ulps":
                lo = rng.choice([1.0, -1.0]) * _mag(rng, -10, 10)
                hi = lo
                for _ in range(rng.randint(1, 50)):
                    hi = math.nextafter(hi, INF)
            else:
                lo = rng.choice([1.0, -1.0]) * _mag(rng, -20, 20)
                hi = rng.choice([1.0, -1.0]) * _mag(rng, -20, 20)
                lo, hi = min(lo, hi), max(lo, hi)
        d.update(lo=float(lo), hi=float(hi))
    elif k == "L":
        if stream == "ordinary":
            lo = rng.choice([1e-6, 1.0, 0.01, 10.0, _mag(rng, -8, 3)])
            hi = lo * rng.choice([10.0, 1e6, 2.0, 1e3, 1 + rng.uniform(0.01, 100)])
        else:
            mode = rng.choice(["decades", "decades", "narrow", "mixed", "overflow"])
            if mode == "decades":
                lo = _mag(rng, -300, 0)
                hi = min(lo * 10.0 ** rng.uniform(1, 300), 1e308)
            elif mode == "narrow":
                lo = _mag(rng, -50, 50)
                hi = lo * (1 + 10.0 ** rng.uniform(-13, -2))
            elif mode == "overflow":
                lo = _mag(rng, -307, -200)
                hi = _mag(rng, 120, 307)
            else:
                lo = _mag(rng, -300, 300)
                hi = _mag(rng, -300, 300)
                lo, hi = min(lo, hi), max(lo, hi)
        d.update(lo=float(lo), hi=float(hi))
    else:
        if stream == "ordinary":
            mean = rng.choice([0.0, 1.0, rng.uniform(-10, 10), round(rng.uniform(-100, 100), 1)])
            sigma = rng.choice([1.0, 0.5, 2.0, rng.uniform(0.01, 10)])
        else:
            mean = rng.choice([0.0, rng.choice([1.0, -1.0]) * _mag(rng, -10, 10), rng.uniform(-300, 300)])
            sigma = rng.choice([_mag(rng, -8, 8), _mag(rng, -2, 2), 1.0])
            if k == "N":
                mean = rng.uniform(-300, 300) if rng.random() < 0.5 else rng.uniform(-5, 5)
                sigma = rng.choice([_mag(rng, -4, 1), 1.0, rng.uniform(0.1, 30)])
        r = rng.random()
        zmax = 4.0 if stream == "ordinary" else 12.0
        z1, z2 = sorted([rng.uniform(-zmax, zmax), rng.uniform(-zmax, zmax)])
        if stream == "extreme" and rng.random() < 0.4:
            # both limits far in one tail
            side = rng.choice([-1, 1])
            z1, z2 = sorted([side * rng.uniform(6, 12), side * rng.uniform(6, 12)])
        lo, hi = mean + sigma * z1, mean + sigma * z2
        if k == "N":
            with np.errstate(all="ignore"):
                lo, hi = float(np.exp(lo)), float(np.exp(hi))
        if r < 0.3:
            lo, hi = (-INF if k == "G" else 0.0), INF
        elif r < 0.4:
            lo = -INF if k == "G" else 0.0
        elif r < 0.5:
            hi = INF
        d.update(mean=float(mean), sigma=float(sigma), lo=float(lo), hi=float(hi))
    if not (d["lo"] < d["hi"]) or (k in "UL" and not (math.isfinite(d["lo"]) and math.isfinite(d["hi"]))) \
            or (k == "L" and d["lo"] <= 0):
        return gen_prior(rng)
    return d


def build(d):
    k = d["kind"]
    if k == "U":
        return af.UniformPrior(lower_limit=d["lo"], upper_limit=d["hi"])
    if k == "L":
        return af.LogUniformPrior(lower_limit=d["lo"], upper_limit=d["hi"])
    if k == "G":
        return af.GaussianPrior(mean=d["mean"], sigma=d["sigma"], lower_limit=d["lo"], upper_limit=d["hi"])
    return af.LogGaussianPrior(mean=d["mean"], sigma=d["sigma"], lower_limit=d["lo"], upper_limit=d["hi"])


EDGE_UNITS = [0.0, 1.0, 0.5, 0.25, 0.75, 1e-14, 1 - 1e-14, 5e-15, 2.0 ** -53, 2.0 ** -54, 1 - 2.0 ** -53,
              1e-300, 5e-324, 1e-20, 1e-10]


def gen_units(rng, d, ref, n_random=14):
    us = set(rng.sample(EDGE_UNITS, 9) + [0.0, 1.0, 0.5])
    us.update(2.0 ** -rng.randint(1, 70) for _ in range(3))
    us.update(1 - 2.0 ** -rng.randint(1, 53) for _ in range(3))
    us.update(rng.random() for _ in range(n_random))
    us.add(round(rng.random(), 2))
    # around the unit limits, so that the gate is exercised on both sides
    if d["kind"] in "GN" and d.get("sigma", 0) > 0:
        for lim in (d["lo"], d["hi"]):
            a = ref.arg_of_val(lim) if lim > 0 or d["kind"] == "G" else -INF
            c = ref.cdf_of_arg(a) if a == a else math.nan
            if c == c and 0 < c < 1:
                for f in (1 - 1e-3, 1 - 1e-9, 1.0, 1 + 1e-9, 1 + 1e-3):
                    us.add(min(max(c * f, 0.0), 1.0))
                    us.add(min(max(1 - (1 - c) * f, 0.0), 1.0))
    return sorted(us)


# ---------------------------------------------------------------------------------------------
# finding flags


WITNESSES = [
    {"kind": "U", "lo": 0.100000000000004, "hi": 0.2, "u": 0.0},
    {"kind": "U", "lo": 1e-15, "hi": 2e-15, "u": 0.5},
    {"kind": "U", "lo": 0.0, "hi": 1e300, "u": 0.5},
]


def probe_flags(ctx):
    """replay the stored witnesses of fixed findings on the real code -> observed Cfg"""
    repaired = True
    for w in WITNESSES:
        v = call(build(w).value_for, w["u"])
        if not isinstance(v, str) and not (w["lo"] <= v <= w["hi"]):
            repaired = False
            ctx.fail(
                "C02-uniform-round-after-gate",
                f"UniformPrior({w['lo']!r}, {w['hi']!r}).value_for({w['u']}) returned {v!r}, outside its limits "
                "(rounding applied after the limit check)",
                {"prior": {k: num(w[k]) for k in ("lo", "hi")} | {"kind": "U"}, "units": [w["u"]], "seeds": []},
                {"got": num(v) if not isinstance(v, str) else v},
            )
    ctx.notes.setdefault("flags_observed", {})["repaired"] = repaired
    return {"repaired": repaired}


# ---------------------------------------------------------------------------------------------
# one prior


def wire_prior(d):
    return {
        "kind": d["kind"], "lo": f2h(d["lo"]), "hi": f2h(d["hi"]),
        "mean": f2h(d.get("mean", 0.0)), "sigma": f2h(d.get("sigma", 0.0)),
    }


def canon_prior(d):
    return {k: num(d[k]) for k in ("lo", "hi", "mean", "sigma") if k in d} | {"kind": d["kind"]}


def out_of(x):
    return x if x == "limit" else h2f(x)


def classify_random_exception(d, a, b):
    if d["kind"] in "GN" and a == a and b == b and (b - a) <= 1e-6:
        return "C02-random-raises-unresolvable-unit-limits"
    return "C02-random-raises"


# ---------------------------------------------------------------------------------------------
# doubles as data (AFModel/PriorDbl.lean): gate + exact rounding + clamp, CPython round, IEEE order


def bits_same(a, b):
    """bit-exact equality of two floats (NaNs equal to each other, -0.0 != 0.0)"""
    return (a != a and b != b) or f2h(a) == f2h(b)


def dbl_layer(ctx, d, p, cfg, m, m2, idx, raw, out, ign, case_u):
    """`finishD` (the theorem-carrying model of gate/round/clamp on `Dbl`) against the real value_for"""
    if not cfg.get("repaired", True):
        return
    for j, i in enumerate(idx):
        for name, mm, real in (("value_for = finishD(message.value_for)", m, out[i]),
                               ("value_for(ignore) = finishD(message.value_for)", m2, ign[i])):
            fd = mm.get("finD", [])
            if j >= len(fd):
                ctx.disagree(name, case_u(i), num_or(real), "missing")
                continue
            got = out_of(fd[j])
            if isinstance(got, str) or isinstance(real, str):
                ok = got == real
            else:
                ok = bits_same(got, real) or (got == 0.0 and real == 0.0 and d["kind"] != "U")
            if not ok:
                ctx.disagree(name, case_u(i), num_or(real), num_or(got))
            else:
                ctx.hit("gateD:" + ("limit" if got == "limit" else "ok"))
    if d["kind"] == "U" and hasattr(p, "_decimal_places"):
        if int(p._decimal_places) != int(m.get("places", -1)):
            ctx.disagree("_decimal_places = decimalPlaces", {"prior": canon_prior(d)}, int(p._decimal_places),
                         m.get("places"))


def round_tie(ctx, d, p, values):
    """`pyRoundD n x` = CPython `round(x, n)` bit for bit, on the values this prior produced, on their
    neighbours and on decimal ties; the order of `Dbl` = Python's `<=`, `<` on the same doubles"""
    rng = ctx.rng
    places = int(getattr(p, "_decimal_places", 14)) if d["kind"] == "U" else 14
    xs = [v for v in values if isinstance(v, float)]
    xs = rng.sample(xs, min(len(xs), 6))
    pool = []
    for x in xs:
        pool.append((places, x))
        if math.isfinite(x):
            pool.append((places, math.nextafter(x, INF)))
            pool.append((rng.choice([0, 1, 2, 13, 14, 15, 16, 17, 20, 29, 100, 323]), -x))
    # decimal ties and near-ties: j + 1/2 units of the n-th place, and their neighbours
    for _ in range(4):
        n = rng.choice([0, 1, 2, 3, 14, 14, 15, places])
        j = rng.randrange(-10 ** rng.randint(0, 15), 10 ** rng.randint(0, 15))
        try:
            t = (j + 0.5) / 10.0 ** n if n < 300 else (j + 0.5) * 10.0 ** -n
        except OverflowError:
            continue
        pool.append((n, t))
        pool.append((n, math.nextafter(t, rng.choice([-INF, INF]))))
    pool.append((rng.choice([0, 14, 300, 323]), rng.choice([5e-324, -5e-324, 2.2250738585072014e-308,
                                                             1.7976931348623157e308, -1.7976931348623157e308,
                                                             INF, -INF, 0.0, -0.0, 2.0 ** 52 + 0.5, 2.0 ** 53])))
    vals = [x for _, x in pool[:8]] + [d["lo"], d["hi"], 0.0, -0.0, math.nan, INF, -INF]
    pairs = [(rng.choice(vals), rng.choice(vals)) for _ in range(10)]
    m = ctx.lean.ask({"p": "C02", **wire_prior(d), "us": [],
                      "rounds": [[n, f2h(x)] for n, x in pool], "cmp": [[f2h(a), f2h(b)] for a, b in pairs]})
    if "driver_error" in m:
        ctx.disagree("driver", {"prior": canon_prior(d)}, None, m.get("driver_error"))
        return
    for (n, x), mh in zip(pool, m["rounds"]):
        try:
            want = round(x, n)
        except OverflowError:
            want = "exc:OverflowError"
        got = h2f(mh)
        if isinstance(want, str) or not bits_same(got, want):
            ctx.disagree("round(x, n) = pyRoundD n x", {"x": num(x), "n": n}, num_or(want), num(got))
        else:
            ctx.hit("round-tie")
        # the theorem's statement evaluated on the real rounding: finite stays finite
        if not isinstance(want, str) and math.isfinite(x) and not math.isfinite(want):
            ctx.disagree("round(x, n) finite", {"x": num(x), "n": n}, num(want), num(got))
    # order
    for (a, b), mc in zip(pairs, m["cmp"]):
        if [a <= b, a < b] != [bool(mc[0]), bool(mc[1])]:
            ctx.disagree("Dbl order = float order", {"a": num(a), "b": num(b)}, [a <= b, a < b], mc)
    # monotonicity of the real rounding on the sorted sample (the theorem's statement on the real function)
    by_n = {}
    for n, x in pool:
        if x == x:
            by_n.setdefault(n, []).append(x)
    for n, lst in by_n.items():
        lst.sort()
        rs = [round(x, n) for x in lst]
        for x0, x1, r0, r1 in zip(lst, lst[1:], rs, rs[1:]):
            if r0 > r1:
                ctx.fail("C02-round-not-monotone", f"round({x0!r}, {n}) = {r0!r} > round({x1!r}, {n}) = {r1!r}",
                         {"prior": canon_prior(d), "units": [], "seeds": [], "round": [n, num(x0), num(x1)]})


def unit_limit_law(ctx, d, a, b, ratio_overflow):
    """theorem `unit_limits_uniform` / `unitLimits_logUniform` on the real code: the unit limits of the two
    uniform families are the clamp epsilon of transform.ndtri and its complement (not 0 and 1)"""
    if d["kind"] not in "UL" or ratio_overflow or isinstance(a, str) or isinstance(b, str):
        return
    if a != a or b != b or not math.isfinite(d["hi"] - d["lo"]):
        ctx.hit("unit-limit-law-skipped")
        return
    ok_a = abs(a - 1e-14) <= 1e-22
    # log-uniform: (log10 U - log10 L) / log10(U / L) is 1 only up to rounding; below 1 it is not clamped
    want_b = 1 - 1e-14
    if d["kind"] == "L":
        # on doubles the log-coordinate hypothesis of the theorem (log10(U/L) = log10 U - log10 L) holds only
        # up to rounding: the coordinate of the upper limit is t ~ 1, clamped only if 1 <= t <= 1 + eps
        t = float((np.log10(d["hi"]) - np.log10(d["lo"])) / np.log10(d["hi"] / d["lo"]))
        if not (t <= 1 + 1e-14):
            ctx.hit("unit-limit-law-skipped")
            return
        want_b = t if t < 1 else 1 - 1e-14
    ok_b = abs(b - want_b) <= 4e-16
    if ok_a and ok_b:
        ctx.hit("unit-limit-law")
    else:
        ctx.disagree("unit limits of the uniform families = (eps, 1 - eps)", {"prior": canon_prior(d)},
                     [num(a), num(b)], [1e-14, num(want_b)])


# ---------------------------------------------------------------------------------------------
# less-travelled routes to a prior: the same bit-exact gate comparison on priors that were not built by
# their constructor call in `build`


TYPE_KIND = {"Uniform": "U", "LogUniform": "L", "Gaussian": "G", "LogGaussian": "N"}


def desc_of_dict(pd):
    """descriptor from a prior dict / config entry (what the route was *asked* to build)"""
    k = TYPE_KIND[pd["type"]]
    d = {"kind": k}
    lo_default, hi_default = {"U": (0.0, 1.0), "L": (1e-6, 1.0), "G": (-INF, INF), "N": (0.0, INF)}[k]
    d["lo"] = float(pd.get("lower_limit", lo_default))
    d["hi"] = float(pd.get("upper_limit", hi_default))
    if k in "GN":
        d["mean"], d["sigma"] = float(pd["mean"]), float(pd["sigma"])
    return d


def gate_tie(ctx, route, q, dq, cfg, units):
    """q was obtained by `route` and should be the prior described by dq: its attributes, its raw quantile
    (against a freshly constructed prior, same arithmetic -> same bits), and value_for = finish / finishD of
    its raw value with dq's limits (the model), with and without ignore_prior_limits; the property itself on
    the outputs (inside dq's limits or the limit exception)"""
    case = {"prior": canon_prior(dq), "units": [num(u) for u in units], "seeds": [], "route": route}
    try:
        fresh = build(dq)
    except Exception as e:  # noqa
        ctx.hit("route-fresh-unavailable:" + type(e).__name__)
        return
    attrs = [("lower_limit", dq["lo"]), ("upper_limit", dq["hi"])]
    if dq["kind"] in "GN":
        attrs += [("mean", dq["mean"]), ("sigma", dq["sigma"])]
    for name, want in attrs:
        got = call(lambda: getattr(q, name))
        if isinstance(got, str) or not bits_same(got, float(want)):
            ctx.fail("C02-route-parameters", f"prior obtained by {route}: {name} = {got!r}, expected {want!r}", case)
            return
    if type(q) is not type(fresh):
        ctx.fail("C02-route-parameters", f"prior obtained by {route} is a {type(q).__name__}, expected "
                 f"{type(fresh).__name__}", case)
        return
    raw = [call(q.message.value_for, u) for u in units]
    raw_f = [call(fresh.message.value_for, u) for u in units]
    out = [call(q.value_for, u) for u in units]
    ign = [call(q.value_for, u, ignore_prior_limits=True) for u in units]
    idx = [i for i in range(len(units)) if not isinstance(raw[i], str)]
    for i in range(len(units)):
        if isinstance(raw[i], str) != isinstance(raw_f[i], str) or \
                (not isinstance(raw[i], str) and not bits_same(raw[i], raw_f[i])):
            ctx.fail("C02-route-quantile", f"prior obtained by {route}: message.value_for({units[i]!r}) = {raw[i]!r}, "
                     f"a freshly constructed prior with the same parameters gives {raw_f[i]!r}", case)
            return
    wp = wire_prior(dq)
    m = ctx.lean.ask({"p": "C02", "cfg": cfg, "ignore": False, **wp, "us": [], "raws": [f2h(raw[i]) for i in idx]})
    m2 = ctx.lean.ask({"p": "C02", "cfg": cfg, "ignore": True, **wp, "us": [], "raws": [f2h(raw[i]) for i in idx]})
    if "driver_error" in m or "driver_error" in m2:
        ctx.disagree("driver", case, None, m.get("driver_error") or m2.get("driver_error"))
        return
    L, U = dq["lo"], dq["hi"]
    for j, i in enumerate(idx):
        for name, mm, real in (("value_for", m, out[i]), ("value_for(ignore)", m2, ign[i])):
            fin = out_of(mm["fin"][j])
            ok = same(fin, real)
            if ok and cfg.get("repaired", True):
                fd = out_of(mm["finD"][j])
                ok = (fd == real) if (isinstance(fd, str) or isinstance(real, str)) else \
                    (bits_same(fd, real) or (fd == 0.0 and real == 0.0))
            if not ok:
                ctx.disagree(f"{route}: {name} = finish(message.value_for)", case, num_or(real), num_or(fin))
        o = out[i]
        if not isinstance(o, str) and not (L <= o <= U):
            ctx.fail("C02-out-of-limits-returned", f"prior obtained by {route}: value_for({units[i]!r}) returned {o!r}, "
                     f"outside [{L!r}, {U!r}]", case)
        if o == "limit" and not isinstance(ign[i], str) and L <= ign[i] <= U and L <= raw[i] <= U:
            ctx.fail("C02-spurious-limit-exception", f"prior obtained by {route}: value_for({units[i]!r}) raised although "
                     f"the mapped value {ign[i]!r} is inside [{L!r}, {U!r}]", case)
    ctx.hit("route:" + route.split("(")[0])


def route_tie(ctx, d, p, cfg):
    """routes from an existing prior: dict round trip, copies, pickling, with_limits class methods"""
    import copy as _copy
    import pickle as _pickle
    rng = ctx.rng
    units = [0.0, 1.0, 0.5, rng.random(), rng.random(), 2.0 ** -rng.randint(1, 60)]
    routes = []

    def attempt(name, f, dq, must=True):
        try:
            routes.append((name, f(), dq))
        except Exception as e:  # noqa
            ctx.hit("route-unavailable:" + name + ":" + type(e).__name__)
            if must:
                # these routes work for every constructible prior on the unchanged code
                ctx.disagree("route available: " + name, {"prior": canon_prior(d), "route": name},
                             "exc:" + type(e).__name__, "prior")

    if rng.random() < 0.5:
        attempt("from_dict(dict())", lambda: af.Prior.from_dict(p.dict()), d)
    else:
        attempt("from_dict(json)", lambda: af.Prior.from_dict(json.loads(json.dumps(p.dict()))), d)
    which = rng.choice(["deepcopy", "pickle", "new", "tree"])
    if which == "deepcopy":
        attempt("deepcopy", lambda: _copy.deepcopy(p), d)
    elif which == "pickle":
        attempt("pickle", lambda: _pickle.loads(_pickle.dumps(p)), d)
    elif which == "new":
        attempt("new", lambda: p.new().new(), d)
    elif hasattr(type(p), "tree_flatten"):
        attempt("tree_unflatten", lambda: type(p).tree_unflatten(*reversed(p.tree_flatten())), d, must=False)
    k = d["kind"]
    lo, hi = d["lo"], d["hi"]
    if k == "G" and math.isfinite(lo) and math.isfinite(hi) and math.isfinite(hi - lo) and hi - lo > 0:
        attempt("GaussianPrior.with_limits", lambda: p.with_limits(lo, hi),
                {"kind": "G", "mean": (lo + hi) / 2, "sigma": hi - lo, "lo": -INF, "hi": INF})
    if k == "L":
        lo2 = lo * rng.choice([1.0, 1.5, 1e-9]) if rng.random() < 0.7 else 0.0
        if max(0.000001, lo2) < hi:
            attempt("LogUniformPrior.with_limits", lambda: p.with_limits(lo2, hi),
                    {"kind": "L", "lo": max(0.000001, lo2), "hi": hi})
    if k == "U" and math.isfinite(hi - lo):
        a2, b2 = sorted([lo + rng.uniform(-0.5, 1.0) * (hi - lo), lo + rng.uniform(0.0, 1.5) * (hi - lo)])
        if max(a2, lo) < min(b2, hi):
            attempt("UniformPrior.with_limits", lambda: p.with_limits(a2, b2),
                    {"kind": "U", "lo": max(a2, lo), "hi": min(b2, hi)})
    for name, q, dq in routes:
        if isinstance(q, af.Prior):
            gate_tie(ctx, name, q, dq, cfg, units)
        else:
            ctx.fail("C02-route-parameters", f"{name} did not return a prior: {q!r}", {"prior": canon_prior(d), "route": name})


def config_route(ctx, cfg):
    """priors created from the config defaults (af.Model(cls)): built from the YAML entry, compared with it"""
    import vlib
    from autoconf import conf
    rng = ctx.rng
    classes = [af.ex.Gaussian, af.ex.Exponential] + [getattr(vlib, n) for n in ("P1", "P2", "P3") if hasattr(vlib, n)]
    for cls in classes:
        try:
            model = af.Model(cls)
            tuples = list(model.prior_tuples)
        except Exception as e:  # noqa
            ctx.hit("route-unavailable:config:" + type(e).__name__)
            continue
        for name, q in tuples:
            try:
                entry = conf.instance.prior_config.for_class_and_suffix_path(cls, [name])
                dq = desc_of_dict(entry)
            except Exception as e:  # noqa
                ctx.hit("route-unavailable:config-entry:" + type(e).__name__)
                continue
            units = [0.0, 1.0, 0.5, rng.random(), rng.random()]
            gate_tie(ctx, f"config({cls.__name__}.{name})", q, dq, cfg, units)


def arith_tie(ctx, d, p, units):
    """IEEE arithmetic on doubles as data (AFModel/DblArith.lean) against the real floats: the four operations on
    sampled pairs, and the arithmetic of the transform stacks around the special functions -
    `1 - 2.0 * (1.0 - u)`, `mean + (sigma * sqrt(2) * inv)`, `t * (U - L) + L` - against the prior's own
    `message.value_for`, given scipy's intermediate values (`erfinv`, `ndtr` called the way the code calls
    them). Bit-exact on the unchanged code; a difference of a few ulp of the operands (a re-association of
    the arithmetic) is counted but is not a disagreement."""
    import autofit.messages.normal as _normal
    import autofit.messages.transform as _transform
    rng = ctx.rng
    k = d["kind"]
    us = rng.sample(units, min(4, len(units)))
    rows, expect = [], []
    f64 = np.float64

    def add_row(op, a, b=0.0, c=0.0, want=None, scale=0.0, what=None):
        rows.append([op, f2h(a), f2h(b), f2h(c)])
        expect.append((what or op, (a, b, c), want, scale))

    pool = [d["lo"], d["hi"], d.get("mean", 0.0), d.get("sigma", 1.0), 0.0, -0.0, 1.0, 2.0, INF, -INF, math.nan,
            5e-324, -5e-324, 1.7976931348623157e308, 2.2250738585072014e-308] + us + \
           [rng.uniform(-1, 1) * 10.0 ** rng.randint(-320, 308) for _ in range(4)]
    with np.errstate(all="ignore"):
        for _ in range(8):
            a, b = rng.choice(pool), rng.choice(pool)
            if rng.random() < 0.3:
                b = a * rng.choice([1.0, -1.0, 1 + 2.0 ** -52, 0.5, 3.0])
            op = rng.choice(["add", "sub", "mul", "div"])
            want = {"add": f64(a) + f64(b), "sub": f64(a) - f64(b), "mul": f64(a) * f64(b),
                    "div": f64(a) / f64(b)}[op]
            add_row(op, a, b, want=float(want))
        for u in us:
            arg = 1 - 2.0 * (1.0 - u)
            add_row("argd", u, want=arg)
            try:
                inv = float(_normal.erfinv(arg))
            except Exception:  # noqa
                continue
            real = call(p.message.value_for, u)
            if isinstance(real, str):
                continue
            if k in "GN" and math.isfinite(d["mean"]) and d["sigma"] > 0:
                tag = "message.value_for = rawGaussianD(erfinv)" if k == "G" else "message.value_for = exp(rawGaussianD(erfinv))"
                add_row("rawg", d["mean"], d["sigma"], inv, want=real,
                        scale=max(abs(d["mean"]), abs(d["sigma"] * 1.5 * inv) if math.isfinite(inv) else 0.0), what=tag)
            elif k == "U":
                z = float(0.0 + (1.0 * np.sqrt(2) * inv))
                add_row("rawg", 0.0, 1.0, inv, want=z, scale=abs(z) if math.isfinite(z) else 0.0,
                        what="NormalMessage(0,1).value_for = rawGaussianD")
                t = float(_transform.ndtr(z))
                add_row("rawu", t, d["lo"], d["hi"], want=real, scale=max(abs(d["lo"]), abs(d["hi"])),
                        what="message.value_for = rawUniformD(ndtr)")
            elif k == "L" and math.isfinite(d["hi"] / d["lo"]):
                z = float(0.0 + (1.0 * np.sqrt(2) * inv))
                add_row("rawg", 0.0, 1.0, inv, want=z, scale=abs(z) if math.isfinite(z) else 0.0,
                        what="NormalMessage(0,1).value_for = rawGaussianD")
                t = float(_transform.ndtr(z))
                scale_, shift_ = float(np.log10(d["hi"] / d["lo"])), float(np.log10(d["lo"]))
                prod = float(f64(t) * f64(scale_))
                add_row("mul", t, scale_, want=prod)
                add_row("add", prod, shift_, want=real, scale=max(abs(prod), abs(shift_)),
                        what="message.value_for = 10**(t*scale+shift)")
    m = ctx.lean.ask({"p": "C02", **wire_prior(d), "us": [], "arith": rows})
    if "driver_error" in m:
        ctx.disagree("driver", {"prior": canon_prior(d)}, None, m.get("driver_error"))
        return
    for (what, args, want, scale), mh in zip(expect, m["arith"]):
        got = h2f(mh)
        slack = 0.0
        if what.endswith("exp(rawGaussianD(erfinv))"):
            # exp turns an absolute difference of its argument into a relative one of the value
            arg_slack = 4 * ulp(max(scale, abs(got))) if math.isfinite(got) else 0.0
            with np.errstate(all="ignore"):
                got = float(np.exp(got))
            slack = abs(want) * arg_slack * 1.01 if math.isfinite(want) else 0.0
            scale = 0.0
        if what.endswith("10**(t*scale+shift)"):
            arg_slack = 4 * ulp(max(scale, abs(got))) if math.isfinite(got) else 0.0
            with np.errstate(all="ignore"):
                got = float(10 ** np.float64(got))
            slack = abs(want) * arg_slack * 2.4 if math.isfinite(want) else 0.0
            scale = 0.0
        if bits_same(got, want) or (got == 0.0 and want == 0.0 and what.startswith("message")):
            ctx.hit("arith:" + what.split("(")[0].split(" ")[0])
            continue
        basic = what in ("add", "sub", "mul", "div", "argd")
        if not basic and got == got and want == want and math.isfinite(got) and math.isfinite(want) \
                and abs(got - want) <= 4 * ulp(max(scale, abs(want))) + slack:
            ctx.hit("arith-reassociated:" + what.split(" ")[0])
            continue
        ctx.disagree("doubles as data: " + what, {"prior": canon_prior(d), "args": [num(x) for x in args]},
                     num(want), num(got))


def rand_dbl_tie(ctx, d, rows, mr):
    """`randomUnitD` (the generic randomUnit at Dbl, IEEE arithmetic as data) = Python's own
    `max(lo, a) + (min(hi, b) - max(lo, a)) * r` (the arithmetic of random.uniform) bit for bit, = the Float run"""
    for row, mh, dh in zip(rows, mr.get("rand", []), mr.get("randD", ["missing"] * len(rows))):
        lo_u, hi_u, a, b, r01 = (h2f(x) for x in row)
        x, y = max(lo_u, a), min(hi_u, b)
        want = x + (y - x) * r01
        got = h2f(dh) if dh != "missing" else math.nan
        if dh == "missing" or not bits_same(got, want) or not bits_same(got, h2f(mh)):
            ctx.disagree("randomUnitD = random.uniform arithmetic", {"prior": canon_prior(d), "row": [num(h2f(v)) for v in row]},
                         num(want), [num(got), num(h2f(mh))])
        else:
            ctx.hit("randD")
        # theorem `randomUnitD_ge_lower` on the real arithmetic: never below the lower end
        if x == x and y == y and x <= y and 0.0 <= r01 and math.isfinite(y - x) and not (want >= x):
            ctx.disagree("random.uniform >= lower end", {"row": [num(h2f(v)) for v in row]}, num(want), num(x))


def one_prior(ctx, d, units=None, seeds=None, cfg=None, label="gen", mp_queue=None):
    cfg = cfg or {"repaired": True}
    rng = ctx.rng
    case0 = {"prior": canon_prior(d)}
    # ---- construction
    try:
        p = build(d)
    except (exc.PriorException, exc.MessageException) as e:
        ctx.hit("ctor-rejected:" + d["kind"])
        ok_reject = (not d["lo"] < d["hi"]) or (d["kind"] == "L" and d["lo"] <= 0) or d.get("sigma", 0) < 0
        if not ok_reject:
            ctx.fail("C02-ctor-rejects-valid", f"constructor rejected valid parameters: {e}", case0)
        ctx.case(case0, nontrivial=False)
        return
    except Exception as e:  # noqa
        ctx.fail("C02-ctor-crash", f"constructor raised {type(e).__name__}", case0)
        return
    if not d["lo"] < d["hi"]:
        ctx.fail("C02-ctor-accepts-invalid", "constructor accepted lower >= upper", case0)
        return
    k = d["kind"]
    L, U = d["lo"], d["hi"]
    ref = Ref(d)
    ratio_overflow = k == "L" and math.isinf(U / L)
    if units is None:
        units = gen_units(rng, d, ref)
    units = sorted(float(u) for u in units)
    case0["units"] = [num(u) for u in units]
    ctx.hit("prior:" + k + ":" + d.get("stream", label))

    # ---- implementation
    raw = [call(p.message.value_for, u) for u in units]
    ctx.notes["unit_evaluations"] = ctx.notes.get("unit_evaluations", 0) + len(units)
    out = [call(p.value_for, u) for u in units]
    ign = [call(p.value_for, u, ignore_prior_limits=True) for u in units]

    def case_u(i):
        return {"prior": canon_prior(d), "units": [num(units[i])], "seeds": []}

    for i, u in enumerate(units):
        for name, x in (("message.value_for", raw[i]), ("value_for", out[i]), ("value_for(ignore)", ign[i])):
            if isinstance(x, str) and x.startswith("exc:"):
                ctx.fail("C02-unexpected-exception", f"{name} raised {x[4:]}", case_u(i), {"unit": num(u)})
        if ign[i] == "limit":
            ctx.fail("C02-limit-not-ignored", "limit exception although limits were explicitly ignored",
                     case_u(i), {"unit": num(u)})
    usable = [i for i in range(len(units)) if not isinstance(raw[i], str)]

    # ---- model
    wp = wire_prior(d)
    idx = usable
    triple = []
    for i in idx:
        u = units[i]
        triple += [u, min(max(u - DELTA, 0.0), 1.0), min(max(u + DELTA, 0.0), 1.0)]
    m = ctx.lean.ask({"p": "C02", "cfg": cfg, "ignore": False, **wp,
                      "us": [f2h(u) for u in triple], "raws": [f2h(raw[i]) for i in idx],
                      "xs": [f2h(out[i]) for i in idx if not isinstance(out[i], str)]})
    m2 = ctx.lean.ask({"p": "C02", "cfg": cfg, "ignore": True, **wp, "us": [],
                       "raws": [f2h(raw[i]) for i in idx]})
    if "driver_error" in m or "driver_error" in m2:
        ctx.disagree("driver", case0, None, m.get("driver_error") or m2.get("driver_error"))
        return

    # ---- correspondence (bit exact): gate + rounding layer
    for j, i in enumerate(idx):
        fin, fin_ign = out_of(m["fin"][j]), out_of(m2["fin"][j])
        if not same(fin, out[i]):
            ctx.disagree("value_for = finish(message.value_for)", case_u(i), num_or(out[i]), num_or(fin))
        else:
            ctx.hit("gate:" + ("limit" if fin == "limit" else "ok"))
        if not same(fin_ign, ign[i]):
            ctx.disagree("value_for(ignore) = finish(message.value_for)", case_u(i), num_or(ign[i]), num_or(fin_ign))

    dbl_layer(ctx, d, p, cfg, m, m2, idx, raw, out, ign, case_u)
    arith_tie(ctx, d, p, units)
    round_tie(ctx, d, p, [raw[i] for i in idx] + [o for o in out if isinstance(o, float)])

    # ---- correspondence (tolerance): transform stack on Float
    for j, i in enumerate(idx):
        r = raw[i]
        m0, mlo, mhi = (h2f(m["raw"][3 * j + t]) for t in range(3))
        if r != r or mlo != mlo or mhi != mhi:
            if not (r != r and m0 != m0):
                if not (ratio_overflow or units[i] in (0.0, 1.0)):
                    ctx.disagree("message.value_for ~ rawValueFor (nan)", case_u(i), num(r), num(m0))
            continue
        a_lo, a_hi = ref.arg_of_val(mlo), ref.arg_of_val(mhi)
        s = max(ref.arg_slack(a_lo, None), ref.arg_slack(a_hi, None)) if a_lo == a_lo and a_hi == a_hi else 0.0
        lo_b = ref.val_of_arg(a_lo - s, -1) if a_lo == a_lo else mlo
        hi_b = ref.val_of_arg(a_hi + s, +1) if a_hi == a_hi else mhi
        if not (lo_b <= r <= hi_b):
            ctx.disagree("message.value_for ~ rawValueFor", case_u(i), num(r), [num(lo_b), num(m0), num(hi_b)])

    # ---- oracle: the property on the real outputs
    n_values = 0
    prev = None
    prev_out = None
    for i, u in enumerate(units):
        o, g, r = out[i], ign[i], raw[i]
        if isinstance(o, str) and o.startswith("exc:"):
            continue
        # (1) inside limits or limit exception
        if not isinstance(o, str):
            if not (L <= o <= U):
                cl = "C02-uniform-round-after-gate" if (k == "U" and not isinstance(r, str) and L <= r <= U) \
                    else "C02-out-of-limits-returned"
                ctx.fail(cl, f"{KINDS[k]}Prior.value_for returned {o!r}, outside its limits [{L!r}, {U!r}]",
                         case_u(i), {"unit": num(u), "value": num(o)})
        elif o == "limit" and not isinstance(g, str):
            # (1b) the exception is only for values outside the limits
            if g == g and L <= g <= U and not isinstance(r, str) and L <= r <= U:
                ctx.fail("C02-spurious-limit-exception",
                         f"{KINDS[k]}Prior.value_for raised the limit exception although the mapped value {g!r} "
                         f"is inside [{L!r}, {U!r}]", case_u(i), {"unit": num(u)})
        # (2) monotone
        if not isinstance(g, str) and g == g:
            if prev is not None and g < prev[1]:
                ctx.fail("C02-not-monotone", f"{KINDS[k]}Prior.value_for is decreasing: "
                         f"u={prev[0]!r}->{prev[1]!r}, u={u!r}->{g!r}",
                         {"prior": canon_prior(d), "units": [num(prev[0]), num(u)], "seeds": []})
            prev = (u, g)
        if not isinstance(o, str) and o == o:
            if prev_out is not None and o < prev_out[1]:
                ctx.fail("C02-not-monotone", f"{KINDS[k]}Prior.value_for is decreasing: "
                         f"u={prev_out[0]!r}->{prev_out[1]!r}, u={u!r}->{o!r}",
                         {"prior": canon_prior(d), "units": [num(prev_out[0]), num(u)], "seeds": []})
            prev_out = (u, o)
        if isinstance(g, str) or g != g:
            continue
        # (4) quantile of the declared distribution
        b = ref.bounds(u)
        interior = 0.0 < u < 1.0
        if b is not None and not ratio_overflow and not (d.get("sigma", 1.0) == 0.0):
            qlo, qhi = b
            if not (qlo <= g <= qhi):
                # unresolvable priors: the slack already spans the support
                # on the unrepaired code the uniform prior's failures are the fixed finding come back
                cl = "C02-uniform-round-after-gate" if (k == "U" and not cfg["repaired"]) else "C02-quantile-mismatch"
                ctx.fail(cl, f"{KINDS[k]}Prior.value_for({u!r}) = {g!r} is not the declared distribution's quantile "
                         f"(expected within [{qlo!r}, {qhi!r}])", case_u(i), {"unit": num(u), "value": num(g)})
            elif interior and math.isfinite(g):
                n_values += 1
            # (4b) a value must be returned where the quantile is comfortably inside the limits
            if o == "limit" and interior and L < qlo and qhi < U:
                ctx.fail("C02-spurious-limit-exception",
                         f"{KINDS[k]}Prior.value_for({u!r}) raised the limit exception although the quantile "
                         f"[{qlo!r}, {qhi!r}] is inside the limits", case_u(i), {"unit": num(u)})
            if mp_queue is not None and interior and len(mp_queue) < 4000 and rng.random() < 0.1:
                mp_queue.append((d, u, g))
        elif ratio_overflow and interior and o == "limit":
            ctx.fail("C02-loguniform-ratio-overflow",
                     f"LogUniformPrior({L!r}, {U!r}).value_for({u!r}) raises: upper/lower overflows", case_u(i))
        # (3) inverted by unit_value_for
        if k in "LN" and not isinstance(o, str) and not (1e-300 < o < 1e300):
            ctx.hit("inverse-skipped-underflow")  # exp / 10** under- or overflowed: no relative precision left
        elif not isinstance(o, str) and math.isfinite(o) and not ratio_overflow and d.get("sigma", 1.0) != 0.0:
            w = ref.cdf_window(o)
            uu = call(p.unit_value_for, o)
            if isinstance(uu, str):
                ctx.fail("C02-unexpected-exception", f"unit_value_for raised {uu}", case_u(i), {"value": num(o)})
            elif w is not None and (w[1] - w[0]) <= 1e-6:
                tol = (w[1] - w[0]) + 2 * DELTA + 2.5e-14 + 1e-11 * min(u, 1.0)
                if uu != uu and (u <= tol or u >= 1 - tol):
                    # the rounding slack of the value reaches past the end of the support, where the CDF
                    # route (clamp epsilon 1e-14) is undefined: outside double resolution
                    ctx.hit("inverse-skipped-end-of-support")
                elif not abs(uu - u) <= tol:
                    ctx.fail("C02-uniform-round-after-gate" if (k == "U" and not cfg["repaired"]) else "C02-not-inverted", f"{KINDS[k]}Prior.unit_value_for(value_for({u!r})) = {uu!r}",
                             case_u(i), {"unit": num(u), "value": num(o), "back": num(uu), "tol": tol})
                else:
                    ctx.hit("inverse-checked")
                    ctx.notes["max_unit_roundtrip_error"] = max(ctx.notes.get("max_unit_roundtrip_error", 0.0),
                                                                abs(uu - u))
            else:
                ctx.hit("inverse-skipped-unresolvable")

    # ---- unit_value_for vs model (tolerance)
    xs = [out[i] for i in idx if not isinstance(out[i], str)]
    for x, mh in zip(xs, m["units"]):
        mu = h2f(mh)
        ru = call(p.unit_value_for, x)
        if isinstance(ru, str):
            continue
        w = ref.cdf_window(x) if math.isfinite(x) else None
        if w is None or (w[1] - w[0]) > 1e-6:
            continue
        edge = w[0] <= (w[1] - w[0]) + 3e-14 or w[1] >= 1 - (w[1] - w[0]) - 3e-14
        if (ru != ru) != (mu != mu) and edge and k in "UL":
            ctx.hit("unit-nan-at-end-of-support")  # coordinate within rounding of the clamp boundary
        elif (ru != ru) != (mu != mu) or (ru == ru and abs(ru - mu) > (w[1] - w[0]) + 2.5e-14 + 1e-11 * abs(ru)):
            ctx.disagree("unit_value_for ~ unitValueFor", {"prior": canon_prior(d), "value": num(x)}, num(ru), num(mu))

    # ---- random draws
    a, b = call(lambda: p.lower_unit_limit), call(lambda: p.upper_unit_limit)
    unit_limit_law(ctx, d, a, b, ratio_overflow)
    if seeds is None:
        seeds = [rng.randrange(2 ** 31) for _ in range(6)]
    rows = []
    sub = []
    for s_i, seed in enumerate(seeds):
        lo_u, hi_u = (0.0, 1.0) if s_i % 2 == 0 else tuple(sorted([round(rng.random(), 3), round(rng.random(), 3)]))
        if isinstance(seed, (list, tuple)):
            seed, lo_u, hi_u = seed
        sub.append((seed, lo_u, hi_u))
        pyrandom.seed(seed)
        r01 = pyrandom.random()
        rows.append([f2h(lo_u), f2h(hi_u), f2h(a if not isinstance(a, str) else math.nan),
                     f2h(b if not isinstance(b, str) else math.nan), f2h(r01)])
    if isinstance(a, str) or isinstance(b, str):
        ctx.fail("C02-unexpected-exception", f"unit limits raised {a} {b}", case0)
    else:
        mr = ctx.lean.ask({"p": "C02", "cfg": cfg, **wp, "us": [], "rand": rows})
        rand_dbl_tie(ctx, d, rows, mr)
        # model's own unit limits vs the implementation's
        for name, real_v, mod_h in (("lower_unit_limit", a, mr["a"]), ("upper_unit_limit", b, mr["b"])):
            mv = h2f(mod_h)
            if d.get("sigma", 1.0) != 0.0 and not ratio_overflow:
                if (real_v != real_v) != (mv != mv) and k in "UL":
                    ctx.hit("unit-nan-at-end-of-support")
                elif (real_v != real_v) != (mv != mv) or (real_v == real_v and abs(real_v - mv) > 3e-14 + 1e-11 * abs(mv)):
                    lim = L if name[0] == "l" else U
                    w = ref.cdf_window(lim) if math.isfinite(lim) and not (k == "N" and lim == 0) else (0, 0)
                    if w is not None and (w[1] - w[0]) <= 1e-6 and not (
                            real_v == real_v and mv == mv
                            and abs(real_v - mv) <= 2 * (w[1] - w[0]) + 3e-14 + 1e-11 * abs(mv)):
                        ctx.disagree(name + " ~ unitValueFor", case0, num(real_v), num(mv))
        for (seed, lo_u, hi_u), mu_h in zip(sub, mr["rand"]):
            rcase = {"prior": canon_prior(d), "units": [], "seeds": [[seed, lo_u, hi_u]]}
            unit = h2f(mu_h)
            pyrandom.seed(seed)
            if (lo_u, hi_u) == (0.0, 1.0):
                v = call(p.random)
            else:
                v = call(p.random, lower_limit=lo_u, upper_limit=hi_u)
            expect = call(p.value_for, unit)
            if not same(v, expect):
                ctx.disagree("random = value_for(randomUnit)", rcase, num_or(v), num_or(expect))
            ctx.hit("random:" + ("limit" if v == "limit" else "ok"))
            if isinstance(v, str):
                if v == "limit":
                    if lo_u > b or hi_u < a or not (max(lo_u, a) <= min(hi_u, b)):
                        ctx.hit("random-empty-interval")
                        continue
                    unresolvable = False
                    if k == "L":
                        unresolvable = (math.log10(U) - math.log10(L)) < 1e-6 or ratio_overflow
                    if k == "U":
                        unresolvable = (U - L) <= 2 ** 20 * ulp(max(abs(L), abs(U)))
                    if k in "GN" and d["sigma"] > 0:
                        span = 2 ** 20 * (ulp(abs(d["mean"])) / d["sigma"])
                        unresolvable = span > 1e-3
                    if ratio_overflow:
                        ctx.fail("C02-loguniform-ratio-overflow",
                                 f"LogUniformPrior({L!r}, {U!r}).random() raises: upper/lower overflows", rcase)
                    elif unresolvable:
                        ctx.hit("random-unresolvable-skip")
                    else:
                        ctx.fail(classify_random_exception(d, a, b),
                                 f"{KINDS[k]}Prior.random() raised the limit exception instead of returning a draw "
                                 f"(unit limits [{a!r}, {b!r}])", rcase)
                else:
                    ctx.fail("C02-unexpected-exception", f"random raised {v}", rcase)
            elif not (L <= v <= U):
                cl = "C02-uniform-round-after-gate" if k == "U" and not cfg["repaired"] else "C02-random-out-of-limits"
                ctx.fail(cl, f"{KINDS[k]}Prior.random() returned {v!r}, outside [{L!r}, {U!r}]", rcase)
            elif (lo_u, hi_u) != (0.0, 1.0) and not ratio_overflow and d.get("sigma", 1.0) != 0.0:
                # a draw restricted to unit interval [lo_u, hi_u] lies between the corresponding quantiles
                b0, b1 = ref.bounds(max(lo_u, 0.0)), ref.bounds(min(hi_u, 1.0))
                if b0 is not None and b1 is not None and not (b0[0] <= v <= b1[1]):
                    w = ref.cdf_window(v) if math.isfinite(v) else None
                    if w is not None and (w[1] - w[0]) <= 1e-6 and not (w[0] - 3e-14 <= hi_u and lo_u <= w[1] + 3e-14):
                        ctx.fail("C02-random-ignores-unit-interval",
                                 f"{KINDS[k]}Prior.random({lo_u}, {hi_u}) returned {v!r}, outside the quantiles of "
                                 "the requested unit interval", rcase)

    # ---- unit carriers: a unit handed over as a numpy scalar of another width, or inside an ndarray
    # (single-precision unit cubes of samplers), is the same number and must map to the same quantile
    import numpy as np
    for q in (0.125, 0.25, 0.375, 0.625, 0.8125):
        base = call(p.value_for, q, ignore_prior_limits=True)
        if not isinstance(base, float) or base != base or math.isinf(base):
            continue
        scale = (abs(base) + (d.get("sigma", 0.0) if k in "GN" else 0.0) + (abs(U - L) if k == "U" else 0.0)) + 1e-300
        # scipy's erfinv answers in the carrier's own precision
        for cname, carrier, rel in (("float32", np.float32(q), 1e-5), ("float16", np.float16(q), 5e-3),
                                    ("float64", np.float64(q), 1e-9), ("array64", np.array([q, q]), 1e-9),
                                    ("array32", np.array([q], dtype=np.float32), 1e-5)):
            tol = rel * scale
            try:
                got = p.value_for(carrier, ignore_prior_limits=True)
                got = float(np.asarray(got, dtype=float).ravel()[0])
            except Exception as e:  # noqa
                ctx.hit("carrier-rejected:" + cname + ":" + type(e).__name__)
                continue
            ctx.hit("carrier:" + cname)
            if not abs(got - base) <= tol:
                ctx.fail("C02-unit-carrier",
                         f"{KINDS[k]}Prior.value_for({cname}({q})) = {got!r} but value_for({q}) = {base!r}: the same "
                         "unit value maps to a different physical value when carried by " + cname,
                         {"prior": canon_prior(d), "units": [num(q)], "carrier": cname}, {"got": num(got), "want": num(base)})

    # ---- derived priors: a prior made from a used one (with_message as expectation propagation does, new())
    # behaves like a freshly constructed prior with the same parameters - nothing computed for the parent
    # (unit limits, draws) may stick to it
    d2 = dict(d)
    if k in "GN" and d.get("sigma", 0.0) > 0 and math.isfinite(d["mean"]):
        d2["mean"] = d["mean"] + d["sigma"] * rng.choice([-2.0, 0.5, 3.0])
        d2["sigma"] = d["sigma"] * rng.choice([0.5, 1.0, 2.0])
    try:
        fresh = build(d2)
        _ = (p.lower_unit_limit, p.upper_unit_limit)
        derived = [("with_message", p.with_message(fresh.message), fresh), ("new", p.new(), p)]
        if k == "U" and math.isfinite(L) and math.isfinite(U) and L + 0.25 * (U - L) < L + 0.75 * (U - L):
            # tightened limits (prior passing, sensitivity cells): the uniform prior on the new limits
            lo2, hi2 = L + 0.25 * (U - L), L + 0.75 * (U - L)
            derived.append(("with_limits", p.with_limits(lo2, hi2), build(dict(d, lo=lo2, hi=hi2))))
    except Exception as e:  # noqa
        ctx.hit("derived-unavailable:" + type(e).__name__)
        derived = []
    for how, q, ref_p in derived:
        ctx.hit("derived:" + how)
        probes = [0.0, 1.0, 0.5, 0.25, rng.random(), rng.random()]
        got = [num_or(call(q.value_for, u)) for u in probes] + [num_or(call(lambda: q.lower_unit_limit)), num_or(call(lambda: q.upper_unit_limit))]
        want = [num_or(call(ref_p.value_for, u)) for u in probes] + [num_or(call(lambda: ref_p.lower_unit_limit)), num_or(call(lambda: ref_p.upper_unit_limit))]
        sd = rng.randrange(1 << 30)
        pyrandom.seed(sd)
        got.append(num_or(call(q.random)))
        pyrandom.seed(sd)
        want.append(num_or(call(ref_p.random)))
        if got != want:
            ctx.fail("C02-derived-prior-differs",
                     f"a prior derived by {how}() from a used prior does not behave like a fresh prior with the same parameters "
                     "(value_for / unit limits / random with the same generator state)",
                     {"prior": canon_prior(d), "derived": canon_prior(d2), "how": how, "units": [num(u) for u in probes]},
                     {"got": got, "want": want})

    if label != "gen" or rng.random() < 0.4:
        route_tie(ctx, d, p, cfg)
    case0["seeds"] = [list(s) for s in sub]
    ctx.case(case0, nontrivial=n_values >= 3,
             sample={"prior": canon_prior(d), "units": [num(u) for u in units[:6]],
                     "values": [num_or(o) for o in out[:6]]})
    return p


def num_or(x):
    return x if isinstance(x, str) else num(x)


# ---------------------------------------------------------------------------------------------
# model level: vector_from_unit_vector


def model_level(ctx, ds):
    rng = ctx.rng
    priors = []
    for d in ds:
        try:
            priors.append((d, build(d)))
        except Exception:  # noqa
            pass
    if len(priors) < 2:
        return
    if rng.random() < 0.5:
        model = af.Collection(**{f"p{i}": p for i, (_, p) in enumerate(priors)})
    else:
        import vlib
        priors = priors[:3]
        names = ["a", "b", "c"][: len(priors)]
        model = af.Model(vlib.P3, **{n: p for n, (_, p) in zip(names, priors)})
    ordered = sorted(priors, key=lambda dp: dp[1].id)
    for ignore in (False, True):
        units = [rng.choice([rng.random(), rng.random(), 0.0, 1.0, 1e-9]) for _ in ordered]
        case = {"model": [canon_prior(d) for d, _ in ordered], "units": [num(u) for u in units], "ignore": ignore}
        want = [call(p.value_for, u, ignore_prior_limits=ignore) for (_, p), u in zip(ordered, units)]
        try:
            got = [float(x) for x in model.vector_from_unit_vector(units, ignore_prior_limits=ignore)]
        except exc.PriorLimitException:
            got = "limit"
        except Exception as e:  # noqa
            got = "exc:" + type(e).__name__
        ctx.hit("model-level:" + ("limit" if got == "limit" else "ok"))
        if "limit" in want:
            ok = got == "limit"
        else:
            ok = isinstance(got, list) and len(got) == len(want) and all(same(x, y) for x, y in zip(got, want))
        if not ok:
            ctx.fail("C02-model-vector-from-unit-vector",
                     "model.vector_from_unit_vector differs from the priors' value_for in id order", case,
                     {"got": got if isinstance(got, str) else [num(x) for x in got], "want": [num_or(x) for x in want]})
        ctx.case(case, nontrivial=isinstance(got, list), sample=None)


# ---------------------------------------------------------------------------------------------
# mpmath oracle (thorough tier; tooling venv)

MP_SCRIPT = r"""
import sys, json
from mpmath import mp, mpf, erfinv, sqrt, log10, exp, power
mp.dps = 40
out = []
for k, lo, hi, mean, sigma, u in json.load(sys.stdin):
    u = mpf(u)
    if k == "U":
        q = mpf(lo) + u * (mpf(hi) - mpf(lo))
    elif k == "L":
        q = power(10, log10(mpf(lo)) + u * (log10(mpf(hi)) - log10(mpf(lo))))
    else:
        z = sqrt(2) * erfinv(2 * u - 1)
        q = mpf(mean) + mpf(sigma) * z
        if k == "N":
            q = exp(q)
    out.append(float(q))
json.dump(out, sys.stdout)
"""


def mp_check(ctx, queue):
    """scipy-independent confirmation of the reference quantile on a sample of the explored points"""
    if not queue:
        return
    rows = [[d["kind"], d["lo"] if math.isfinite(d["lo"]) else 0.0, d["hi"] if math.isfinite(d["hi"]) else 0.0,
             d.get("mean", 0.0), d.get("sigma", 0.0), u] for d, u, g in queue]
    try:
        p = subprocess.run(["python3-vt", "-c", MP_SCRIPT], input=json.dumps(rows), capture_output=True,
                           text=True, timeout=300)
        qs = json.loads(p.stdout)
    except Exception as e:  # noqa
        ctx.notes["mpmath_oracle"] = f"unavailable ({type(e).__name__})"
        return
    n_bad = 0
    for (d, u, g), q in zip(queue, qs):
        ref = Ref(d)
        b = ref.bounds(u)
        if b is None:
            continue
        # the mp quantile at u must itself lie within the reference window, and so must the value
        if not (b[0] <= q <= b[1]):
            n_bad += 1
        if not (b[0] <= g <= b[1]):
            ctx.fail("C02-quantile-mismatch", "value differs from the mpmath quantile",
                     {"prior": canon_prior(d), "units": [num(u)], "seeds": []}, {"mp": num(q), "value": num(g)})
    ctx.notes["mpmath_oracle"] = {"points": len(qs), "reference_outside_window": n_bad}
    if n_bad:
        ctx.disagree("reference quantile (scipy) vs mpmath", {"n": n_bad}, None, None)


# ---------------------------------------------------------------------------------------------


def load_case(c):
    d = {k: (unnum(v) if k != "kind" else v) for k, v in c["prior"].items()}
    units = [unnum(u) for u in c.get("units", [])] or None
    seeds = [tuple([int(s[0]), unnum(s[1]), unnum(s[2])]) if isinstance(s, list) else int(s)
             for s in c.get("seeds", [])]
    return d, units, seeds


def run(ctx):
    ctx.rule = RULE
    ctx.assumptions = ASSUMPTIONS
    np.seterr(all="ignore")
    cfg = probe_flags(ctx)
    state = pyrandom.getstate()
    try:
        for f in sorted((VERIF / "corpus" / "C02").glob("*.json")):
            c = json.loads(f.read_text())
            d, units, seeds = load_case(c)
            d["stream"] = "corpus"
            one_prior(ctx, d, units, seeds if seeds else None, cfg=cfg, label=f.name)
        config_route(ctx, cfg)
        n = ctx.n(500, 10000)
        mp_queue = [] if ctx.tier == "thorough" else None
        recent = []
        for i in range(n):
            d = gen_prior(ctx.rng)
            one_prior(ctx, d, cfg=cfg, mp_queue=mp_queue)
            recent.append(d)
            if len(recent) == 4:
                model_level(ctx, recent)
                recent = []
        if mp_queue is not None:
            mp_check(ctx, mp_queue)
    finally:
        pyrandom.setstate(state)
    ctx.notes["numerical_tests"] = (
        "monotonicity, inversion and quantile agreement on the real outputs are tests (oracle), labelled as such; "
        "the theorems state them for exact arithmetic"
    )


def replay(ctx, payload):
    np.seterr(all="ignore")
    case = payload.get("case") or payload.get("disagreements", [{}])[0].get("case")
    cfg = probe_flags(ctx)
    if "model" in case:
        ds = [{k: (unnum(v) if k != "kind" else v) for k, v in c.items()} for c in case["model"]]
        model_level(ctx, ds)
        return
    if not isinstance(case, dict) or "prior" not in case:
        print(json.dumps({"replay": "no single prior in this replay file", "case": case}, default=str))
        return
    d, units, seeds = load_case(case)
    if "value" in case and not units:
        units = None
    one_prior(ctx, d, units, seeds or None, cfg=cfg, label="replay")
    if units:
        m = ctx.lean.ask({"p": "C02", "cfg": cfg, "ignore": False, **wire_prior(d), "us": [f2h(u) for u in units]})
        print(json.dumps({
            "units": [num(u) for u in units],
            "impl": {"value_for": [num_or(call(build(d).value_for, u)) for u in units],
                     "message.value_for": [num_or(call(build(d).message.value_for, u)) for u in units]},
            "model": {"valueFor": [o if o == "limit" else num(h2f(o)) for o in m.get("out", [])],
                      "rawValueFor": [num(h2f(x)) for x in m.get("raw", [])], "cfg": cfg},
        }, default=str))
