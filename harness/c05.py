"""C05 — reported samples are faithful to the likelihood.

Two streams, both through the REAL code:

* conversion level (many, cheap): generated model (C01 program generator: shared / fixed / nested / tuple
  parameters) x sampler-internal arrays that satisfy the sampler's contract for a deterministic likelihood
  -> the search's own `samples_via_internal_from` / `samples_from` -> `Samples`, `summary()`, `Result`;
* real fits (a handful): `search.fit(model, analysis)` for every search class that runs here
  (DynestyStatic / DynestyDynamic with pool, without pool and with 2 cores, Emcee, LBFGS / BFGS with and
  without history, PySwarmsGlobal / Local, Drawer), the internal arrays are read from the returned
  `result.search_internal`.

For each: the Lean model (`AFModel/SamplesConv.lean`) converts the same arrays -> sample lists, best
sample, best instance are diffed; the oracle re-states the property on the real outputs (likelihood
re-evaluated at every returned sample through two instance routes, own log-prior formulas, posterior,
weights, maximum, best instance)."""
import json
import math
import os
import random as pyrandom
import sys
import time
from types import SimpleNamespace

import numpy as np

import common
from common import f2h, h2f, close, VERIF
import gen_comp
import extract_comp as X

import autofit as af
from autofit.non_linear.fitness import Fitness
from autofit.non_linear.search.mcmc.auto_correlations import AutoCorrelationsSettings

RULE = (
    "C01 program generator (nested Model/Collection, shared priors, constants, tuple members; 1-5 free "
    "parameters; Uniform/LogUniform/Gaussian/LogGaussian priors) x deterministic weighted-quadratic likelihood "
    "of all instance leaves x {dynesty, emcee, pyswarms, bfgs, bfgs-history, drawer, initializer} internal "
    "arrays satisfying the sampler contract (ties in the likelihood, thinning/burn-in from AR(1) chains and "
    "test mode) + real fits of every search class that runs here (1 and 2 cores); non-trivial = at least 2 "
    "free parameters and at least 2 samples; distinct = hash of composition + arrays; growth (harness/c05_more.py): the same x "
    "{nautilus, ultranest, zeus} conversions on stand-in sampler objects (both flattening orders) and, on the sample lists of every "
    "conversion / fit and on directly built lists (NaN, infinite, tied likelihoods; zero and tiny weights), weight sums, weight "
    "threshold, minimise, with_paths / without_paths (prefixes, whole paths, over-long paths, unknown names)"
)

K_PYSWARMS = "C05-pyswarms-best-cost-vs-particle0"
K_MULTICORE = "C05-multicore-initializer-order"

# ---------------------------------------------------------------------------------------------
# likelihood: a deterministic function of every float leaf of the instance


def leaves(x, path=()):
    """float leaves of an instance in a deterministic order (own walker, independent of the library)"""
    if isinstance(x, (bool, np.bool_)) or x is None or isinstance(x, (str, int, np.integer)):
        return
    if isinstance(x, (float, np.floating)):
        yield path, float(x)
        return
    if isinstance(x, np.ndarray):
        for j, v in enumerate(x.reshape(-1)):
            yield path + (str(j),), float(v)
        return
    if isinstance(x, (tuple, list)):
        for j, v in enumerate(x):
            yield from leaves(v, path + (str(j),))
        return
    if isinstance(x, dict):
        for k in sorted(x, key=str):
            yield from leaves(x[k], path + (str(k),))
        return
    d = getattr(x, "__dict__", None)
    if d is not None:
        for k in sorted(k for k in d if isinstance(k, str) and not k.startswith("_") and k not in X.INST_INERT):
            yield from leaves(d[k], path + (k,))


class QuadAnalysis(af.Analysis):
    """-0.5 * sum_k w_k ((x_k - c_k)/s_k)^2 - 0.05 z_0 z_1 over the float leaves x_k of the instance"""

    def __init__(self, centres, scales, weights, quant=0.0, hard=False):
        self.hard = bool(hard)  # a curved valley (quartic coupling): optimisers need many iterations
        self.centres = list(centres)
        self.scales = list(scales)
        self.weights = list(weights)
        # quant > 0: piecewise constant likelihood, so that distinct parameter rows tie (first maximum)
        self.quant = float(quant)

    def value(self, xs):
        if len(xs) != len(self.centres):
            return float("nan")
        z = [(x - c) / s for x, c, s in zip(xs, self.centres, self.scales)]
        q = sum(w * t * t for w, t in zip(self.weights, z))
        if len(z) >= 2:
            q += 0.1 * z[0] * z[1]
        if self.hard:
            q += sum(3.0 * (z[i + 1] - z[i] * z[i]) ** 2 for i in range(len(z) - 1))
        if self.quant > 0.0:
            q = math.floor(q / self.quant) * self.quant
        return -0.5 * q

    # ids of the objects the model itself holds (None: the analysis leaves its instance alone). An analysis is free to
    # work on the instance it is given in place; what the result reports is built from the samples, not from an
    # instance some hook was handed earlier
    scramble_held = None

    def log_likelihood_function(self, instance):
        v = self.value([v for _, v in leaves(instance)])
        if self.scramble_held is not None:
            import c01
            c01._scramble(instance, self.scramble_held, set())
        return v

    def spec(self):
        return {"centres": self.centres, "scales": self.scales, "weights": self.weights, "quant": self.quant, "hard": self.hard}


def make_analysis(rng, model, spec=None, quant=0.0, hard=False):
    if spec is not None:
        return QuadAnalysis(spec["centres"], spec["scales"], spec["weights"], spec.get("quant", 0.0), spec.get("hard", False))
    n = model.prior_count
    lo = [v for _, v in leaves(model.instance_from_unit_vector([0.3] * n, ignore_prior_limits=True))]
    hi = [v for _, v in leaves(model.instance_from_unit_vector([0.7] * n, ignore_prior_limits=True))]
    centres, scales, weights = [], [], []
    for a, b in zip(lo, hi):
        t = rng.uniform(0.2, 0.8)
        centres.append(a + t * (b - a))
        s = abs(b - a)
        scales.append(s if s > 1e-12 and math.isfinite(s) else 1.0)
        weights.append(rng.choice([0.5, 1.0, 2.0, 3.5]))
    return QuadAnalysis(centres, scales, weights, quant, hard)


# ---------------------------------------------------------------------------------------------
# models


def gen_model(ctx, prog=None, min_free=1):
    """(program, model) with min_free..5 free parameters on which the likelihood is finite"""
    rng = ctx.rng
    for _ in range(2000):
        p = prog or gen_comp.gen_program(rng, max_priors=4, allow_arith=False, allow_array=False,
                                         allow_extra=False, allow_tuple=True)
        try:
            H = gen_comp.run_program(p)
            model = H["root"]
            n = model.prior_count
            if not (min_free <= n <= 5):
                raise ValueError("size")
            inst = model.instance_from_unit_vector([0.5] * n, ignore_prior_limits=True)
            xs = [v for _, v in leaves(inst)]
            if not xs or not all(math.isfinite(v) for v in xs):
                raise ValueError("leaves")
            return p, model
        except Exception:
            ctx.hit("program-rejected")
            if prog is not None:
                raise
    raise RuntimeError("no usable model generated")


def wire_priors(model):
    out = []
    for p in model.priors_ordered_by_id:
        d = X.prior_node(p)
        out.append({k: d[k] for k in ("kind", "mean", "sigma") if k in d})
    return out


def own_log_prior(p, v):
    """`log_prior_from_value` restated (C04 ties the library's formulas); used by the oracle"""
    try:
        return _own_log_prior(p, v)
    except OverflowError:  # Python floats raise where the library's numpy scalars give inf
        return math.inf
    except ZeroDivisionError:
        return math.inf if v == 0 and not math.copysign(1.0, v) < 0 else -math.inf


def _own_log_prior(p, v):
    kind = type(p).__name__
    if kind == "UniformPrior":
        return 0.0
    if kind == "LogUniformPrior":
        return 1.0 / v
    if kind == "GaussianPrior":
        return (v - p.mean) ** 2.0 / (2 * p.sigma ** 2.0)
    if kind == "LogGaussianPrior":
        if v <= 0:
            return -math.inf
        return (math.log(v) - p.mean) ** 2.0 / (2 * p.sigma ** 2.0) - math.log(v)
    return float("nan")


def random_row(rng, model, spread=1.0):
    """a physical vector from the central part of every prior"""
    u = [0.5 + spread * (rng.random() - 0.5) * 0.8 for _ in range(model.prior_count)]
    return [float(x) for x in model.vector_from_unit_vector(u, ignore_prior_limits=True)]


def true_ll(model, analysis, row):
    return float(analysis.log_likelihood_function(model.instance_from_vector(list(row), ignore_prior_limits=True)))


def lib_prior_sum(model, row):
    return sum(model.log_prior_list_from_vector(vector=list(row)))


# ---------------------------------------------------------------------------------------------
# reading real outputs


def hexrow(r):
    return [f2h(x) for x in r]


def dump_samples(model, samples):
    """the reported samples: values keyed by `unique_prior_paths` (what `Sample.from_lists` stored)"""
    keys = [tuple(p) for p in model.unique_prior_paths]
    out = []
    for s in samples.sample_list:
        kw = s.kwargs
        if set(kw.keys()) != set(keys):
            out.append({"bad_keys": sorted(map(str, kw.keys()))})
            continue
        out.append({
            "params": [float(kw[k]) for k in keys],
            "ll": float(s.log_likelihood), "lp": float(s.log_prior), "w": float(s.weight),
            "post": float(s.log_posterior),
        })
    return out


def tol_close(a, b, scale):
    if a == b or (a != a and b != b):
        return True
    if math.isinf(a) or math.isinf(b):
        return False
    return abs(a - b) <= 1e-11 * (scale + 1.0) or close(a, b, ulps=8)


def compare(ctx, kind, case, real, ans, model, samples, result):
    """C of DESIGN §0: model(x) = canon(impl(x))"""
    if "driver_error" in ans:
        ctx.disagree(f"{kind}:driver", case, None, ans)
        return False
    if "err" in ans:
        ctx.disagree(f"{kind}:model-raises", case, f"{len(real)} samples", ans)
        return False
    ms = ans["samples"]
    ok = True
    if len(ms) != len(real):
        ctx.disagree(f"{kind}:sample-count", case, len(real), len(ms))
        return False
    for k, (r, m) in enumerate(zip(real, ms)):
        if "bad_keys" in r:
            ctx.disagree(f"{kind}:keys", case, r, m)
            return False
        if hexrow(r["params"]) != m["params"]:
            ctx.disagree(f"{kind}:params", case, {"i": k, "params": r["params"]}, [h2f(x) for x in m["params"]])
            ok = False
            break
        scale = abs(r["ll"]) + abs(r["lp"])
        for f in ("ll", "lp", "w", "post"):
            if not tol_close(r[f], h2f(m[f]), scale):
                ctx.disagree(f"{kind}:{f}", case, {"i": k, f: r[f]}, h2f(m[f]))
                ok = False
                break
        if not ok:
            break
    if not ok:
        return False
    return True


def compare_best(ctx, kind, case, real, ans, model, samples, result):
    """second stage: the model's `maxSample` / `bestInstance` on the sample list the implementation reported
    (bit-identical input, exact comparison)"""
    if "driver_error" in ans or "err" in ans:
        ctx.disagree(f"{kind}:driver-best", case, None, ans)
        return False
    ok = True
    mb = ans.get("best")
    if real:
        best = samples.max_log_likelihood_sample
        keys = [tuple(p) for p in model.unique_prior_paths]
        rb = {"params": hexrow([best.kwargs[k] for k in keys]), "ll": f2h(float(best.log_likelihood))}
        if mb is None or mb["params"] != rb["params"] or mb["ll"] != rb["ll"]:
            ctx.disagree(f"{kind}:best-sample", case, rb, mb)
            ok = False
        if result is not None:
            if mb is not None and f2h(float(result.log_likelihood)) != mb["ll"]:
                ctx.disagree(f"{kind}:result-log-likelihood", case, float(result.log_likelihood), h2f(mb["ll"]))
                ok = False
            if ans.get("keys_ok") is not True:
                ctx.disagree(f"{kind}:keys-guard", case, "keysOK expected", ans.get("keys_ok"))
                ok = False
            ri = X.canon_inst(X.inst_of(result.instance))
            mi = X.canon_inst(ans["inst"]) if ans.get("inst") is not None else {"k": "none"}
            d = X.inst_diff(ri, mi)
            if d:
                ctx.disagree(f"{kind}:best-instance", case, str(d)[:300], None)
                ok = False
            rv = samples.max_log_likelihood(as_instance=False)
            if ans.get("vector") != hexrow(rv):
                ctx.disagree(f"{kind}:best-vector", case, list(map(float, rv)), ans.get("vector"))
                ok = False
    elif mb is not None:
        ctx.disagree(f"{kind}:best-sample", case, None, mb)
        ok = False
    return ok


def oracle(ctx, kind, case, model, analysis, samples, result, cores=1, partial_known=None):
    """O of DESIGN §0: the property sentence on the real outputs (independent of the Lean model).
    returns the number of unfaithful samples"""
    priors = list(model.priors_ordered_by_id)
    keys = [tuple(p) for p in model.unique_prior_paths]
    plists = samples.parameter_lists
    bad_ll, bad_true, bad_rep = [], [], []
    lls = []
    for k, s in enumerate(samples.sample_list):
        if set(s.kwargs.keys()) != set(keys):
            ctx.fail(f"C05-{kind}-sample-keys", f"{kind}: a sample is not keyed by the model's unique prior paths", case,
                     {"i": k, "keys": sorted(map(str, s.kwargs))})
            return -1
        row = [float(s.kwargs[p]) for p in keys]
        if [float(x) for x in plists[k]] != row:
            ctx.fail(f"C05-{kind}-parameter-lists", f"{kind}: samples.parameter_lists disagrees with the sample's own values",
                     case, {"i": k, "kwargs": row, "parameter_lists": list(map(float, plists[k]))})
            return -1
        ll = float(s.log_likelihood)
        lls.append(ll)
        inside = all(p.lower_limit <= x <= p.upper_limit for p, x in zip(priors, row))
        if not inside:
            ctx.hit("oracle:sample-outside-prior-limits")
        # two routes from the sample to an instance; both must evaluate to the reported likelihood
        t1 = float(analysis.log_likelihood_function(s.instance_for_model(model, ignore_assertions=True)))
        t2 = float(analysis.log_likelihood_function(model.instance_from_vector(row, ignore_prior_limits=True)))
        if not (t1 == t2 or (t1 != t1 and t2 != t2) or abs(t1 - t2) <= 1e-12 * (1 + abs(t1))):
            ctx.fail(f"C05-{kind}-instance-routes", f"{kind}: instance by path and by vector differ for a sample", case,
                     {"i": k, "by_path": t1, "by_vector": t2})
            return -1
        lp_true = sum(own_log_prior(p, x) for p, x in zip(priors, row))
        tol = 1e-9 * (1 + abs(t1) + abs(lp_true))
        if not inside and (ll == float("-inf") or ll <= -1e98):
            # a point outside the prior limits (an optimiser is free to end there): the library does not evaluate the
            # likelihood at such a point but reports its designated resample value (C04's subject)
            ctx.hit("oracle:sample-outside-prior-limits-carries-resample-value")
        elif not near(ll, t1, tol):
            bad_ll.append(k)
            bad_true.append(t1)
            bad_rep.append(ll)
        if not near(float(s.log_prior), lp_true, tol) and kind != "pyswarms":
            ctx.fail(f"C05-{kind}-log-prior", f"{kind}: a sample's log-prior is not the log-prior of its parameter values",
                     case, {"i": k, "reported": float(s.log_prior), "recomputed": lp_true, "row": row})
        if not near(float(s.log_posterior), ll + float(s.log_prior), 1e-12 * (1 + abs(ll) + abs(float(s.log_prior)))):
            ctx.fail(f"C05-{kind}-posterior", f"{kind}: log_posterior is not log_likelihood + log_prior", case, {"i": k})
        w = float(s.weight)
        if not (w >= 0.0):
            ctx.fail(f"C05-{kind}-negative-weight", f"{kind}: a sample weight is negative or NaN", case, {"i": k, "w": w})
    n = len(lls)
    if bad_ll:
        detail = {"unfaithful": len(bad_ll), "of": n, "first": bad_ll[:5], "reported": bad_rep[:5], "recomputed": bad_true[:5]}
        if kind == "pyswarms":
            classifier = K_PYSWARMS
        elif cores > 1 and not ctx.notes.get("pool_map_ordered", False) and permutation_of(bad_rep, bad_true):
            # only while the pool is observed to yield in arrival order, and only a pure permutation
            classifier = K_MULTICORE
        else:
            classifier = f"C05-{kind}-likelihood-mismatch"
        ctx.fail(classifier, f"{kind}: {len(bad_ll)} of {n} samples carry a likelihood that is not the likelihood of their "
                 "parameter values", case, detail)
    if kind == "pyswarms" and partial_known is not None:
        partial_known(samples)
    # best fit
    if n:
        mx = max(lls)
        best = samples.max_log_likelihood_sample
        if float(best.log_likelihood) != mx:
            ctx.fail(f"C05-{kind}-best-not-max", f"{kind}: max_log_likelihood_sample is not a maximum of the samples", case,
                     {"best": float(best.log_likelihood), "max": mx})
        first = lls.index(mx)
        if samples.sample_list[first] is not best and [float(best.kwargs[p]) for p in keys] != [
                float(samples.sample_list[first].kwargs[p]) for p in keys]:
            ctx.fail(f"C05-{kind}-best-not-first", f"{kind}: the best sample is not the first maximum", case,
                     {"first": first})
        if result is not None:
            if float(result.log_likelihood) != mx:
                ctx.fail(f"C05-{kind}-result-ll-not-max", f"{kind}: result.log_likelihood is not the maximum over result.samples",
                         case, {"result": float(result.log_likelihood), "max": mx})
            ss = result.samples_summary
            if float(ss.max_log_likelihood_sample.log_likelihood) != mx:
                ctx.fail(f"C05-{kind}-summary-ll-not-max", f"{kind}: samples_summary's best likelihood is not the maximum", case,
                         {"summary": float(ss.max_log_likelihood_sample.log_likelihood), "max": mx})
            brow = [float(best.kwargs[p]) for p in keys]
            want = dict(leaves(model.instance_from_vector(brow, ignore_prior_limits=True)))
            for nm, inst in (("result.instance", result.instance), ("samples_summary.instance", ss.instance)):
                got = dict(leaves(inst))
                if got != want:
                    ctx.fail(f"C05-{kind}-best-instance", f"{kind}: {nm} is not the instance of the maximising sample", case,
                             {"got": {'.'.join(k): v for k, v in list(got.items())[:6]},
                              "want": {'.'.join(k): v for k, v in list(want.items())[:6]}})
                    break
    return len(bad_ll)


def near(a, b, tol):
    if a == b or (a != a and b != b):
        return True
    if math.isinf(a) or math.isinf(b):
        return False  # an infinite tolerance (scaled by an infinite value) must not equate inf with a number
    return abs(a - b) <= tol


def permutation_of(reported, true):
    """the reported likelihoods of the unfaithful samples are a permutation of their true likelihoods"""
    a, b = sorted(reported), sorted(true)
    return len(a) == len(b) and all(x == y or abs(x - y) <= 1e-9 * (1 + abs(y)) for x, y in zip(a, b))


# ---------------------------------------------------------------------------------------------
# conversion-level cases (synthetic internal arrays satisfying the sampler contract)


def finish_case(ctx, kind, case, req, model, analysis, samples, search, internal, cores=1, result=None,
                partial_known=None):
    real = dump_samples(model, samples)
    if result is None:
        try:
            result = analysis.make_result(samples_summary=samples.summary(), paths=search.paths, samples=samples,
                                          search_internal=internal)
        except Exception as e:  # no summary / result could be built from the converted samples
            ctx.disagree(f"{kind}:summary-raises", case, f"{type(e).__name__}: {str(e)[:200]}", "a result with a best fit")
    req = dict(req)
    req.update({"p": "C05", "priors": wire_priors(model)})
    comp = X.node_of(model)
    ans = ctx.lean.ask(req)
    compare(ctx, kind, case, real, ans, model, samples, result)
    if not any("bad_keys" in r for r in real):
        ans2 = ctx.lean.ask({"p": "C05", "q": "samples", "comp": comp, "samples": [
            {"params": hexrow(r["params"]), "ll": f2h(r["ll"]), "lp": f2h(r["lp"]), "w": f2h(r["w"])} for r in real]})
        try:
            compare_best(ctx, kind, case, real, ans2, model, samples, result)
        except Exception as e:
            ctx.disagree(f"{kind}:best-fit-access-raises", case, f"{type(e).__name__}: {str(e)[:200]}", ans2.get("best"))
    try:
        nbad = oracle(ctx, kind, case, model, analysis, samples, result, cores=cores, partial_known=partial_known)
    except Exception as e:
        nbad = -1
        import traceback
        tb = traceback.format_exc()
        if os.environ.get("VERIF_DEBUG"):
            print(tb, file=sys.stderr)
        if f'File "{common.REPO}/' not in tb:
            raise  # nothing of the implementation on the stack: not a property-level verdict (run.py reports a broken tie)
        ctx.fail(f"C05-{kind}-result-unusable", f"{kind}: reading the samples / best fit of the returned result raises "
                 f"{type(e).__name__}", case, {"error": f"{type(e).__name__}: {str(e)[:300]}"})
    nontrivial = model.prior_count >= 2 and len(real) >= 2
    ctx.case({"kind": kind, "req": req, "comp": comp}, nontrivial=nontrivial,
             sample={"kind": kind, "mode": case.get("mode"), "parameters": model.prior_count, "samples": len(real),
                     "program": gen_comp.program_text(case["program"])[:300]})
    ctx.hit(f"{case.get('mode')}:{kind}")
    ctx.hit(f"free-parameters:{min(model.prior_count, 5)}")
    if len(model.paths) > model.prior_count:
        ctx.hit("model:shared-prior")
    if kind not in c05_more.KINDS and nbad >= 0 and (case.get("mode") == "fit" or ctx.rng.random() < (0.5 if ctx.tier == "quick" else 0.25)):
        if kind == "dynesty":
            c05_more.weight_sum_check(ctx, kind, case, samples, normalised=True)
        c05_more.xform_check(ctx, kind, case, model, samples)
    return nbad


def tie_some(rng, rows):
    """duplicate a few rows so that the likelihood has ties (first maximum vs last maximum)"""
    rows = [list(r) for r in rows]
    if len(rows) >= 3 and rng.random() < 0.5:
        for _ in range(rng.randint(1, 2)):
            i, j = rng.randrange(len(rows)), rng.randrange(len(rows))
            rows[j] = list(rows[i])
    return rows


def with_best_tie(rng, model, analysis, rows):
    """append / insert a copy of the best row at another position: the maximum is attained twice"""
    if len(rows) >= 2 and rng.random() < 0.4:
        lls = [true_ll(model, analysis, r) for r in rows]
        b = lls.index(max(lls))
        rows.insert(rng.randrange(len(rows) + 1), list(rows[b]))
    return rows


def synth_dynesty(ctx, prog, model, analysis, arrays=None):
    rng = ctx.rng
    if arrays is None:
        n = rng.randint(1, 14)
        rows = with_best_tie(rng, model, analysis, tie_some(rng, [random_row(rng, model) for _ in range(n)]))
        n = len(rows)
        logl = [true_ll(model, analysis, r) for r in rows]
        logwt = [rng.uniform(-25.0, 0.0) for _ in range(n)]
        m = max(logwt)
        tot = m + math.log(sum(math.exp(x - m) for x in logwt))
        # evidence estimates grow towards the final one; the final one normalises the weights
        logz = sorted(tot - rng.uniform(0.0, 6.0) for _ in range(n - 1)) + [tot]
        if rng.random() < 0.3:
            logz[rng.randrange(n)] = tot + rng.uniform(0.5, 3.0)  # a non-monotone estimate (dynamic batches)
            logz[-1] = tot
        arrays = {"samples": rows, "logl": logl, "logwt": logwt, "logz": logz}
    res = SimpleNamespace(samples=np.array(arrays["samples"], dtype=float), logl=np.array(arrays["logl"]),
                          logwt=np.array(arrays["logwt"]), logz=np.array(arrays["logz"]),
                          ncall=np.ones(len(arrays["logl"]), dtype=int))
    internal = SimpleNamespace(results=res)
    search = af.DynestyStatic(nlive=20) if rng.random() < 0.5 else af.DynestyDynamic()
    samples = search.samples_via_internal_from(model=model, search_internal=internal)
    case = {"mode": "synth", "kind": "dynesty", "program": prog, "analysis": analysis.spec(), "arrays": arrays}
    req = {"q": "dynesty", "samples": [hexrow(r) for r in arrays["samples"]], "logl": hexrow(arrays["logl"]),
           "logwt": hexrow(arrays["logwt"]), "logz": hexrow(arrays["logz"])}
    return finish_case(ctx, "dynesty", case, req, model, analysis, samples, search, internal)


def ar1_chain(rng, model, steps, walkers, rho):
    """a chain with autocorrelation (so that emcee's tau gives discard > 0 and thin >= 1), in unit space"""
    n = model.prior_count
    u = [[0.5 + 0.2 * (rng.random() - 0.5) for _ in range(n)] for _ in range(walkers)]
    chain = []
    for _ in range(steps):
        step = []
        for w in range(walkers):
            u[w] = [min(0.95, max(0.05, 0.5 + rho * (x - 0.5) + (1 - rho) * 0.9 * (rng.random() - 0.5))) for x in u[w]]
            step.append([float(x) for x in model.vector_from_unit_vector(u[w], ignore_prior_limits=True)])
        chain.append(step)
    return chain


def emcee_backend(chain, logp):
    import emcee

    c = np.array(chain, dtype=float)
    steps, walkers, ndim = c.shape
    b = emcee.backends.Backend()
    b.reset(walkers, ndim)
    b.grow(steps, None)
    b.chain[:] = c
    b.log_prob[:] = np.array(logp, dtype=float)
    b.iteration = steps
    b.accepted[:] = steps // 2
    return b


def synth_emcee(ctx, prog, model, analysis, arrays=None):
    rng = ctx.rng
    if arrays is None:
        test_mode = rng.random() < 0.35
        if test_mode:
            steps, walkers = rng.randint(11, 32), rng.randint(1, 4)
            chain = ar1_chain(rng, model, steps, walkers, rng.uniform(0.2, 0.8))
        else:
            steps, walkers = rng.randint(50, 90), rng.randint(2, 4)
            chain = ar1_chain(rng, model, steps, walkers, rng.uniform(0.55, 0.85))
        if rng.random() < 0.4:
            # the maximum is attained twice (two walkers at the same point at some step)
            s, w = rng.randrange(steps), rng.randrange(walkers)
            s2, w2 = rng.randrange(steps), rng.randrange(walkers)
            chain[s2][w2] = list(chain[s][w])
        logp = [[true_ll(model, analysis, r) + lib_prior_sum(model, r) for r in step] for step in chain]
        arrays = {"chain": chain, "logp": logp, "test_mode": test_mode, "check_size": rng.randint(2, 6)}
    backend = emcee_backend(arrays["chain"], arrays["logp"])
    search = af.Emcee(nwalkers=len(arrays["chain"][0]), nsteps=len(arrays["chain"]),
                      auto_correlation_settings=AutoCorrelationsSettings(check_for_convergence=False,
                                                                         check_size=arrays["check_size"]))
    case = {"mode": "synth", "kind": "emcee", "program": prog, "analysis": analysis.spec(), "arrays": arrays}
    old = os.environ.get("PYAUTOFIT_TEST_MODE")
    try:
        if arrays["test_mode"]:
            os.environ["PYAUTOFIT_TEST_MODE"] = "1"
            discard, thin = 5, 5
        else:
            os.environ.pop("PYAUTOFIT_TEST_MODE", None)
            tmax = float(np.max(search.auto_correlations_from(search_internal=backend).times))
            discard, thin = int(3.0 * tmax), int(tmax / 2.0)
        try:
            samples = search.samples_via_internal_from(model=model, search_internal=backend)
        except ValueError:
            if thin == 0:
                ctx.hit("emcee:thin-zero-rejected")  # emcee refuses `thin=0`; not a property matter
                return 0
            raise
    finally:
        if old is None:
            os.environ.pop("PYAUTOFIT_TEST_MODE", None)
        else:
            os.environ["PYAUTOFIT_TEST_MODE"] = old
    ctx.hit(f"emcee:discard={min(discard, 40) // 10 * 10}+,thin={min(thin, 6)}")
    if len(samples.sample_list) == 0:
        ctx.hit("emcee:empty-after-burn-in")
        return 0
    req = {"q": "emcee", "same_slice": True, "discard": discard, "thin": thin,
           "chain": [[hexrow(r) for r in step] for step in arrays["chain"]],
           "logp": [hexrow(step) for step in arrays["logp"]]}
    return finish_case(ctx, "emcee", case, req, model, analysis, samples, search, backend)


def swarm_partial_oracle(ctx, case, model, analysis, pos, cost):
    """what *does* hold for pyswarms (pyswarms_partial): one sample per iteration = particle 0, reported
    posterior = -0.5 * cost_history[k] = best posterior of any particle so far (re-evaluated here)"""

    def check(samples):
        keys = [tuple(p) for p in model.unique_prior_paths]
        best = -math.inf
        if len(samples.sample_list) != len(pos):
            ctx.fail("C05-pyswarms-partial", "pyswarms: not one sample per iteration", case,
                     {"samples": len(samples.sample_list), "iterations": len(pos)})
            return
        for k, s in enumerate(samples.sample_list):
            for r in pos[k]:
                best = max(best, true_ll(model, analysis, r) + sum(
                    own_log_prior(p, x) for p, x in zip(model.priors_ordered_by_id, r)))
            row = [float(s.kwargs[p]) for p in keys]
            if row != [float(x) for x in pos[k][0]]:
                ctx.fail("C05-pyswarms-partial", "pyswarms: a sample's parameters are not those of particle 0 of its iteration",
                         case, {"i": k})
                return
            want = max(best, -0.5 * float(cost[k])) if case.get("mode") == "fit" else best
            # in a real fit the swarm's memory may go back to iterations before the reported history
            if not (abs(float(s.log_posterior) - (-0.5 * float(cost[k]))) <= 1e-9 * (1 + abs(best))) or not (
                    abs(-0.5 * float(cost[k]) - want) <= 1e-9 * (1 + abs(best))):
                ctx.fail("C05-pyswarms-partial", "pyswarms: the reported posterior of iteration k is not the best posterior "
                         "found by the swarm up to k", case,
                         {"i": k, "reported": float(s.log_posterior), "best_so_far": best, "cost": float(cost[k])})
                return

    return check


def synth_pyswarms(ctx, prog, model, analysis, arrays=None):
    rng = ctx.rng
    if arrays is None:
        iters, parts = rng.randint(1, 7), rng.randint(1, 4)
        pos = [[random_row(rng, model) for _ in range(parts)] for _ in range(iters)]
        cost, best = [], math.inf
        for it in pos:
            for r in it:
                best = min(best, -2.0 * (true_ll(model, analysis, r) + lib_prior_sum(model, r)))
            cost.append(best)
        arrays = {"pos": pos, "cost": cost}
    internal = SimpleNamespace(pos_history=[np.array(it, dtype=float) for it in arrays["pos"]],
                               cost_history=[np.float64(c) for c in arrays["cost"]])
    search = af.PySwarmsGlobal() if rng.random() < 0.5 else af.PySwarmsLocal()
    samples = search.samples_via_internal_from(model=model, search_internal=internal)
    case = {"mode": "synth", "kind": "pyswarms", "program": prog, "analysis": analysis.spec(), "arrays": arrays}
    req = {"q": "pyswarms", "pos": [[hexrow(r) for r in it] for it in arrays["pos"]], "cost": hexrow(arrays["cost"])}
    return finish_case(ctx, "pyswarms", case, req, model, analysis, samples, search, internal,
                       partial_known=swarm_partial_oracle(ctx, case, model, analysis, arrays["pos"], arrays["cost"]))


def bfgs_fitness(model, analysis, history):
    return Fitness(model=model, analysis=analysis, paths=None, fom_is_log_likelihood=False,
                   resample_figure_of_merit=-np.inf, convert_to_chi_squared=True, store_history=history)


def synth_bfgs(ctx, prog, model, analysis, arrays=None):
    rng = ctx.rng
    if arrays is None:
        arrays = {"x": random_row(rng, model), "cls": rng.choice(["LBFGS", "BFGS"])}
    x = arrays["x"]
    fitness = bfgs_fitness(model, analysis, False)
    internal = SimpleNamespace(x=np.array(x, dtype=float), nit=3)
    internal.log_posterior_list = -0.5 * fitness(parameters=internal.x)
    search = getattr(af, arrays["cls"])()
    samples = search.samples_via_internal_from(model=model, search_internal=internal)
    case = {"mode": "synth", "kind": "bfgs", "program": prog, "analysis": analysis.spec(), "arrays": arrays}
    # the model derives the stored posterior from the likelihood value through C04's `fitnessCall`
    req = {"q": "bfgs", "x": hexrow(x), "ll": f2h(true_ll(model, analysis, x))}
    return finish_case(ctx, "bfgs", case, req, model, analysis, samples, search, internal)


def synth_bfgs_hist(ctx, prog, model, analysis, arrays=None):
    rng = ctx.rng
    if arrays is None:
        n = rng.randint(1, 9)
        rows = with_best_tie(rng, model, analysis, tie_some(rng, [random_row(rng, model) for _ in range(n)]))
        arrays = {"rows": rows, "cls": rng.choice(["LBFGS", "BFGS"])}
    fitness = bfgs_fitness(model, analysis, True)
    buf = np.zeros(model.prior_count)
    for r in arrays["rows"]:
        buf[:] = r  # scipy re-uses its buffer between calls
        fitness(parameters=buf)
    internal = SimpleNamespace(x=np.array(arrays["rows"][-1], dtype=float), nit=len(arrays["rows"]))
    internal.log_posterior_list = -0.5 * fitness(parameters=internal.x)
    internal.parameters_history_list = fitness.parameters_history_list
    internal.log_likelihood_history_list = fitness.log_likelihood_history_list
    search = getattr(af, arrays["cls"])(visualize=True)
    samples = search.samples_via_internal_from(model=model, search_internal=internal)
    case = {"mode": "synth", "kind": "bfgs_hist", "program": prog, "analysis": analysis.spec(), "arrays": arrays}
    req = {"q": "bfgs_hist", "hist": [hexrow(list(map(float, r))) for r in internal.parameters_history_list],
           "lls": hexrow(internal.log_likelihood_history_list)}
    return finish_case(ctx, "bfgs_hist", case, req, model, analysis, samples, search, internal)


def synth_drawer(ctx, prog, model, analysis, arrays=None):
    rng = ctx.rng
    if arrays is None:
        n = rng.randint(1, 10)
        rows = with_best_tie(rng, model, analysis, tie_some(rng, [random_row(rng, model) for _ in range(n)]))
        arrays = {"rows": rows}
    posts = [true_ll(model, analysis, r) + lib_prior_sum(model, r) for r in arrays["rows"]]
    d = {"parameter_lists": [list(r) for r in arrays["rows"]], "log_posterior_list": posts, "time": None}
    search = af.Drawer(total_draws=len(posts))
    search.paths = SimpleNamespace(load_search_internal=lambda: d, search=None)
    samples = search.samples_from(model=model, search_internal=None)
    case = {"mode": "synth", "kind": "drawer", "program": prog, "analysis": analysis.spec(), "arrays": arrays}
    req = {"q": "drawer", "params": [hexrow(r) for r in arrays["rows"]], "posts": hexrow(posts)}
    return finish_case(ctx, "drawer", case, req, model, analysis, samples, search, d)


class RejectingAnalysis(QuadAnalysis):
    """likelihood that is NaN on part of the space: the initializer must skip those points"""

    def log_likelihood_function(self, instance):
        xs = [v for _, v in leaves(instance)]
        v = self.value(xs)
        # rejection is a function of the drawn point (mantissa bits of the parameters), never of the value:
        # a likelihood that is constant or tiny must not reject every draw (the initializer would loop for ever)
        import struct
        bits = 0
        for x in xs:  # not an xor: a prior shared by two places would cancel itself
            bits = (bits * 31 + (struct.unpack("<Q", struct.pack("<d", float(x)))[0] >> 18)) % 1000003
        self.n_calls = getattr(self, "n_calls", 0) + 1
        if bits % 4 == 0 and self.n_calls <= 80:  # (bounded: whatever happens, the initializer ends)
            return float("nan")
        return v


def init_case(ctx, prog, model, analysis):
    """`AbstractInitializer.samples_from_model` with one worker (arrival order = submission order): accepted
    points must be paired with their own figure of merit; compared with `initRun` under `order = 0,1,...`"""
    rng = ctx.rng
    rej = RejectingAnalysis(analysis.centres, analysis.scales, analysis.weights)
    fitness = Fitness(model=model, analysis=rej, paths=None, fom_is_log_likelihood=False,
                      resample_figure_of_merit=-np.inf, convert_to_chi_squared=False)
    total = rng.randint(3, 8)
    pyrandom.seed(rng.randrange(1 << 30))
    init = af.InitializerPrior()
    n_cores = 1 if rng.random() < 0.6 else 2
    unit, params, figs = init.samples_from_model(total_points=total, model=model, fitness=fitness, paths=None,
                                                 n_cores=n_cores, test_mode_samples=False)
    case = {"mode": "init", "kind": "init", "program": prog, "analysis": analysis.spec(), "n_cores": n_cores}
    if len(params) != total or len(figs) != total:
        ctx.fail("C05-init-count", "initializer returned a different number of points than requested", case,
                 {"asked": total, "got": len(params)})
    bad = 0
    for r, f in zip(params, figs):
        ll = true_ll(model, rej, r)
        want = ll + sum(own_log_prior(p, x) for p, x in zip(model.priors_ordered_by_id, r))
        if not (float(f) == want or abs(float(f) - want) <= 1e-9 * (1 + abs(want))):
            bad += 1
    if bad:
        ctx.fail("C05-init-pairing", f"initializer pairs a point with a figure of merit that is not its own ({n_cores} worker(s), "
                 "part of the space rejected)", case, {"bad": bad, "of": total})
    if n_cores > 1:
        # batches of several points: rejected draws are not observable, so only the pairing oracle applies
        ctx.case({"kind": "init", "n_cores": n_cores, "params": [hexrow(r) for r in params]}, nontrivial=total >= 2)
        ctx.hit("init:%d-workers" % n_cores)
        return
    # model: every accepted point is one batch of size 1 (n_cores = 1), rejected draws are not observable
    req = {"p": "C05", "q": "init",
           "batches": [{"inputs": [hexrow(r)], "figs": [f2h(float(f))], "order": [0]} for r, f in zip(params, figs)]}
    ans = ctx.lean.ask(req)
    want_pairs = [[hexrow(r), f2h(float(f))] for r, f in zip(params, figs)]
    if ans.get("pairs") != want_pairs:
        ctx.disagree("init:pairs", case, want_pairs[:3], ans.get("pairs", ans))
    ctx.case({"kind": "init", "req": req}, nontrivial=model.prior_count >= 2 and total >= 2)
    ctx.hit("init:single-worker")


class SleepAnalysis(af.Analysis):
    def log_likelihood_function(self, instance):
        if instance.a < 0.5:
            time.sleep(0.3)
        return -float(instance.a)


def probe_pool_map_ordered(ctx):
    """finding flag `poolMapOrdered` (DESIGN §0, shared with C14), observed on the real pool at every run: two
    jobs on two workers, the first one slower; does `SneakyPool.map` yield the results in submission order?"""
    from autofit.non_linear.parallel import SneakyPool
    from autofit.non_linear.initializer import AbstractInitializer
    import vlib

    try:
        model = af.Model(vlib.P1, a=af.UniformPrior(0.0, 1.0))
        fitness = Fitness(model=model, analysis=SleepAnalysis(), paths=None, fom_is_log_likelihood=True,
                          resample_figure_of_merit=-np.inf)
        pool = SneakyPool(2, fitness, None)
        out = list(pool.map(function=AbstractInitializer.figure_of_metric,
                            args_list=[(fitness, [0.2]), (fitness, [0.8])], log_info=False))
        del pool
        ordered = [float(x) for x in out] == [-0.2, -0.8]
    except Exception as e:
        ctx.notes["pool_probe_error"] = f"{type(e).__name__}: {str(e)[:200]}"
        ordered = False
    ctx.notes["pool_map_ordered"] = ordered
    ctx.hit(f"flag:poolMapOrdered={ordered}")
    return ordered


SYNTH = {
    "dynesty": synth_dynesty,
    "emcee": synth_emcee,
    "pyswarms": synth_pyswarms,
    "bfgs": synth_bfgs,
    "bfgs_hist": synth_bfgs_hist,
    "drawer": synth_drawer,
}

import c05_more  # growth: Nautilus / UltraNest / Zeus conversions, weights, transformations of a sample list

c05_more.install(sys.modules[__name__])

# ---------------------------------------------------------------------------------------------
# real fits


def as_lists(a):
    return [[float(x) for x in r] for r in np.asarray(a)]


def fit_case(ctx, kind, prog=None, spec=None, settings=None):
    rng = ctx.rng
    # several scipy calls need a problem that does not converge at once: at least 2 free parameters
    if (settings or {}).get("fixed_case") and prog is None:
        # one composition and likelihood on which a capped LBFGS fit keeps moving after its first update
        prog = [{"op": "model", "h": "m1", "cls": "P3", "kw": {}}, {"op": "coll_kw", "h": "c1", "items": {"g": {"h": "m1"}}},
                {"op": "root", "h": "c1"}]
    prog, model = gen_model(ctx, prog, min_free=3 if (settings or {}).get("ipu") and prog is None else 1)
    if (settings or {}).get("fixed_case") and spec is None:
        analysis = make_analysis(pyrandom.Random(5), model, None, hard=True)
    else:
        analysis = make_analysis(rng, model, spec, hard=bool((settings or {}).get("ipu")))
    settings = settings or {}
    if "pool_map_ordered" not in ctx.notes:
        probe_pool_map_ordered(ctx)
    if kind == "Emcee" and settings.get("cores", 1) > 1 and not ctx.notes["pool_map_ordered"]:
        # emcee maps its walkers through the same pool: with arrival-order results the sampler's own contract
        # (log_prob[s][w] belongs to chain[s][w]) is void, nothing about the conversion can be learnt
        ctx.hit("fit-skipped:Emcee-multicore(pool yields in arrival order)")
        return None
    seed = settings.setdefault("seed", rng.randrange(1 << 30))
    pyrandom.seed(seed)
    np.random.seed(seed % (1 << 32))
    cores = settings.get("cores", 1)
    if cores == 1 and settings.setdefault("scramble", rng.random() < 0.4):
        import c01
        analysis.scramble_held = c01._reachable_ids(model)
        ctx.hit("fit:analysis-changes-its-instance-in-place")
    case = {"mode": "fit", "kind": kind, "program": prog, "analysis": analysis.spec(), "settings": settings}
    name = f"c05_{kind}_{seed}_{ctx.evaluations}"
    # named = the search writes its output folder (the usual way to run a fit); unnamed = NullPaths
    named = {"name": name} if settings.get("named") else {}
    if named:
        ctx.hit("fit-with-output-folder")
    t0 = time.time()
    if kind in ("DynestyStatic", "DynestyDynamic"):
        kw = dict(number_of_cores=cores, maxcall=settings.setdefault("maxcall", 250))
        if settings.get("x1"):
            kw["force_x1_cpu"] = True
        if settings.get("ipu"):
            kw["iterations_per_update"] = settings["ipu"]  # a checkpoint every few calls (resumed fits)
        if kind == "DynestyStatic":
            search = af.DynestyStatic(nlive=settings.setdefault("nlive", 18), **kw, **named)
        else:
            search = af.DynestyDynamic(nlive_init=settings.setdefault("nlive", 18), **kw, **named)
    elif kind == "Emcee":
        search = af.Emcee(nwalkers=settings.setdefault("nwalkers", 2 * model.prior_count + 2),
                          nsteps=settings.setdefault("nsteps", 40), number_of_cores=cores, **named,
                          **({"iterations_per_update": settings["ipu"]} if settings.get("ipu") else {}),
                          auto_correlation_settings=AutoCorrelationsSettings(check_for_convergence=False, check_size=8))
    elif kind in ("LBFGS", "BFGS"):
        extra = {}
        if settings.get("ipu"):
            # several scipy calls per fit: the history is stitched across checkpoints
            extra["iterations_per_update"] = settings["ipu"]
            extra["maxiter"] = settings.get("maxiter", 8)
            # (no early convergence: every call uses up its iterations, so the history is stitched over several calls)
            extra.update({"ftol": 0.0, "gtol": 0.0} if kind == "LBFGS" else {"gtol": 0.0})
        search = getattr(af, kind)(visualize=bool(settings.get("history")), number_of_cores=cores, **named, **extra)
        remake = lambda: getattr(af, kind)(visualize=bool(settings.get("history")), number_of_cores=cores, **named, **dict(extra))  # noqa: E731
    elif kind in ("PySwarmsGlobal", "PySwarmsLocal"):
        search = getattr(af, kind)(n_particles=settings.setdefault("particles", 4), iters=settings.setdefault("iters", 5),
                                   number_of_cores=cores, **named)
    elif kind == "Drawer":
        search = af.Drawer(name=name, total_draws=settings.setdefault("draws", 6))
    else:
        raise ValueError(kind)
    ctx.notes.setdefault("fits_tried", {})
    ctx.notes["fits_tried"][kind] = ctx.notes["fits_tried"].get(kind, 0) + 1
    cwd = os.getcwd()
    if "remake" not in dir():
        remake = None
    try:
        from common import scratch_dir

        os.chdir(scratch_dir())  # pyswarms writes a `report.log` into the working directory
        if settings.get("crash_after"):
            result, search = c05_more.crash_then_resume(ctx, kind, search, model, analysis, settings)
        else:
            result = search.fit(model=model, analysis=analysis)
        if remake is not None and named and not settings.get("crash_after") and not settings.get("reuse"):
            # the finished fit asked for again (a new search object, the same output folder): the result it loads is
            # faithful in the same way - its best fit is the maximum over the samples it carries
            ctx.hit("fit:completed-rerun")
            r2 = remake().fit(model=model, analysis=analysis)
            lls2 = [float(s_.log_likelihood) for s_ in r2.samples.sample_list]
            if not lls2 or abs(max(lls2) - float(r2.log_likelihood)) > 1e-9 * (1 + abs(max(lls2))) \
                    or abs(float(r2.log_likelihood) - float(result.log_likelihood)) > 1e-9 * (1 + abs(float(result.log_likelihood))):
                ctx.fail("C05-rerun-result-not-its-samples", f"{kind}: the result of a completed fit that is run again does not report the "
                         "maximum over the samples it carries (or another best fit than the first run)", case,
                         {"first_run": float(result.log_likelihood), "rerun": float(r2.log_likelihood), "max_over_rerun_samples": max(lls2) if lls2 else None})
        if settings.get("reuse"):
            # the same search object fits again, with another likelihood: what it returns is about this fit
            ctx.hit("fit:search-object-used-before")
            analysis = make_analysis(rng, model)
            case["analysis"] = analysis.spec()
            result = search.fit(model=model, analysis=analysis)
    except Exception as e:  # one crash is not a verdict about the samples; it is counted and shown
        ctx.hit(f"fit-crashed:{kind}:{type(e).__name__}")
        ctx.notes.setdefault("fits_crashed", {})
        ctx.notes["fits_crashed"][kind] = ctx.notes["fits_crashed"].get(kind, 0) + 1
        ctx.notes.setdefault("fit_crashes", [])
        if len(ctx.notes["fit_crashes"]) < 5:
            ctx.notes["fit_crashes"].append(f"{kind}: {type(e).__name__}: {' '.join(str(e).split())[:120]}")
        return None
    finally:
        os.chdir(cwd)
    ctx.notes.setdefault("fit_seconds", {})
    ctx.notes["fit_seconds"][kind] = round(ctx.notes["fit_seconds"].get(kind, 0.0) + time.time() - t0, 2)
    samples = result.samples
    internal = result.search_internal
    partial = None
    if kind.startswith("Dynesty"):
        r = internal.results
        ck = "dynesty"
        req = {"q": "dynesty", "samples": [hexrow(x) for x in as_lists(r.samples)], "logl": hexrow(r.logl),
               "logwt": hexrow(r.logwt), "logz": hexrow(r.logz)}
    elif kind == "Emcee":
        ck = "emcee"
        tmax = float(np.max(search.auto_correlations_from(search_internal=internal).times))
        req = {"q": "emcee", "same_slice": True, "discard": int(3.0 * tmax), "thin": int(tmax / 2.0),
               "chain": [[hexrow(r) for r in step] for step in internal.get_chain().tolist()],
               "logp": [hexrow(step) for step in internal.get_log_prob().tolist()]}
    elif kind in ("LBFGS", "BFGS"):
        ipu = settings.get("ipu")
        if ipu:
            tot = int(getattr(internal, "total_iterations", 0) or 0)
            ctx.hit("bfgs-scipy-calls:" + ("1" if tot <= ipu else "2-3" if tot <= 3 * ipu else ">3"))
            if tot <= ipu:
                msg = getattr(internal, "message", "")
                ctx.hit("bfgs-one-call-because:" + str(msg.decode() if isinstance(msg, bytes) else msg)[:40])
        if settings.get("history"):
            ck = "bfgs_hist"
            req = {"q": "bfgs_hist", "hist": [hexrow(list(map(float, r))) for r in internal.parameters_history_list],
                   "lls": hexrow(internal.log_likelihood_history_list)}
        else:
            ck = "bfgs"
            req = {"q": "bfgs", "x": hexrow(internal.x), "log_post": f2h(float(internal.log_posterior_list))}
    elif kind.startswith("PySwarms"):
        ck = "pyswarms"
        pos = [as_lists(p) for p in internal.pos_history]
        cost = [float(c) for c in internal.cost_history]
        req = {"q": "pyswarms", "pos": [[hexrow(r) for r in it] for it in pos], "cost": hexrow(cost)}
        partial = swarm_partial_oracle(ctx, case, model, analysis, pos, cost)
    else:
        ck = "drawer"
        d = search.paths.load_search_internal()
        req = {"q": "drawer", "params": [hexrow(r) for r in d["parameter_lists"]], "posts": hexrow(d["log_posterior_list"])}
    ctx.hit(f"fit-cores:{cores}")
    nbad = finish_case(ctx, ck, case, req, model, analysis, samples, search, internal, cores=cores, result=result,
                       partial_known=partial)
    return nbad


QUICK_FITS = [
    ("DynestyStatic", {}),
    ("DynestyStatic", {"x1": True}),
    ("DynestyStatic", {"cores": 2}),
    ("DynestyStatic", {"reuse": True}),
    ("Emcee", {"reuse": True}),
    ("DynestyDynamic", {}),
    ("Emcee", {}),
    ("Emcee", {"nsteps": 55}),
    ("Emcee", {"cores": 2}),
    ("LBFGS", {}),
    ("BFGS", {}),
    ("LBFGS", {"history": True}),
    ("BFGS", {"history": True}),
    ("LBFGS", {"history": True, "ipu": 2, "maxiter": 8}),
    ("BFGS", {"history": True, "ipu": 2, "maxiter": 6}),
    ("LBFGS", {"history": True, "ipu": 3, "maxiter": 9}),
    ("LBFGS", {"history": True, "ipu": 2, "maxiter": 10}),
    ("BFGS", {"history": True, "ipu": 3, "maxiter": 9}),
    ("LBFGS", {"history": True, "ipu": 1, "maxiter": 5}),
    ("LBFGS", {"ipu": 2, "maxiter": 6}),
    ("PySwarmsGlobal", {}),
    ("PySwarmsLocal", {}),
    ("Drawer", {}),
    ("Drawer", {"draws": 3}),
]

NAMED_FITS = [
    ("DynestyStatic", {"named": True}),
    ("Emcee", {"named": True}),
    ("LBFGS", {"named": True}),
    ("BFGS", {"named": True, "history": True}),
    ("LBFGS", {"named": True, "ipu": 2, "maxiter": 8}),  # several intermediate updates into the output folder, then run again
    ("LBFGS", {"named": True, "ipu": 2, "maxiter": 8, "fixed_case": True}),
    ("LBFGS", {"named": True, "ipu": 1, "maxiter": 6}),
    ("LBFGS", {"named": True, "ipu": 3, "maxiter": 12}),
    ("BFGS", {"named": True, "ipu": 2, "maxiter": 8}),
    ("LBFGS", {"named": True, "ipu": 2, "maxiter": 10}),
    ("PySwarmsGlobal", {"named": True}),
    ("DynestyDynamic", {"x1": True}),
    ("DynestyStatic", {"cores": 2}),
    ("Emcee", {}),
    ("PySwarmsLocal", {}),
    ("LBFGS", {"history": True}),
    ("BFGS", {}),
]

MORE_FITS = [
    ("DynestyDynamic", {"cores": 2}),
    ("DynestyStatic", {"cores": 3}),
    ("DynestyDynamic", {"x1": True}),
    ("Emcee", {"cores": 2}),
    ("PySwarmsGlobal", {"cores": 2, "iters": 8}),
    ("LBFGS", {"cores": 2}),
    ("Drawer", {"draws": 12}),
]


def run_corpus(ctx):
    for f in sorted((VERIF / "corpus" / "C05").glob("*.json")):
        c = json.loads(f.read_text())
        replay_case(ctx, c)
        ctx.hit("corpus")


def replay_case(ctx, c):
    if c.get("mode") == "fit":
        fit_case(ctx, c["kind"], c["program"], c.get("analysis"), dict(c.get("settings") or {}))
        return
    prog, model = gen_model(ctx, c["program"])
    analysis = make_analysis(ctx.rng, model, c.get("analysis"))
    if c.get("mode") == "init":
        init_case(ctx, prog, model, analysis)
    else:
        SYNTH[c["kind"]](ctx, prog, model, analysis, c.get("arrays"))


def guarded(ctx, kind, prog, analysis, fn):
    """the real conversion raising on arrays that satisfy the sampler contract breaks the tie (the model
    converts them); the failing-input search has nothing to evaluate then"""
    import common

    try:
        return fn()
    except common.LeanError:
        raise
    except Exception as e:
        ctx.disagree(f"{kind}:implementation-raises", {"mode": "synth", "kind": kind, "program": prog,
                                                         "analysis": analysis.spec()},
                     f"{type(e).__name__}: {str(e)[:300]}", "the model converts these arrays")
        return None


def run(ctx):
    ctx.rule = RULE
    ctx.assumptions = [
        "the samplers (dynesty, emcee, pyswarms, scipy) are black boxes; their array contracts are hypotheses of the "
        "theorems and are exercised, not proved, by the real fits",
        "nautilus, ultranest and zeus are not installed: no fit of these classes is run; their conversions are run on stand-in "
        "sampler objects carrying generated arrays (harness/c05_more.py), the samplers' array contracts are hypotheses",
        "likelihood comparisons use rtol 1e-9 (posterior minus prior cancellation); data movement is bit exact",
        "user classes are those of harness/vlib.py; the likelihood is a weighted quadratic of all float leaves",
        "real fits are seeded through random/numpy but dynesty's own generator is not: fit replays re-run the "
        "search, conversion-level replays are exact",
    ]
    probe_pool_map_ordered(ctx)
    run_corpus(ctx)
    rng = ctx.rng
    n = ctx.n(330, 6000)
    kinds = [k for k in SYNTH if k not in c05_more.KINDS and k != "xform"]
    for k in range(n):
        kind = kinds[k % len(kinds)]
        prog, model = gen_model(ctx)
        quant = rng.choice([0.5, 1.0, 2.0]) if rng.random() < 0.35 else 0.0
        analysis = make_analysis(rng, model, quant=quant)
        if quant:
            ctx.hit("likelihood:piecewise-constant(ties)")
        guarded(ctx, kind, prog, analysis, lambda: SYNTH[kind](ctx, prog, model, analysis))
    c05_more.run_more(ctx)
    for _ in range(ctx.n(10, 60)):
        prog, model = gen_model(ctx)
        analysis = make_analysis(rng, model)
        guarded(ctx, "init", prog, analysis, lambda: init_case(ctx, prog, model, analysis))
    fits = list(QUICK_FITS) + NAMED_FITS
    if ctx.tier == "thorough":
        fits = list(QUICK_FITS) * 10 + NAMED_FITS * 6 + MORE_FITS * 8 + c05_more.RESUME_FITS * 2
    for kind, settings in fits:
        fit_case(ctx, kind, settings=dict(settings))
    # a search class of which no fit returned a result is no longer covered
    tried, crashed = ctx.notes.get("fits_tried", {}), ctx.notes.get("fits_crashed", {})
    for kind, n_tried in tried.items():
        if n_tried >= 2 and crashed.get(kind, 0) == n_tried:
            ctx.disagree(f"fit:{kind}:always-raises", {"mode": "fit", "kind": kind},
                         ctx.notes.get("fit_crashes", [])[:3], "a result")
    ctx.notes["searches_not_run"] = "Nautilus, UltraNest, Zeus (not installed in this environment; conversions run on stand-ins)"


def replay(ctx, payload):
    case = payload.get("case") or payload.get("disagreements", [{}])[0].get("case")
    replay_case(ctx, case)
