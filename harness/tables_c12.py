#!/usr/bin/env python
"""Translator part of C12: regenerate lean/AFModel/Generated/C12.lean from the prior configuration files
the library loads (run by harness/run.py before every build; a committed copy is kept).

For every configuration directory that can be on the library's configuration chain during the check

  repo     <repository>/autofit/config/priors            (what the library ships)
  harness  harness/config/priors                         (classes of harness/vlib.py)
  scratch  the directory common.setup_repo() pushes: repo's files overlaid with harness'
  alt      harness/config_c12/priors                     (conflicting / nested / dotted entries, used by the
                                                          look-up correspondence only)

the table is `JSONPriorConfig.path_value_map` re-implemented here without the library (every dotted path
from the file name down, later writes of an equal path replacing the value but keeping the position),
restricted to the paths a key ending in `.width_modifier` / `.gaussian_limits` can end with, values
classified as width modifier / limits / other.  File order inside a directory is fixed here (suffix order
json, yaml, yml as the library, then path); the library's is the file system's - `callCfg_perm` in
AFProofs/C12.lean: the answer does not depend on it as long as paths are distinct (checked below).

harness/c12.py compares these tables with the `path_value_map` of the configurations the library really
loaded (`conf.instance.prior_config`) on every run."""
import json
import math
import os
import struct
import sys
from pathlib import Path

import yaml

HERE = Path(__file__).resolve().parent
REPO = Path(os.environ.get("VERIF_REPO") or "/repo")
OUT = HERE.parent / "lean" / "AFModel" / "Generated" / "C12.lean"
LEAVES = ("width_modifier", "gaussian_limits")


def files_of(directory: Path):
    """relative name without suffix -> path, in the order JSONPriorConfig.from_directory would use on a
    sorted file system"""
    out = []
    directory = Path(directory)
    for suffix in ("json", "yaml", "yml"):
        for f in sorted(directory.rglob(f"*.{suffix}")):
            out.append((".".join(f.relative_to(directory).with_suffix("").parts), f))
    return out


def parse(f: Path):
    with open(f) as fh:
        return json.load(fh) if f.suffix == ".json" else yaml.safe_load(fh)


def flatten(obj):
    """every dotted path below obj -> value (dictionary order; equal paths: last value, first position)"""
    out = {}
    if isinstance(obj, dict):
        for key, value in obj.items():
            out[key] = value
            for path, v in flatten(value).items():
                out[f"{key}.{path}"] = v
    return out


def relevant(path: str) -> bool:
    """can a key `<module>.<class>.<attribute>.<leaf>` end with this path?"""
    if not isinstance(path, str):
        raise SystemExit(f"non-string key in prior configuration: {path!r}")
    return any(path.endswith(leaf) or leaf.endswith(path) for leaf in LEAVES)


def classify(value):
    if isinstance(value, dict):
        try:
            if value.get("type") in ("Relative", "Absolute") and "value" in value:
                return ("wm", value["type"] == "Relative", float(value["value"]))
            if "lower" in value and "upper" in value and "type" not in value:
                return ("lim", float(value["lower"]), float(value["upper"]))
        except (TypeError, ValueError):
            return ("other",)
    return ("other",)


def table_of(named_files):
    """[(file key, parsed)] -> [(path, classified value)] in path_value_map order"""
    config_dict = {}
    for key, parsed in named_files:
        config_dict[key] = parsed
    return [(p, classify(v)) for p, v in flatten(config_dict).items() if relevant(p)]


def directories():
    repo = REPO / "autofit" / "config" / "priors"
    harness = HERE / "config" / "priors"
    alt = HERE / "config_c12" / "priors"
    if not repo.is_dir():
        raise SystemExit(f"no prior configuration at {repo}")
    r = [(k, parse(f)) for k, f in files_of(repo)]
    h = [(k, parse(f)) for k, f in files_of(harness)]
    # setup_repo(): copy of the repository's config directory, harness files copied over it
    over = {str(f.relative_to(harness)) for _, f in files_of(harness)}
    s_files = [(k, f) for k, f in files_of(repo) if str(f.relative_to(repo)) not in over] + files_of(harness)
    order = {"json": 0, "yaml": 1, "yml": 2}
    s_files.sort(key=lambda kf: (order[kf[1].suffix[1:]], str(kf[0])))
    s = [(k, parse(f)) for k, f in s_files]
    a = [(k, parse(f)) for k, f in files_of(alt)]
    return [("repo", table_of(r)), ("harness", table_of(h)), ("scratch", table_of(s)), ("alt", table_of(a))]


def f2bits(x: float) -> str:
    if math.isnan(x):
        return "0x7ff8000000000000"
    return "0x" + struct.pack(">d", x).hex()


def q(s):
    assert '"' not in s and "\\" not in s and "\n" not in s, s
    return '"' + s + '"'


def lean_val(v):
    if v[0] == "wm":
        return f".wm {'true' if v[1] else 'false'} (Float.ofBits {f2bits(v[2])})"
    if v[0] == "lim":
        return f".lim (Float.ofBits {f2bits(v[1])}) (Float.ofBits {f2bits(v[2])})"
    return ".other"


def render(tables):
    o = ["-- generated by harness/tables_c12.py from the prior configuration files the library loads; do not edit",
         "import AFModel.WidthCfg", "", "namespace AF.WidthCfg.Generated", ""]
    for name, rows in tables:
        o.append(f"def {name} : Config Float := [")
        o.append(",\n".join(f"  ⟨{q(p)}.toList, {lean_val(v)}⟩" for p, v in rows) + "]")
        o.append("")
    o.append("/-- configuration directories by name; the chain the library uses is a list of these names -/")
    o.append("def named : List (String × Config Float) := [" + ", ".join(f"({q(n)}, {n})" for n, _ in tables) + "]")
    o.append("")
    o.append("end AF.WidthCfg.Generated")
    return "\n".join(o) + "\n"


def main():
    tables = directories()
    for name, rows in tables:
        paths = [p for p, _ in rows]
        if len(set(paths)) != len(paths):
            raise SystemExit(f"duplicate path in table {name}")
    text = render(tables)
    OUT.parent.mkdir(parents=True, exist_ok=True)
    if not OUT.exists() or OUT.read_text() != text:
        OUT.write_text(text)
    if "-v" in sys.argv:
        for name, rows in tables:
            print(name, len(rows))


if __name__ == "__main__":
    main()
