"""C12, routes part: the ways a caller reaches prior passing other than the direct method calls.

* `Result.model`, `Result.model_absolute(a)`, `model_relative(r)`, `model_bounded(b)` (through `SamplesSummary`):
  the inferred vector is stored in a `Sample` keyed by path (`Sample.from_lists`) and read back through
  `model.all_paths`; the median vector feeds the Gaussian modes, the maximum likelihood vector the bounded one
  (the harness gives the two different values so that confusing them shows).
* `kwargs_case`: keys of the sample, `all_paths` and the recovered vector against `AFModel/PassRoutes.lean`.
* `fixed_case`: `copy_with_fixed_priors(instance)`: every parameter becomes the value the instance holds at the
  same path; nothing else changes.
"""
import math

from common import f2h, h2f

import autofit as af
from autofit.non_linear.result import Result
from autofit.non_linear.samples.sample import Sample
from autofit.non_linear.samples.summary import SamplesSummary


def other_vector(xs):
    return [3.25 - x if abs(x) < 1e12 else 1.5 for x in xs]


def make_result(model, median, max_lh):
    def sample(v):
        return Sample.from_lists(model=model, parameter_lists=[list(v)], log_likelihood_list=[1.0],
                                 log_prior_list=[0.0], weight_list=[1.0])[0]

    summary = SamplesSummary(max_log_likelihood_sample=sample(max_lh), model=model, median_pdf_sample=sample(median))
    return Result(samples_summary=summary), summary


def passed_means(model, xs, mode):
    if mode.get("via") == "result":
        res, _ = make_result(model, xs, other_vector(xs))
        if "a" in mode:
            return res.model_absolute(mode["a"])
        if "r" in mode:
            return res.model_relative(mode["r"])
        return res.model
    return model.mapper_from_prior_means(xs, a=mode.get("a"), r=mode.get("r"), no_limits=mode.get("no_limits", False))


def passed_uniform(model, xs, mode):
    if mode.get("via") == "result":
        res, _ = make_result(model, other_vector(xs), xs)
        return res.model_bounded(mode["b"])
    return model.mapper_from_uniform_floats(xs, b=mode["b"])


def kwargs_case(ctx, model, comp, xs, case):
    """sample keys, all_paths and the vector read back: real code vs. model; the property on the real code:
    the value stored for a parameter comes back at that parameter's position"""
    try:
        res, summary = make_result(model, xs, other_vector(xs))
        keys = [list(map(str, k)) for k in summary.median_pdf_sample.kwargs.keys()]
        groups = [[list(map(str, p)) for p in g] for g in model.all_paths]
        back = summary.prior_means
        back_ml = summary.max_log_likelihood(as_instance=False)
    except Exception as e:
        ctx.fail("C12-raises-result", f"reading the inferred values back from a result raised {type(e).__name__}", case, str(e)[:200])
        return
    if [f2h(x) for x in back] != [f2h(x) for x in xs] or [f2h(x) for x in back_ml] != [f2h(x) for x in other_vector(xs)]:
        ctx.fail("C12-result-vector", "the values a result hands to prior passing are not the inferred values in parameter order",
                 case, {"stored": xs[:6], "read_back": back[:6]})
    ans = ctx.lean.ask({"p": "C12", "q": "kwargs", "comp": comp, "v": [f2h(x) for x in xs]})
    if "driver_error" in ans:
        ctx.disagree("C12.kwargs.driver", case, None, ans)
        return
    ctx.hit("kwargs:own" if ans["own"] else "kwargs:keys-not-own")
    if ans["keys"] != keys:
        ctx.disagree("C12.kwargs.keys", case, keys[:6], ans["keys"][:6])
    if ans["groups"] != groups:
        ctx.disagree("C12.kwargs.all_paths", case, groups[:4], ans["groups"][:4])
    if ans["vector"] != [f2h(x) for x in back]:
        ctx.disagree("C12.kwargs.vector", case, back[:6], [None if v is None else h2f(v) for v in ans["vector"]][:6])


def values_by_path(obj, path):
    for k in path:
        if isinstance(obj, (list, tuple)):
            obj = obj[int(k)]
        elif isinstance(obj, dict):
            obj = obj[k]
        else:
            try:
                obj = getattr(obj, k)
            except AttributeError:
                obj = obj[int(k)] if str(k).isdigit() else obj[k]
    return obj
