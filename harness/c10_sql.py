"""C10 - the printed SQL: canonical form of the text the real query objects print.

`AbstractJunction.fit_query` lists its conjuncts `id IN (…)` in the iteration order of a python set (it varies
with the process' string hash seed and means nothing to SQLite), every other part of the text is printed in a
determined order (`sorted(self.conditions)`). `canon_sql` normalises white space and sorts exactly those
conjuncts, at every nesting depth; the Lean model (`fitSql`) prints them sorted the same way.
"""
import re

_WS = re.compile(r"\s+")
_FIT = "SELECT id FROM fit WHERE "


def _match_paren(s, i):
    """index of the ')' closing the '(' at s[i] (quotes respected)"""
    depth = 0
    quote = False
    for j in range(i, len(s)):
        ch = s[j]
        if quote:
            if ch == "'":
                quote = False
            continue
        if ch == "'":
            quote = True
        elif ch == "(":
            depth += 1
        elif ch == ")":
            depth -= 1
            if depth == 0:
                return j
    raise ValueError("unbalanced parentheses in SQL text: " + s[:200])


def _split_top(s, word):
    """split at ` word ` outside parentheses and quotes"""
    parts = []
    depth = 0
    quote = False
    start = 0
    i = 0
    w = f" {word} "
    while i < len(s):
        ch = s[i]
        if quote:
            if ch == "'":
                quote = False
        elif ch == "'":
            quote = True
        elif ch == "(":
            depth += 1
        elif ch == ")":
            depth -= 1
        elif depth == 0 and s.startswith(w, i):
            parts.append(s[start:i])
            i += len(w)
            start = i
            continue
        i += 1
    parts.append(s[start:])
    return parts


class Ambiguous(Exception):
    """a junction's fit_query printed without parentheses inside another junction's string (`str()` of a
    junction mixing fit-level junctions with other conditions; used for hashing only): where its conjuncts end
    cannot be told from the text"""


_JFIT = _FIT + "id IN ("


def _top_positions(s, needle):
    out = []
    depth = 0
    quote = False
    for i, ch in enumerate(s):
        if quote:
            if ch == "'":
                quote = False
        elif ch == "'":
            quote = True
        elif ch == "(":
            depth += 1
        elif ch == ")":
            depth -= 1
        if depth == 0 and not quote and s.startswith(needle, i):
            out.append(i)
    return out


def _canon(s):
    # canonical form of every parenthesised group first
    out = []
    i = 0
    quote = False
    while i < len(s):
        ch = s[i]
        if quote:
            out.append(ch)
            if ch == "'":
                quote = False
            i += 1
        elif ch == "'":
            quote = True
            out.append(ch)
            i += 1
        elif ch == "(":
            j = _match_paren(s, i)
            out.append("(" + _canon(s[i + 1:j]) + ")")
            i = j + 1
        else:
            out.append(ch)
            i += 1
    s = "".join(out)
    # the conjuncts of a junction's fit_query: `SELECT id FROM fit WHERE id IN (..) AND id IN (..) ..`
    pos = _top_positions(s, _JFIT)
    if pos and pos != [0]:
        raise Ambiguous(s[:120])
    if pos:
        body = s[len(_FIT):]
        for word in ("AND", "OR"):
            parts = _split_top(body, word)
            if all(p.startswith("id IN (") and p.endswith(")") and _match_paren(p, 6) == len(p) - 1 for p in parts):
                return _FIT + f" {word} ".join(sorted(parts))
        raise Ambiguous(s[:120])
    if _JFIT in s:
        # a junction's `str()` holding a condition whose own text has conjuncts in python-set order (inside
        # `id NOT IN (…)`): the code sorted its conditions by that unordered text, so the order means nothing
        word = "OR" if len(_split_top(s, "OR")) > 1 else "AND"
        return f" {word} ".join(sorted(_split_top(s, word)))
    return s


def canon_sql(s: str) -> str:
    return _canon(_WS.sub(" ", str(s)).strip())


def num_text(v) -> str:
    """what `f"{value}"` prints into the SQL for a python number"""
    return str(v)
