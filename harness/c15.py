"""C15 — summed analyses: likelihood is the sum, parameters shared or freed as declared.

generate (a bracketing of `+` over scripted analyses, a model program, optional own models or free
parameters, a core count, a history of parameter vectors each with a schedule) ->
  real `CombinedAnalysis` / `AnalysisPool` (run unmodified on fake queues whose every operation is
  granted by a deterministic scheduler; a few histories also on real forked processes)
  vs the Lean model `AF.Combined` (flatten, mode, fitted model, sub-instances, serial and pooled
  outcomes under the same schedule, child folders);
oracle = the property sentence evaluated directly on the real outputs (own navigation of the real
instances, exact `fractions.Fraction` sums, own reading of the fitted model's prior identities)."""
import sys as _sys

if __name__ == "__main__":  # child process of the real-pool route: make /repo importable first
    import pathlib as _pl

    _sys.path.insert(0, str(_pl.Path(__file__).resolve().parent))
    import common as _common

    _common.setup_repo()

import collections
import contextlib
import json
import os
import queue as queue_mod
import subprocess
import sys
import threading
import time
from fractions import Fraction
from pathlib import Path

from common import f2h, h2f, close, VERIF, REPO, scratch_dir
import gen_comp
import extract_comp as X

import autofit as af
from autofit.mapper.prior.abstract import Prior
from autofit.mapper.prior.tuple_prior import TuplePrior
from autofit.mapper.prior_model.abstract import AbstractPriorModel
from autofit.non_linear.analysis import multiprocessing as mp_mod
from autofit.non_linear.analysis.combined import CombinedAnalysis

RULE = (
    "random bracketings of `+` over 2-7 scripted analyses (also sum([...])), default model = random API "
    "program (nested Model/Collection, shared priors, constants, tuples, arithmetic priors), three modes: "
    "plain / analyses with their own models / free parameters (priors, tuple priors, whole components, "
    "repeated and foreign priors), n_cores 1-5, histories of 1-8 evaluations each with its own schedule "
    "(worker steps and caller polls interleaved at queue-operation granularity), analyses raising "
    "FitException at chosen evaluations; non-trivial = at least 3 analyses and (a pooled history containing "
    "a raising evaluation followed by a successful one, or own models / free parameters with at least two "
    "distinct sub-instances); distinct = hash of (expression, analyses, model, mode, cores, history)"
)

# ---------------------------------------------------------------------------------------------
# deterministic scheduler: the real AnalysisPool / AnalysisProcess code on fake queues


class PoolDeadlock(BaseException):
    """the caller of the pool would poll forever"""


class _Kill(BaseException):
    pass


class _Ctl:
    def __init__(self, index):
        self.index = index
        self.state = "running"  # running | at_put | idle | dead
        self.grant = False
        self.waiting_on = None
        self.thread = None


class Sched:
    """`tokens`: -1 = the caller's pending poll proceeds, w >= 0 = process (w mod P) puts its next
    result. When the tokens run out every process runs until it has nothing left to do before each
    poll (the model's `fallback`)."""

    def __init__(self, tokens=()):
        self.cv = threading.Condition()
        self.tokens = collections.deque(tokens)
        self.fallback = False
        self.ctls = []
        self.by_thread = {}
        self.main = threading.get_ident()
        self.empty_streak = 0
        self.polls = 0
        self.killed = False
        self.stats = collections.Counter()
        self.scheduled = True

    # -- per evaluation
    def load(self, tokens):
        self.tokens = collections.deque(tokens)
        self.fallback = False
        self.empty_streak = 0
        self.polls = 0

    def ctl(self):
        try:
            return self.by_thread.get(threading.get_ident())
        except Exception:  # interpreter shutdown
            return None

    def _settled(self, c):
        if c.state in ("at_put", "dead"):
            return True
        return c.state == "idle" and c.waiting_on is not None and not c.waiting_on.items

    def settle(self, c):
        with self.cv:
            t0 = time.time()
            while not self._settled(c):
                self.cv.wait(0.5)
                if time.time() - t0 > 20:
                    raise PoolDeadlock(f"process {c.index} does not reach a queue operation")

    def step(self, c):
        """let process c put one result (no-op when it has nothing to put)"""
        self.settle(c)
        with self.cv:
            if c.state != "at_put":
                self.stats["work-noop"] += 1
                return False
            c.grant = True
            self.cv.notify_all()
            while c.grant:
                self.cv.wait(0.5)
            self.stats["work"] += 1
            return True

    def quiesce(self):
        for c in list(self.ctls):
            while self.step(c):
                pass

    def caller_point(self):
        """called whenever the caller inspects a result queue"""
        self.polls += 1
        if self.polls > 20000:
            raise PoolDeadlock("more than 20000 polls in one evaluation")
        if not self.fallback:
            while True:
                if not self.tokens:
                    self.fallback = True
                    self.stats["fallback"] += 1
                    break
                t = self.tokens.popleft()
                if t < 0:
                    return
                if self.ctls:
                    self.step(self.ctls[t % len(self.ctls)])
        self.quiesce()

    def polled(self, was_empty):
        if not was_empty:
            self.empty_streak = 0
            self.stats["poll-take"] += 1
            return
        self.stats["poll-empty"] += 1
        if self.fallback:
            self.empty_streak += 1
            if self.empty_streak > 3 * len(self.ctls) + 6:
                raise PoolDeadlock("every process is idle, every result queue is empty, the caller keeps polling")

    def shutdown(self):
        with self.cv:
            self.killed = True
            self.cv.notify_all()
        for c in self.ctls:
            if c.thread is not None:
                c.thread.join(2)


class FakeQueue:
    def __init__(self, sched):
        self.sched = sched
        self.items = collections.deque()

    # worker side -------------------------------------------------------------------------
    def put(self, x, *a, **k):
        s = self.sched
        if s.killed:
            return  # a pool finalised by the garbage collector after its case is over
        c = s.ctl()
        if c is None:
            with s.cv:
                self.items.append(x)
                s.cv.notify_all()
            return
        with s.cv:
            c.state = "at_put"
            s.cv.notify_all()
            while not c.grant:
                if s.killed:
                    raise _Kill()
                s.cv.wait(0.5)
            self.items.append(x)
            c.state = "running"
            c.grant = False
            s.cv.notify_all()

    def get(self, block=True, timeout=None):
        s = self.sched
        c = s.ctl()
        if c is not None:
            with s.cv:
                while not self.items:
                    if s.killed:
                        raise _Kill()
                    c.state = "idle"
                    c.waiting_on = self
                    s.cv.notify_all()
                    s.cv.wait(0.5)
                c.state = "running"
                c.waiting_on = None
                return self.items.popleft()
        # caller side: `empty()` followed by `get()` is one poll
        if self.items and getattr(self, "_just_polled", False):
            self._just_polled = False
            with s.cv:
                return self.items.popleft()
        while True:
            s.caller_point()
            with s.cv:
                if self.items:
                    s.polled(False)
                    return self.items.popleft()
            s.polled(True)
            if not block:
                raise queue_mod.Empty()

    def get_nowait(self):
        return self.get(block=False)

    def empty(self):
        s = self.sched
        if s.ctl() is not None:
            return not self.items
        s.caller_point()
        e = not self.items
        s.polled(e)
        self._just_polled = not e
        return e

    def qsize(self):
        return len(self.items)

    def close(self):
        pass

    def join_thread(self):
        pass

    def cancel_join_thread(self):
        pass


@contextlib.contextmanager
def scheduled_pool(sched):
    """AnalysisProcess objects created inside use fake queues and run as threads under `sched`"""
    cls = mp_mod.AnalysisProcess
    old_queue = mp_mod.Queue
    old_start, old_join = cls.__dict__.get("start"), cls.__dict__.get("join")

    def start(self):
        c = _Ctl(len(sched.ctls))

        def body():
            sched.by_thread[threading.get_ident()] = c
            try:
                self.run()
            except _Kill:
                pass
            finally:
                with sched.cv:
                    c.state = "dead"
                    sched.cv.notify_all()

        c.thread = threading.Thread(target=body, daemon=True)
        sched.ctls.append(c)
        c.thread.start()

    def join(self, timeout=None):
        return None

    mp_mod.Queue = lambda *a, **k: FakeQueue(sched)
    cls.start = start
    cls.join = join
    try:
        yield sched
    finally:
        mp_mod.Queue = old_queue
        for name, old in (("start", old_start), ("join", old_join)):
            if old is None:
                try:
                    delattr(cls, name)
                except AttributeError:
                    pass
            else:
                setattr(cls, name, old)


# ---------------------------------------------------------------------------------------------
# scripted analyses


def nav(o, path):
    for k in path:
        try:
            o = getattr(o, k)
        except AttributeError:
            o = o[int(k)] if k.isdigit() else o[k]
    return o


class TaggedResult(af.Result):
    tag = None


class Scripted(af.Analysis):
    """log likelihood = w * x + c where x is one number of the instance; FitException when x is in `bad`"""

    def __init__(self, name, watch, w, c, bad=()):
        self.name = name
        self.watch = tuple(watch)
        self.w = w
        self.c = c
        self.bad = set(bad)
        self.log = []

    def x_of(self, instance):
        return float(nav(instance, self.watch))

    def log_likelihood_function(self, instance):
        x = self.x_of(instance)
        self.log.append(("ll", id(instance), x))
        if x in self.bad:
            raise af.exc.FitException(f"scripted failure of analysis {self.name}")
        return self.w * x + self.c

    def _folder(self, paths):
        try:
            return str(Path(paths.output_path).name)
        except Exception as e:  # noqa
            return f"?{type(e).__name__}"

    touch = False

    def visualize(self, paths, instance, during_analysis):
        self.log.append(("visualize", self._folder(paths), self.x_of(instance)))
        if self.touch:
            d = Path(paths.output_path)
            d.mkdir(parents=True, exist_ok=True)
            (d / f"viz_{self.name}").write_text("x")

    def visualize_before_fit(self, paths, model):
        self.log.append(("visualize_before_fit", self._folder(paths), int(model.prior_count)))

    def profile_log_likelihood_function(self, paths, instance):
        self.log.append(("profile", self._folder(paths), self.x_of(instance)))

    def save_attributes(self, paths):
        self.log.append(("save_attributes", self._folder(paths)))

    def save_results(self, paths, result):
        self.log.append(("save_results", self._folder(paths), getattr(result, "tag", None)))

    def make_result(self, samples_summary, paths, samples=None, search_internal=None, analysis=None):
        r = TaggedResult(samples_summary=samples_summary, paths=paths, samples=samples,
                         search_internal=search_internal, analysis=analysis)
        r.tag = self.name
        return r


def build_expr(e, leaves):
    if "leaf" in e:
        return leaves[e["leaf"]]
    if "sum" in e:
        return sum(leaves[k] for k in e["sum"])
    l, r = e["add"]
    return build_expr(l, leaves) + build_expr(r, leaves)


def expr_wire(e):
    if "sum" in e:
        ks = e["sum"]
        w = {"leaf": ks[0]}
        for k in ks[1:]:
            w = {"add": [w, {"leaf": k}]}
        return w
    if "leaf" in e:
        return e
    return {"add": [expr_wire(e["add"][0]), expr_wire(e["add"][1])]}


def expr_leaves(e):
    if "leaf" in e:
        return [e["leaf"]]
    if "sum" in e:
        return list(e["sum"])
    return expr_leaves(e["add"][0]) + expr_leaves(e["add"][1])


def expr_text(e):
    if "leaf" in e:
        return f"a{e['leaf']}"
    if "sum" in e:
        return "sum([" + ", ".join(f"a{k}" for k in e["sum"]) + "])"
    return "(" + expr_text(e["add"][0]) + " + " + expr_text(e["add"][1]) + ")"


def gen_expr(rng, n):
    ks = list(range(n))
    rng.shuffle(ks)
    if rng.random() < 0.12:
        return {"sum": ks}

    def go(items):
        if len(items) == 1:
            return {"leaf": items[0]}
        cut = rng.randint(1, len(items) - 1)
        return {"add": [go(items[:cut]), go(items[cut:])]}

    return go(ks)


# ---------------------------------------------------------------------------------------------
# models: numeric places an analysis can watch, priors of a component


def numeric_places(node, prefix=()):
    """paths (attribute names only) to numbers of the instance: free parameters, constants, derived values"""
    k = node.get("k")
    out = []
    if k in ("prior", "const", "arith", "modif"):
        return [(prefix, k)]
    if k == "model":
        ctor = set(node.get("ctor", []))
        for name, child in node["attrs"]:
            if name in ctor:
                out += numeric_places(child, prefix + (name,))
            elif child.get("k") == "const":
                out.append((prefix + (name,), "const"))
    elif k == "coll":
        for name, child in node["attrs"]:
            if child.get("k") != "tuple":
                out += numeric_places(child, prefix + (name,))
    return out


def walk_ids(node):
    """ids in the order `path_instances_of_class(Prior)` meets them (repetitions kept)"""
    k = node.get("k")
    if k == "prior":
        return [node["id"]]
    out = []
    for _, child in node.get("attrs", []):
        out += walk_ids(child)
    return out


def walk_places(node, prefix=()):
    k = node.get("k")
    if k == "prior":
        return [(prefix, node["id"])]
    out = []
    for name, child in node.get("attrs", []):
        out += walk_places(child, prefix + (name,))
    return out


def node_at(node, path):
    for name in path:
        node = dict((a, c) for a, c in node["attrs"])[name]
    return node


def obj_at(model, path):
    for name in path:
        model = getattr(model, name)
    return model


def parts_of(node, prefix=()):
    """components and tuple priors addressable by attribute path (non-root)"""
    out = []
    for name, child in node.get("attrs", []):
        if child.get("k") in ("model", "coll", "tuple"):
            out.append(prefix + (name,))
            if child.get("k") != "tuple":
                out += parts_of(child, prefix + (name,))
    return out


def dyadic(rng):
    return rng.randint(-400, 400) / 8.0


def gen_vector(rng, n, exact):
    if exact:
        vals = set()
        while len(vals) < n:
            vals.add(dyadic(rng))
        out = list(vals)
        rng.shuffle(out)
        return out
    return [rng.uniform(-50, 50) for _ in range(n)]


def gen_schedule(rng, n_proc, n_analyses):
    """tokens: -1 poll, w>=0 process w puts a result"""
    style = rng.random()
    toks = []
    if style < 0.15:
        return toks  # straight to the fallback: processes finish, then the caller sweeps
    if style < 0.3:
        # strictly alternating
        for _ in range(rng.randint(1, 4 * n_analyses)):
            toks.append(rng.randrange(n_proc))
            toks.append(-1)
        return toks
    length = rng.randint(1, 6 * n_analyses + 4)
    p_poll = rng.choice([0.2, 0.5, 0.8])
    fav = rng.randrange(n_proc)
    for _ in range(length):
        if rng.random() < p_poll:
            toks.append(-1)
        elif rng.random() < 0.4:
            toks.append(fav)
        else:
            toks.append(rng.randrange(n_proc + 1))
    return toks


# ---------------------------------------------------------------------------------------------
# operand structure: with_free_parameters at any position of the expression (model: AF.Combined.buildF)


def fexpr_has_free(e):
    if "leaf" in e:
        return False
    if "free" in e:
        return True
    return fexpr_has_free(e["add"][0]) or fexpr_has_free(e["add"][1])


def fexpr_erase(e):
    if "leaf" in e:
        return e
    if "free" in e:
        return fexpr_erase(e["of"])
    return {"add": [fexpr_erase(e["add"][0]), fexpr_erase(e["add"][1])]}


def fexpr_live(e):
    """the declarations in force (not replaced by a later with_free_parameters), left to right"""
    if "leaf" in e:
        return []
    if "free" in e:
        return [e["free"]]
    return fexpr_live(e["add"][0]) + fexpr_live(e["add"][1])


def fexpr_text(e):
    if "leaf" in e:
        return f"a{e['leaf']}"
    if "free" in e:
        return fexpr_text(e["of"]) + ".with_free_parameters(" + ", ".join(
            ".".join(f.get("prior_at") or f.get("part") or ["<foreign>"]) for f in e["free"]) + ")"
    return "(" + fexpr_text(e["add"][0]) + " + " + fexpr_text(e["add"][1]) + ")"


def resolve_fexpr(e, model, live_args):
    """real arguments of every declaration (kept by identity of the spec list) and the wire form for the driver"""
    if "leaf" in e:
        return e
    if "free" in e:
        w = resolve_fexpr(e["of"], model, live_args)
        args, wire = resolve_free(model, e["free"])
        live_args[id(e["free"])] = (args, wire)
        return {"free": wire, "of": w}
    return {"add": [resolve_fexpr(e["add"][0], model, live_args), resolve_fexpr(e["add"][1], model, live_args)]}


def build_fexpr(e, leaves, live_args):
    """evaluate the expression on the real code"""
    if "leaf" in e:
        return leaves[e["leaf"]]
    if "free" in e:
        return build_fexpr(e["of"], leaves, live_args).with_free_parameters(*live_args[id(e["free"])][0])
    return build_fexpr(e["add"][0], leaves, live_args) + build_fexpr(e["add"][1], leaves, live_args)


def fexpr_well_formed(e):
    if "leaf" in e:
        return True
    if "free" in e:
        return "leaf" not in fexpr_erase(e["of"]) and fexpr_well_formed(e["of"])
    return fexpr_well_formed(e["add"][0]) and fexpr_well_formed(e["add"][1])


def fexpr_build_failed(ctx, case, fx, fx_wire, node, flags, exc, replay):
    """the real expression raised: the property fails unless with_free_parameters was called on a single
    analysis (not a sum); the model must predict the same kind of exception"""
    kind = type(exc).__name__
    if fexpr_well_formed(fx):
        ctx.fail("C15-free-operand", f"a sum with a free-parameter analysis as an operand raised {kind}: "
                 + fexpr_text(fx), replay, str(exc)[:200])
    else:
        ctx.hit("fexpr:with-free-parameters-on-a-single-analysis")
    if getattr(ctx, "lean", None) is None:  # the real-process route runs without the model
        return
    ans = ctx.lean.ask({"p": "C15", "cfg": {"drain": True, "map_idx": True, "new_idx": True,
                                           "free_add": bool(flags.get("free_add", True))},
                        "expr": {"leaf": 0}, "fexpr": fx_wire, "analyses": [], "comp": node, "history": []})
    if "driver_error" in ans:
        ctx.disagree("driver", replay, None, ans)
    elif ans.get("build_error") != kind and fexpr_well_formed(fx) == bool(ans.get("well_formed")):
        if not fexpr_well_formed(fx) or not flags.get("free_add", True):
            ctx.disagree("C15.build_error", replay, kind, ans.get("build_error"))
    elif fexpr_well_formed(fx) != bool(ans.get("well_formed")):
        ctx.disagree("C15.well_formed", replay, fexpr_well_formed(fx), ans.get("well_formed"))
    ctx.case({"fexpr": fx, "prog": case["program"], "raised": kind}, nontrivial=False)


def add_fexpr(rng, case):
    """turn a free-parameter case into one whose with_free_parameters calls sit anywhere in the expression"""
    if case.get("mode") != "free" or "sum" in case["expr"] or not case.get("free"):
        return case
    if rng.random() < 0.45:
        return case
    specs = list(case["free"])
    sums = []  # paths to the `add` nodes

    def walk(e, path):
        if "add" in e:
            sums.append(path)
            walk(e["add"][0], path + (0,))
            walk(e["add"][1], path + (1,))

    walk(case["expr"], ())
    k = min(len(sums), len(specs), rng.choice([1, 1, 2, 2, 3]))
    chosen = rng.sample(sums, k)
    rng.shuffle(specs)
    share = {c: [] for c in chosen}
    for j, sp in enumerate(specs):
        share[chosen[j % k]].append(sp)
    leaf_free = rng.random() < 0.03  # with_free_parameters on a single analysis: AttributeError

    def go(e, path):
        if "leaf" in e:
            if leaf_free:
                return {"free": [dict(specs[0])], "of": e}
            return e
        out = {"add": [go(e["add"][0], path + (0,)), go(e["add"][1], path + (1,))]}
        if path in share:
            out = {"free": share[path], "of": out}
            if rng.random() < 0.12:  # declared again: the later declaration replaces the earlier one
                out = {"free": [dict(rng.choice(specs))], "of": out}
        return out

    case["fexpr"] = go(case["expr"], ())
    return case


def probe_free_add():
    """finding flag: a FreeParameterAnalysis as an operand of + keeps its free parameters"""
    try:
        a, b, c, d = [Scripted(k, ["a"], 1.0, 0.0) for k in range(4)]
        m = af.Model(VP1, a=af.UniformPrior(lower_limit=0.0, upper_limit=1.0))
        x = (a + b).with_free_parameters(m.a) + c
        y = (c + d) + (a + b).with_free_parameters(m.a)
        return all(
            len(z.analyses) == n and [int(p.id) for p in getattr(z, "free_parameters", [])] == [int(m.a.id)]
            and z.modify_model(m).prior_count == n
            for z, n in ((x, 3), (y, 4)))
    except Exception:
        return False


# ---------------------------------------------------------------------------------------------
# hooks forwarded to the analyses held (model: AF.Combined.hookCalls over the table regenerated from the source)


class _HookResult:
    """stands for a CombinedResult: iterable over / holding one tagged child result per analysis"""

    def __init__(self, m):
        self.tag = "whole"
        self.child_results = []
        for i in range(m):
            r = _HookResult(0)
            r.tag = i
            self.child_results.append(r)

    def __iter__(self):
        return iter(self.child_results)

    def __len__(self):
        return len(self.child_results)


def check_hooks(ctx, n, m):
    """call every hook of the table on a real CombinedAnalysis of n recording analyses (no pool); m = items of the
    zipped argument. Oracle: every output hook reaches every analysis once, child folder i / child result i for the
    i-th; correspondence: the calls (analysis, folder, zipped item) in order = hookCalls of the row's route"""
    import tables_c15

    rows = tables_c15.table()
    ans = ctx.lean.ask({"p": "C15", "kind": "hooks", "n": n, "m": m})
    replay = {"hooks": {"n": n, "m": m}}
    if "driver_error" in ans:
        ctx.disagree("driver", replay, None, ans)
        return
    model_rows = {h["name"]: h for h in ans["hooks"]}
    if sorted(model_rows) != sorted(r["name"] for r in rows):
        ctx.disagree("C15.hook_table", replay, sorted(r["name"] for r in rows), sorted(model_rows))
        return
    log = []
    parent = af.DirectoryPaths(name=f"c15hooks_{n}_{m}")
    parent_folder = str(Path(parent.output_path).name)

    def folder_of(paths):
        try:
            f = str(Path(paths.output_path).name)
        except Exception:
            return "?"
        return None if f == parent_folder else folder_index(f)

    def recorder(hname, argnames):
        def rec(self, *a, **k):
            bound = dict(zip(argnames, a))
            bound.update(k)
            res = bound.get("result")
            log.append((hname, self.name, folder_of(bound.get("paths")) if "paths" in bound else None,
                        res.tag if isinstance(res, _HookResult) and res.tag != "whole" else None))
            return self if hname.startswith("modify_") else None

        return rec

    body = {r["name"]: recorder(r["name"], r["args"]) for r in rows if not r["shared"] and r["name"] != "log_likelihood_function"}
    Rec = type("Rec", (af.Analysis,), body)
    recs = []
    for i in range(n):
        a = Rec()
        a.name = i
        vis = {r["name"]: staticmethod((lambda h, i_, names: lambda *x, **k: log.append(
            (h, i_, folder_of(dict(zip(names, x), **k).get("paths")), None)))(r["name"], i, r["args"]))
            for r in rows if r["shared"] and r["origin"] == "Visualizer"}
        a.Visualizer = type("RecVis", (), vis)
        for r in rows:
            if r["shared"] and r["origin"] == "Analysis":
                setattr(a, r["name"], (lambda h, i_, names: lambda *x, **k: log.append(
                    (h, i_, folder_of(dict(zip(names, x), **k).get("paths")), None)))(r["name"], i, r["args"]))
        recs.append(a)
    combined = CombinedAnalysis(*recs)
    combined.n_cores = 1
    values = {"paths": parent, "model": af.Model(VP1), "instance": VP1(a=1.0), "result": _HookResult(m),
              "during_analysis": True, "analyses": recs}
    for r in rows:
        if r["name"] in ("log_likelihood_function", "with_model"):
            continue
        del log[:]
        raised = None
        try:
            getattr(combined, r["name"])(**{a: values.get(a) for a in r["args"] if a != "analyses"})
        except Exception as e:  # inherited hooks run the base class body on the combined analysis itself
            raised = type(e).__name__
        calls = [[c[1], c[2], c[3]] for c in log if c[0] == r["name"]]
        mrow = model_rows[r["name"]]
        ctx.hit("hook-route:" + (mrow["route"] if isinstance(mrow["route"], str) else "eachChild"))
        output = r["takes_paths"] and not r["shared"] and not r["question"]
        failed = False
        if output and m >= n:
            reached = sorted(c[0] for c in calls)
            if reached != list(range(n)):
                failed = True
                ctx.fail("C15-hook-not-forwarded", f"{r['name']} of a combined analysis of {n} analyses reached the analyses "
                         f"{reached} (each expected once)" + (f", raised {raised}" if raised else ""), replay)
            for c in calls:
                if isinstance(c[1], int) and c[1] != c[0]:
                    failed = True
                    ctx.fail("C15-folder-serial", f"{r['name']}: the analysis at position {c[0]} was given folder analysis_{c[1]}", replay)
                if c[2] is not None and c[2] != c[0]:
                    failed = True
                    ctx.fail("C15-child-result", f"{r['name']}: the analysis at position {c[0]} was given child result {c[2]}", replay)
        if not failed and calls != mrow["calls"]:
            ctx.disagree("C15.hook_calls", {"hooks": {"n": n, "m": m, "hook": r["name"]}}, calls, mrow["calls"])
    ctx.case({"hooks": [n, m]}, nontrivial=False)


# ---------------------------------------------------------------------------------------------
# case generation

WS = [0.5, -0.5, 1.0, -1.0, 2.0, 0.25, 1.5, -3.0, 4.0]


def model_program(rng, small=False):
    for _ in range(50):
        prog = gen_comp.gen_program(rng, max_priors=5 if small else 8, allow_array=False, allow_pow=False,
                                    allow_tuple=True, allow_log=False)  # (exact sums: no NaN-valued relations)
        try:
            H = gen_comp.run_program(prog)
            m = H["root"]
            if m.prior_count < 1 or m.prior_count > 10:
                continue
            node = X.node_of(m)
            if not numeric_places(node):
                continue
            m.mapper_from_partial_prior_arguments({})  # prior passing itself is C12's subject
            return prog
        except Exception:
            continue
    raise RuntimeError("no usable model program")


def gen_case(rng, force_mode=None, force_cores=None):
    n = rng.choice([2, 2, 3, 3, 3, 4, 4, 5, 6, 7])
    mode = force_mode or rng.choices(["plain", "own", "free"], weights=[5, 2, 3])[0]
    exact = rng.random() < 0.8
    prog = model_program(rng)
    H = gen_comp.run_program(prog)
    node = X.node_of(H["root"])
    places = numeric_places(node)
    analyses = []
    own_progs = {}
    for k in range(n):
        a = {"name": k, "w": rng.choice(WS), "c": rng.randint(-40, 40) / 8.0, "own": None}
        if mode == "own" and (rng.random() < 0.45 or (k == n - 1 and not own_progs)):
            op = model_program(rng, small=True)
            own_progs[k] = op
            a["own"] = op
            onode = X.node_of(gen_comp.run_program(op)["root"])
            a["watch"] = list(rng.choice(numeric_places(onode))[0])
        else:
            # free parameters are interesting when they are watched
            cands = places
            pri = [p for p in places if p[1] == "prior"]
            if pri and rng.random() < 0.75:
                cands = pri
            a["watch"] = list(rng.choice(cands)[0])
        analyses.append(a)
    free = None
    if mode == "free":
        free = []
        ids = sorted(set(walk_ids(node)))
        parts = parts_of(node)
        for _ in range(rng.choice([1, 1, 2, 2, 3])):
            r = rng.random()
            if r < 0.55 or not parts:
                wp = [p for p in walk_places(node)]
                free.append({"prior_at": list(rng.choice(wp)[0])})
            elif r < 0.9:
                free.append({"part": list(rng.choice(parts))})
            else:
                free.append({"foreign": True})
        if rng.random() < 0.15:
            free.append(dict(rng.choice(free)))  # the same parameter named twice
    cores = force_cores or rng.choice([1, 2, 2, 2, 3, 3, 4, 5])
    n_eval = rng.choice([1, 2, 3, 3, 4, 5, 6, 8])
    # number of parameters of the fitted model is only known after the real modify_model: vectors are
    # generated long enough (10 original + free copies) and cut by the harness
    history = []
    for _ in range(n_eval):
        history.append({"seed": rng.getrandbits(48), "fail": []})
    # which (evaluation, analysis) pairs raise
    for h in history:
        if rng.random() < 0.3:
            h["fail"] = sorted(set(rng.randrange(n) for _ in range(rng.choice([1, 1, 2]))))
    return add_fexpr(rng, {"expr": gen_expr(rng, n), "analyses": analyses, "program": prog, "mode": mode, "free": free,
                           "cores": cores, "history": history, "exact": exact})


# ---------------------------------------------------------------------------------------------
# running one case on the real code


def unwrap(a):
    """the scripted analysis behind IndexedAnalysis / ModelAnalysis wrappers"""
    seen = 0
    while not isinstance(a, Scripted) and seen < 6:
        a = a.__dict__.get("analysis")
        seen += 1
    return a


def outcome_of(f):
    try:
        return {"v": f2h(float(f()))}
    except PoolDeadlock as e:
        return {"stuck": str(e)[:80]}
    except af.exc.FitException:
        return {"raises": "FitException"}
    except Exception as e:  # the kind of exception is the observable
        return {"raises": type(e).__name__}


def same_outcome(a, b, exact):
    if "v" in a and "v" in b:
        if a["v"] == b["v"]:
            return True
        return (not exact) and close(h2f(a["v"]), h2f(b["v"]), rel=1e-11)
    if "raises" in a and "raises" in b:
        return True
    return False


def model_outcome(o):
    if o == "stuck":
        return {"stuck": "model"}
    return o


def folder_index(name):
    if isinstance(name, str) and name.startswith("analysis_"):
        try:
            return int(name[len("analysis_"):])
        except ValueError:
            return name
    return name


def resolve_free(model, free):
    args, wire = [], []
    for f in free:
        if "prior_at" in f:
            p = obj_at(model, f["prior_at"])
            args.append(p)
            wire.append({"prior": int(p.id)})
        elif "part" in f:
            args.append(obj_at(model, f["part"]))
            wire.append({"part": list(f["part"])})
        else:
            p = af.UniformPrior(lower_limit=0.0, upper_limit=1.0)
            args.append(p)
            wire.append({"prior": int(p.id)})
    return args, wire


def probe_flags():
    """replay the witness of every finding flag on the real code (DESIGN §0)"""
    flags = {}
    a, b, c, d = [Scripted(k, ["a"], 1.0, 0.0) for k in range(4)]
    m = af.Model(VP1)
    try:
        x = (a + b) + (c.with_model(m) + d)
        fitted = x.modify_model(af.Model(VP1))
        flags["new_idx"] = fitted is not None and isinstance(fitted, af.Collection) and len(fitted) == 4
    except Exception:
        flags["new_idx"] = False
    # drain: analysis 0 raises at the first evaluation, both results are queued before the caller looks
    a, b = Scripted(0, ["a"], 1.0, 0.0, bad=[1.0]), Scripted(1, ["a"], 10.0, 0.0)
    sched = Sched()
    try:
        with scheduled_pool(sched):
            x = a + b
            x.n_cores = 2
            outs = []
            for v in (1.0, 3.0):
                sched.load([])
                outs.append(outcome_of(lambda: x.log_likelihood_function(VP1(a=v))))
        flags["drain"] = outs[1] == {"v": f2h(33.0)}
    except BaseException:
        flags["drain"] = False
    finally:
        sched.shutdown()
    # map: four analyses on two processes
    As = [Scripted(k, ["a"], 1.0, 0.0) for k in range(4)]
    sched = Sched()
    try:
        with scheduled_pool(sched):
            x = As[0] + As[1] + As[2] + As[3]
            x.n_cores = 2
            sched.load([])
            x.visualize(af.DirectoryPaths(), VP1(a=1.0), True)
        got = [[folder_index(e[1]) for e in s.log if e[0] == "visualize"] for s in As]
        flags["map_idx"] = got == [[0], [1], [2], [3]]
    except BaseException:
        flags["map_idx"] = False
    finally:
        sched.shutdown()
    flags["free_add"] = probe_free_add()
    return flags


class VP1:
    def __init__(self, a=0.0):
        self.a = a


def expected_instances(mode, model, fitted, n, vec):
    """what each analysis (by position) must be given: built from the child model alone with the
    values the vector assigns to that child's parameters"""
    if mode == "plain":
        inst = model.instance_from_vector(vec, ignore_prior_limits=True)
        return [inst] * n
    order = [int(p.id) for p in fitted.priors_ordered_by_id]
    rank = {pid: j for j, pid in enumerate(order)}
    out = []
    for i in range(n):
        child = fitted[i]
        sub = [vec[rank[int(p.id)]] for p in child.priors_ordered_by_id]
        out.append(child.instance_from_vector(sub, ignore_prior_limits=True))
    return out


def exact_sum(terms):
    s = Fraction(0)
    for t in terms:
        s += Fraction(t)
    return s


def one_case(ctx, case, label="gen", flags=None, deep=True, real=False):
    flags = flags or ctx.notes.get("flags") or {"drain": True, "map_idx": True, "new_idx": True}
    local_dis = []
    fails_before = len(ctx.failures) + len(ctx.known_hits)
    mode = case["mode"]
    exact = bool(case.get("exact", True))
    replay = {"case": case, "label": label}

    def fail(cls, what, detail=None):
        ctx.fail(cls, what, replay, detail)

    def dis(clause, impl, model):
        local_dis.append((clause, impl, model))

    # ---- build
    H = gen_comp.run_program(case["program"])
    model = H["root"]
    node = X.node_of(model)
    scripted, leaves, own_models, own_nodes = {}, {}, {}, {}
    for a in case["analyses"]:
        s = Scripted(a["name"], a["watch"], a["w"], a["c"], [])
        scripted[a["name"]] = s
        if a.get("own"):
            om = gen_comp.run_program(a["own"])["root"]
            own_models[a["name"]] = om
            own_nodes[a["name"]] = X.node_of(om)
            leaves[a["name"]] = s.with_model(om)
        else:
            leaves[a["name"]] = s
    names = expr_leaves(case["expr"])
    n = len(names)
    free_wire = None
    fx, fx_wire, fx_live = case.get("fexpr"), None, {}
    try:
        if fx is not None:
            fx_wire = resolve_fexpr(fx, model, fx_live)
            free_wire = [w for v in fx_live.values() for w in v[1]]
            free_args = [a for spec in fexpr_live(fx) for a in fx_live[id(spec)][0]]
            try:
                combined = build_fexpr(fx, leaves, fx_live)
            except Exception as e:
                fexpr_build_failed(ctx, case, fx, fx_wire, node, flags, e, replay)
                return
            ctx.hit("fexpr:free-parameters-declared-inside" if "free" not in fx else "fexpr:outermost")
        else:
            combined = build_expr(case["expr"], leaves)
        if mode == "free" and fx is None:
            free_args, free_wire = resolve_free(model, case["free"])
            # another free-parameter analysis made for the same model object before (declaring another parameter
            # free) is none of this one's business
            others = [p for p in model.priors_ordered_by_id if all(p is not a for a in free_args)]
            if others and case.get("decoy", True):
                ctx.hit("free:other-free-parameter-analysis-made-before")
                (Scripted("decoy1", [], 1.0, 0.0, []) + Scripted("decoy2", [], 1.0, 0.0, [])).with_free_parameters(others[-1])
            combined = combined.with_free_parameters(*free_args)
    except Exception as e:
        fail("C15-combine-raises", f"combining analyses raised {type(e).__name__}", str(e)[:200])
        return
    all_ids = set(walk_ids(node))
    for on in own_nodes.values():
        all_ids |= set(walk_ids(on))
    for f in free_wire or []:
        if "prior" in f:
            all_ids.add(f["prior"])
    base = max(all_ids) + 1 if all_ids else 1

    # ---- static observables
    try:
        order = [unwrap(a).name for a in combined.analyses]
    except Exception as e:
        fail("C15-order", f"analyses of the combined analysis cannot be read: {type(e).__name__}")
        return
    if sorted(order) != sorted(names):
        fail("C15-order", "the combined analysis does not hold exactly the analyses that were added",
             {"held": order, "added": names, "expr": expr_text(case["expr"])})
        return
    n_free_held = len(getattr(combined, "free_parameters", None) or [])
    if mode == "free" and n_free_held > 400:
        # far more than any declaration made here can expand to (free parameters kept in shared state pile up with
        # every analysis made; modify_model would draw a new prior for each of them, per analysis)
        fail("C15-shared-parameter-freed", f"the free-parameter analysis holds {n_free_held} free parameters, "
             "far more than were declared for it")
        return
    # the same analysis asked twice about ONE model object that is edited in place in between (a second fit after the
    # user changed the model): the fitted model follows the model as it is now
    try:
        import copy as _copy
        probe = _copy.deepcopy(model)
        n_first = int(combined.modify_model(probe).prior_count)
        probe.c15_extra_parameter = af.UniformPrior(lower_limit=0.0, upper_limit=1.0)
        n_second = int(combined.modify_model(probe).prior_count)
        ctx.hit("modify-model-twice")
        if n_second <= n_first and not own_models:  # (analyses given their own model do not look at the fitted model)
            fail("C15-fitted-model-ignores-edit", "modify_model on a model object that gained a parameter since the analysis was first asked "
                 "returns a model without it", {"first": n_first, "second": n_second})
            return
    except Exception as e:  # noqa: what modify_model does on the model as composed is examined below
        ctx.hit("modify-model-twice-raised:" + type(e).__name__)
    try:
        fitted = combined.modify_model(model)
    except Exception as e:
        fail("C15-modify-model-raises", f"modify_model raised {type(e).__name__}", str(e)[:200])
        return
    if fitted is model:
        impl_mode = "plain"
    else:
        impl_mode = "free" if mode == "free" else "own"
    want_mode = "free" if mode == "free" else ("own" if own_models else "plain")
    if fx is not None and fexpr_has_free(fx) and (impl_mode != "free" or not hasattr(combined, "free_parameters")):
        fail("C15-free-operand", "free parameters declared for an operand of + are lost in the sum: " + fexpr_text(fx),
             {"treated_as": impl_mode, "type": type(combined).__name__})
        return
    if impl_mode != want_mode:
        fail("C15-own-model-ignored" if want_mode == "own" else "C15-mode",
             f"expected the combined analysis to treat the model as '{want_mode}', it treats it as '{impl_mode}'",
             {"expr": expr_text(case["expr"]), "own": sorted(own_models)})
    fnode = X.node_of(fitted)
    ids_sorted = sorted(set(walk_ids(fnode)))
    rank = {pid: j for j, pid in enumerate(ids_sorted)}
    impl_places = sorted([list(map(str, p)), rank[i]] for p, i in walk_places(fnode))
    impl_count = int(fitted.prior_count)

    # ---- oracle: structure of the fitted model
    if impl_mode != "plain":
        try:
            children = [fitted[i] for i in range(n)]
            if len(fitted) != n:
                raise IndexError(len(fitted))
        except Exception as e:
            fail("C15-fitted-shape", "the fitted model is not a collection with one model per analysis", repr(e))
            return
        cnodes = [X.node_of(c) for c in children]
        if mode == "free":
            F = set()
            for arg in free_args:
                if isinstance(arg, Prior):
                    F.add(int(arg.id))
                else:
                    F |= set(walk_ids(X.node_of(arg)))
            orig = walk_places(node)
            fresh_seen = {}
            for i, cn in enumerate(cnodes):
                got = dict((tuple(p), pid) for p, pid in walk_places(cn))
                if sorted(got) != sorted(tuple(p) for p, _ in orig):
                    fail("C15-free-structure", "a copy of the model does not have the places of the model", {"analysis": i})
                    break
                per_copy = {}
                for p, pid in orig:
                    g = got[tuple(p)]
                    if pid not in F:
                        if g != pid:
                            fail("C15-shared-parameter-freed",
                                 "a parameter that was not declared free is not shared by every analysis",
                                 {"analysis": i, "place": list(p)})
                    else:
                        if g in all_ids or g == pid:
                            fail("C15-free-parameter-shared",
                                 "a free parameter is not an independent copy for an analysis",
                                 {"analysis": i, "place": list(p)})
                        if per_copy.setdefault(pid, g) != g:
                            fail("C15-free-structure", "places sharing one free parameter get different copies",
                                 {"analysis": i, "place": list(p)})
                        owner = fresh_seen.setdefault(g, (i, pid))
                        if owner != (i, pid):
                            fail("C15-free-parameter-shared",
                                 "two analyses (or two free parameters) share one copy of a free parameter",
                                 {"analysis": i, "other": owner[0], "place": list(p)})
            n_free = len(F & set(pid for _, pid in orig))
            n_all = len(set(pid for _, pid in orig))
            if impl_count != (n_all - n_free) + n * n_free:
                fail("C15-free-count", "the fitted model does not have one parameter per analysis for each free "
                     "parameter plus one for every other parameter",
                     {"count": impl_count, "parameters": n_all, "free": n_free, "analyses": n})
        else:
            for i, cn in enumerate(cnodes):
                want = own_nodes.get(order[i], node)
                if sorted(walk_places(cn)) != sorted(walk_places(want)):
                    fail("C15-own-model-misplaced", "the i-th member of the fitted collection is not the model of the i-th analysis",
                         {"analysis": i, "name": order[i]})

    # ---- histories
    n_param = impl_count
    hist = []
    for h in case["history"]:
        import random as _r

        r = _r.Random(h["seed"]) if "seed" in h else None
        vec = h["v"] if "v" in h else gen_vector(r, n_param, exact)
        hist.append({"v": [float(x) for x in vec], "fail": h.get("fail", []), "h": h})
    # expected x of every analysis (by position) at every evaluation
    try:
        exp_inst = [expected_instances(impl_mode, model, fitted, n, h["v"]) for h in hist]
        exp_x = [[scripted[order[i]].x_of(exp_inst[k][i]) for i in range(n)] for k in range(len(hist))]
    except Exception as e:
        ctx.hit("expected-instance-unavailable:" + type(e).__name__)
        return
    for k, h in enumerate(hist):
        for name in h["fail"]:
            if name in scripted and name in order:
                scripted[name].bad.add(exp_x[k][order.index(name)])
    bad_wire = {name: sorted(s.bad) for name, s in scripted.items()}

    def expected_outcome(k):
        terms = []
        for i in range(n):
            s = scripted[order[i]]
            x = exp_x[k][i]
            if x in s.bad:
                return {"raises": "FitException"}
            terms.append(s.w * x + s.c)
        # sums of small dyadic numbers are exact in every order: compared bit-exactly
        ex = all(abs(t) < 2.0 ** 30 and Fraction(t).denominator <= 1024 for t in terms)
        return {"sum": exact_sum(terms), "abs": sum(abs(t) for t in terms), "exact": ex}

    def check_outcome(got, k, route, after_raise):
        want = expected_outcome(k)
        if "stuck" in got:
            fail("C15-pool-deadlock", f"evaluation {k} through the pool never returns", got)
            return False
        if "raises" in want:
            if "raises" not in got:
                fail("C15-exception-lost" + ("-pool" if route == "pool" else ""),
                     f"an analysis raised at evaluation {k} but the {route} sum returned a value", {"got": got})
                return False
            return True
        if "raises" in got:
            cls = "C15-spurious-exception-pool" if route == "pool" else "C15-spurious-exception"
            if after_raise and route == "pool":
                cls = "C15-pool-stale-after-exception"
            fail(cls, f"evaluation {k}: no analysis raises on this instance but the {route} sum raised {got['raises']}", {"got": got})
            return False
        g = Fraction(h2f(got["v"]))
        ok = g == want["sum"] if want["exact"] else abs(g - want["sum"]) <= Fraction(1e-13) * Fraction(max(want["abs"], 1e-300)) * (n + 2)
        if not ok:
            cls = "C15-serial-sum"
            if route == "pool":
                cls = "C15-pool-stale-after-exception" if after_raise else "C15-pool-sum"
            fail(cls, f"evaluation {k}: the {route} log likelihood is not the sum of the analyses' log likelihoods "
                 "on their (sub-)instances", {"got": h2f(got["v"]), "want": float(want["sum"]), "cores": case["cores"] if route == "pool" else 1})
            return False
        return True

    # ---- serial evaluation
    real_inst = []
    for h in hist:
        try:
            real_inst.append(fitted.instance_from_vector(h["v"], ignore_prior_limits=True))
        except Exception as e:
            ctx.hit("instance-from-vector-raised:" + type(e).__name__)
            return
    impl_serial, impl_subs0 = [], None
    try:
        combined.n_cores = 1
    except Exception as e:
        fail("C15-n-cores", f"setting n_cores = 1 raised {type(e).__name__}")
        return
    for k, h in enumerate(hist):
        for s in scripted.values():
            s.log.clear()
            s.keep = None
        got = outcome_of(lambda: combined.log_likelihood_function(real_inst[k]))
        impl_serial.append(got)
        ok = check_outcome(got, k, "serial", False)
        # each analysis evaluated (at most) once, on its own sub-instance
        for i in range(n):
            s = scripted[order[i]]
            xs = [e[2] for e in s.log if e[0] == "ll"]
            if len(xs) > 1:
                fail("C15-evaluated-twice", f"analysis at position {i} was evaluated {len(xs)} times in one evaluation")
            if xs and f2h(xs[0]) != f2h(exp_x[k][i]) and ok:
                fail("C15-sub-instance", "an analysis was evaluated on a different (sub-)instance than its own",
                     {"position": i, "saw": xs[0], "own": exp_x[k][i]})

    if deep:
        check_folders(ctx, combined, scripted, order, real_inst[0], exp_x[0], None, fail, "serial")

    # ---- pooled evaluation under the schedules
    cores = int(case["cores"])
    impl_pool, scheds, n_proc = None, [], 0
    pool_stats = None
    if cores > 1 and real:
        run_real_pool(ctx, case, combined, scripted, order, hist, real_inst, exp_x, impl_serial, expected_outcome,
                      check_outcome, fail, cores)
        ctx.case({"real": case["history"], "expr": case["expr"]}, nontrivial=False)
        return
    if cores > 1:
        sched = Sched()
        try:
            with scheduled_pool(sched):
                try:
                    combined.n_cores = cores
                except Exception as e:
                    fail("C15-n-cores", f"setting n_cores = {cores} raised {type(e).__name__}", str(e)[:200])
                    return
                n_proc = len(sched.ctls)
                if n_proc == 0:
                    ctx.hit("pool-not-scheduled")
                    sched.scheduled = False
                impl_pool = []
                raised_before = False
                for k, h in enumerate(hist):
                    import random as _r

                    toks = h["h"]["sched"] if "sched" in h["h"] else gen_schedule(_r.Random(h["h"].get("seed", 0) ^ 0x5EED), max(n_proc, 1), n)
                    scheds.append(toks)
                    sched.load(toks)
                    for s in scripted.values():
                        s.log.clear()
                    got = outcome_of(lambda: combined.log_likelihood_function(real_inst[k]))
                    impl_pool.append(got)
                    ok = check_outcome(got, k, "pool", raised_before)
                    if "stuck" in got:
                        break
                    if ok and not same_outcome(got, impl_serial[k], expected_outcome(k).get("exact", True)):
                        fail("C15-cores-differ", f"evaluation {k}: {cores} cores and 1 core give different log likelihoods",
                             {"pool": got, "serial": impl_serial[k]})
                    if "raises" in expected_outcome(k):
                        raised_before = True
                    # once each, unless the evaluation raised early in a legitimate way (the pool evaluates all)
                    sched.quiesce()
                    for i in range(n):
                        s = scripted[order[i]]
                        xs = [e[2] for e in s.log if e[0] == "ll"]
                        if len(xs) != 1:
                            fail("C15-pool-coverage", f"evaluation {k}: the analysis at position {i} was evaluated {len(xs)} times by the pool",
                                 {"cores": cores, "processes": n_proc})
                        elif f2h(xs[0]) != f2h(exp_x[k][i]):
                            fail("C15-sub-instance", "the pool evaluated an analysis on a different (sub-)instance than its own",
                                 {"position": i, "saw": xs[0], "own": exp_x[k][i]})
                # folders through the pool
                if deep and impl_pool and "stuck" not in impl_pool[-1]:
                    check_folders(ctx, combined, scripted, order, real_inst[0], exp_x[0], sched, fail, "pool")
        finally:
            pool_stats = dict(sched.stats)
            sched.shutdown()

    # ---- the model
    analyses_wire = []
    for a in case["analyses"]:
        analyses_wire.append({
            "name": a["name"], "watch": list(a["watch"]), "w": f2h(a["w"]), "c": f2h(a["c"]),
            "bad": [f2h(x) for x in bad_wire[a["name"]]],
            "own": own_nodes.get(a["name"]),
        })
    analyses_wire.sort(key=lambda a: a["name"])
    req = {
        "p": "C15", "cfg": {"drain": bool(flags["drain"]), "map_idx": bool(flags["map_idx"]), "new_idx": bool(flags["new_idx"]),
                            "free_add": bool(flags.get("free_add", True))},
        "expr": expr_wire(case["expr"]), "fexpr": fx_wire, "analyses": analyses_wire, "comp": node,
        "free": free_wire, "base": base, "cores": cores,
        "history": [{"v": [f2h(x) for x in h["v"]], "sched": (scheds[k] if k < len(scheds) else [])} for k, h in enumerate(hist)],
    }
    ans = ctx.lean.ask(req)
    if "driver_error" in ans:
        ctx.disagree("driver", replay, None, ans)
        return
    if "build_error" in ans:
        ctx.disagree("C15.build_error", replay, "built", ans["build_error"])
        ctx._c15_folders = None
        return
    if ans["order"] != order:
        dis("C15.order", order, ans["order"])
    check_operand_structure(dis, ans, order, names, combined, fx, impl_mode)
    if ans["mode"] != impl_mode:
        dis("C15.mode", impl_mode, ans["mode"])
    else:
        if ans["count"] != impl_count:
            dis("C15.count", impl_count, ans["count"])
        mp = sorted([list(p), r] for p, r in ans["places"])
        if mp != impl_places:
            dis("C15.places", impl_places[:12], mp[:12])
        ms = [model_outcome(o) for o in ans["serial"]]
        if ms == impl_serial:
            ctx.hit("serial-bit-exact")
        elif len(ms) == len(impl_serial) and all(
                same_outcome(a, b, expected_outcome(k_).get("exact", True)) for k_, (a, b) in enumerate(zip(impl_serial, ms))):
            # another summation algorithm (last bits differ on non-dyadic data): the property is about the sum
            ctx.hit("serial-within-tolerance")
        else:
            dis("C15.serial", impl_serial, ms)
        if impl_pool is not None:
            mpool = [model_outcome(o) for o in ans["pool"]]
            if len(mpool) != len(impl_pool) or not all(
                    same_outcome(a, b, expected_outcome(k_).get("exact", True)) for k_, (a, b) in enumerate(zip(impl_pool, mpool))):
                if len(impl_pool) == len(mpool) or "stuck" not in str(impl_pool[-1:]):
                    dis("C15.pool", impl_pool, mpool)
        # the sub-instance each analysis is given at the first evaluation
        for i in range(n):
            try:
                a_ = X.canon_inst(X.inst_of(exp_inst[0][i]))
                b_ = X.canon_inst(ans["subs"][0][i])
                d = X.inst_diff(a_, b_, 0)
            except Exception as e:
                d = ("extract", repr(e), None)
            if d:
                dis("C15.sub_instance", {"position": i, "at": d[0], "impl": d[1]}, {"model": d[2]})
                break
        if getattr(ctx, "_c15_folders", None) is not None:
            fs = ctx._c15_folders
            if fs.get("serial") is not None and fs["serial"] != ans["folders_serial"]:
                dis("C15.folders_serial", fs["serial"], ans["folders_serial"])
            if fs.get("pool") is not None and fs.get("pool_partition_ok") and fs["pool"] != ans["folders_map"]:
                dis("C15.folders_map", fs["pool"], ans["folders_map"])
    ctx._c15_folders = None

    # ---- bookkeeping
    failed_here = len(ctx.failures) + len(ctx.known_hits) > fails_before
    if not failed_here:
        for clause, impl, mdl in local_dis:
            ctx.disagree(clause, replay, impl, mdl)
    pooled_recovery = False
    if impl_pool is not None:
        seen_raise = False
        for k in range(len(impl_pool)):
            if "raises" in expected_outcome(k):
                seen_raise = True
            elif seen_raise:
                pooled_recovery = True
    distinct_sub = impl_mode != "plain" and len(set(map(f2h, exp_x[0]))) >= 2
    nontrivial = n >= 3 and (pooled_recovery or distinct_sub)
    ctx.case({"expr": case["expr"], "an": case["analyses"], "prog": case["program"], "mode": mode, "free": case.get("free"),
              "cores": cores, "hist": case["history"], **({"fx": fx} if fx is not None else {})}, nontrivial=nontrivial,
             sample={"expr": fexpr_text(fx) if fx is not None else expr_text(case["expr"]), "mode": impl_mode, "cores": cores, "evaluations": len(hist),
                     "serial": [o.get("raises") or h2f(o["v"]) for o in impl_serial if "stuck" not in o][:4],
                     "parameters": impl_count})
    ctx.hit("mode:" + impl_mode)
    ctx.hit(f"analyses:{n}")
    ctx.hit(f"cores:{cores}")
    if impl_pool is not None:
        ctx.hit(f"processes:{n_proc}")
        ctx.hit("pool-evaluations", len(impl_pool))
        ctx.hit("pool-evaluations-raising", sum(1 for o in impl_pool if "raises" in o))
        if pooled_recovery:
            ctx.hit("pool-success-after-raise")
        for k_, v_ in (pool_stats or {}).items():
            ctx.hit("sched:" + k_, v_)
    if ans.get("order") != ans.get("leaves"):
        ctx.hit("order-differs-from-written")
    if "sum" in case["expr"]:
        ctx.hit("builtin-sum")


def check_operand_structure(dis, ans, order, names, combined, fx, impl_mode):
    """correspondence clauses of AF.Combined.normalize / inOrder / buildF / declaredFree"""
    if ans.get("normal_leaves") != order:
        dis("C15.normal_form", order, ans.get("normal_leaves"))
    if len(set(names)) == len(names) and bool(ans.get("in_order")) != (order == names):
        dis("C15.in_order", order == names, ans.get("in_order"))
    if impl_mode == "free":
        try:
            impl_free = [int(p.id) for p in combined.free_parameters]
        except Exception as e:
            impl_free = repr(e)
        if ans.get("free_ids") != impl_free:
            dis("C15.free_ids", impl_free, ans.get("free_ids"))
        if fx is not None and ans.get("declared") != impl_free:
            dis("C15.declared_free", impl_free, ans.get("declared"))
    if fx is not None and not ans.get("well_formed"):
        dis("C15.well_formed", True, ans.get("well_formed"))


class _Alarm(BaseException):
    pass


def run_real_pool(ctx, case, combined, scripted, order, hist, real_inst, exp_x, impl_serial, expected_outcome,
                  check_outcome, fail, cores):
    """the same history on real forked processes and real multiprocessing queues (OS scheduling)"""
    import signal
    import multiprocessing

    def on_alarm(*_):
        raise _Alarm()

    old = signal.signal(signal.SIGALRM, on_alarm)
    n = len(order)
    out_dir = None
    try:
        signal.alarm(30)
        for s in scripted.values():
            s.touch = True  # before the fork: the processes work on copies of the analyses
        combined.n_cores = cores
        raised_before = False
        for k in range(len(hist)):
            got = outcome_of(lambda: combined.log_likelihood_function(real_inst[k]))
            ok = check_outcome(got, k, "pool", raised_before)
            if ok and not same_outcome(got, impl_serial[k], expected_outcome(k).get("exact", True)):
                fail("C15-cores-differ", f"evaluation {k}: {cores} real processes and 1 core give different log likelihoods",
                     {"pool": got, "serial": impl_serial[k]})
            if "raises" in expected_outcome(k):
                raised_before = True
            ctx.hit("real-pool-evaluations")
        # folders: every analysis leaves a marker file in the folder it is given
        paths = af.DirectoryPaths(name=f"c15real_{os.getpid()}_{ctx.evaluations}")
        out_dir = Path(paths.output_path)
        combined.visualize(paths, real_inst[0], True)
        for i in range(n):
            want = out_dir / "analyses" / f"analysis_{i}" / f"viz_{order[i]}"
            if not want.exists():
                found = sorted(str(p.relative_to(out_dir)) for p in out_dir.rglob(f"viz_{order[i]}"))
                fail("C15-folder-pool", f"the analysis at position {i} (real processes) did not write into analysis_{i}",
                     {"wrote": found})
        signal.alarm(0)
    except _Alarm:
        fail("C15-pool-deadlock", "an evaluation through the real process pool did not return within 30 s", {"cores": cores})
    except OSError as e:  # no processes available in this environment: not a finding
        ctx.hit("real-pool-unavailable:" + type(e).__name__)
    except Exception as e:
        fail("C15-real-pool-raises", f"the real process pool raised {type(e).__name__}", str(e)[:200])
    finally:
        signal.alarm(0)
        signal.signal(signal.SIGALRM, old)
        for s in scripted.values():
            s.touch = False
        try:
            combined._analysis_pool.terminate()
        except Exception:
            pass
        for c in multiprocessing.active_children():
            c.terminate()
        if out_dir is not None:
            import shutil

            shutil.rmtree(out_dir, ignore_errors=True)


def check_profile(combined, scripted, order, inst, exp_x, fail):
    """profile_log_likelihood_function: every analysis once, in its own folder, on its own (sub-)instance"""
    for s in scripted.values():
        s.log.clear()
    try:
        combined.profile_log_likelihood_function(af.DirectoryPaths(), inst)
    except Exception as e:
        fail("C15-profile-sub-instance", f"profile_log_likelihood_function of the combined analysis raised {type(e).__name__}",
             str(e)[:200])
        return
    from autofit.non_linear.analysis.model_analysis import ModelAnalysis

    for i in range(len(order)):
        a, own = combined.analyses[i], False
        while a is not None and not isinstance(a, Scripted):
            own = own or isinstance(a, ModelAnalysis)
            a = a.__dict__.get("analysis")
        if own:  # ModelAnalysis does not forward the hooks Analysis defines (recorded in the claim: outside the domain)
            continue
        ev = [e for e in scripted[order[i]].log if e[0] == "profile"]
        if len(ev) != 1:
            fail("C15-hook-not-forwarded", f"profile_log_likelihood_function reached the analysis at position {i} {len(ev)} times")
        elif folder_index(ev[0][1]) != i:
            fail("C15-folder-serial", f"profile_log_likelihood_function: the analysis at position {i} was given folder {ev[0][1]}")
        elif f2h(ev[0][2]) != f2h(exp_x[i]):
            fail("C15-profile-sub-instance", "profile_log_likelihood_function gave an analysis a different (sub-)instance than its own",
                 {"position": i})


def check_folders(ctx, combined, scripted, order, inst, exp_x, sched, fail, route):
    """child folders: `visualize` through the serial loop or through `AnalysisPool.map`"""
    n = len(order)
    for s in scripted.values():
        s.log.clear()
    if sched is not None:
        sched.load([])
    try:
        combined.visualize(af.DirectoryPaths(), inst, True)
        if sched is not None:
            sched.quiesce()
    except PoolDeadlock as e:
        fail("C15-pool-deadlock", "visualize through the pool never returns", str(e)[:100])
        return
    except Exception as e:
        fail("C15-visualize-raises", f"visualize ({route}) raised {type(e).__name__}", str(e)[:200])
        return
    folders = []
    for i in range(n):
        s = scripted[order[i]]
        ev = [e for e in s.log if e[0] == "visualize"]
        if len(ev) != 1:
            fail("C15-visualize-coverage", f"visualize ({route}) reached the analysis at position {i} {len(ev)} times")
            return
        f = folder_index(ev[0][1])
        folders.append(f)
        if f != i:
            fail("C15-folder-pool" if route == "pool" else "C15-folder-serial",
                 f"the output folder used by the analysis at position {i} ({route}) is not analysis_{i}", {"folder": ev[0][1]})
        if f2h(ev[0][2]) != f2h(exp_x[i]):
            fail("C15-sub-instance", f"visualize ({route}) gave an analysis a different (sub-)instance than its own", {"position": i})
    if route == "serial":
        check_profile(combined, scripted, order, inst, exp_x, fail)
    st = getattr(ctx, "_c15_folders", None) or {}
    st[route] = folders
    if route == "pool":
        # the model's folder numbering follows its own partition; tie it only when the code partitions alike
        st["pool_partition_ok"] = True
    ctx._c15_folders = st


# ---------------------------------------------------------------------------------------------
# a real search.fit: child results and output folders


def fit_case(ctx, spec):
    import vlib

    mode, n = spec["mode"], len(expr_leaves(spec["expr"]))
    replay = {"fit": spec}

    def fail(cls, what, detail=None):
        ctx.fail(cls, what, replay, detail)

    model = af.Collection(
        g=af.Model(vlib.P2, a=af.UniformPrior(lower_limit=0.0, upper_limit=1.0), b=af.UniformPrior(lower_limit=2.0, upper_limit=3.0)),
        h=af.Model(vlib.P1, a=af.GaussianPrior(mean=0.0, sigma=1.0)))
    scripted = {k: Scripted(k, ["g", "a"], -1.0 * (k + 1), 0.125 * k) for k in range(n)}
    leaves = dict(scripted)
    own = {}
    if mode == "own":
        for k in spec["own"]:
            own[k] = af.Collection(g=af.Model(vlib.P2, a=af.UniformPrior(lower_limit=5.0 + k, upper_limit=6.0 + k), b=1.0))
            leaves[k] = scripted[k].with_model(own[k])
    try:
        combined = build_expr(spec["expr"], leaves)
        if mode == "free":
            combined = combined.with_free_parameters(model.g.a if spec.get("free") == "prior" else model.g)
        order = [unwrap(a).name for a in combined.analyses]
        search = af.Drawer(total_draws=3, name=f"c15fit_{spec['tag']}", path_prefix="c15")
        result = search.fit(model=model, analysis=combined)
    except Exception as e:
        fail("C15-fit-raises", f"search.fit with a combined analysis raised {type(e).__name__}", str(e)[:300])
        return
    ctx.hit("fit:" + mode)
    try:
        children = list(result.child_results)
    except Exception as e:
        fail("C15-child-result", "the result of the fit has no child results", repr(e)[:200])
        return
    if len(children) != n:
        fail("C15-child-result", f"{len(children)} child results for {n} analyses")
        return
    tags = [getattr(r, "tag", None) for r in children]
    if tags != order:
        fail("C15-child-result", "the i-th child result was not made by the i-th analysis", {"made_by": tags, "analyses": order})
    best = None
    try:
        whole = result.samples_summary.instance
        best = [whole[i] if mode != "plain" else whole for i in range(n)]
        xs = [scripted[order[i]].x_of(best[i]) for i in range(n)]
    except Exception as e:
        fail("C15-child-result", "the best-fit instance cannot be split per analysis", repr(e)[:200])
        return
    if mode != "plain" and len(set(map(f2h, xs))) < 2:
        ctx.hit("fit-subinstances-equal")
    total = sum(Fraction(scripted[order[i]].w * xs[i] + scripted[order[i]].c) for i in range(n))
    try:
        ll = float(result.samples.max_log_likelihood_sample.log_likelihood)
        if abs(Fraction(ll) - total) > Fraction(1e-9) * max(abs(total), 1):
            fail("C15-fit-likelihood", "the best sample's log likelihood is not the sum of the analyses on their sub-instances",
                 {"got": ll, "want": float(total)})
    except AttributeError:
        ctx.hit("fit-no-samples")
    for i in range(n):
        s = scripted[order[i]]
        for kind in ("save_attributes", "visualize_before_fit", "visualize", "save_results"):
            ev = [e for e in s.log if e[0] == kind]
            if not ev:
                ctx.hit("fit-no-" + kind)
                continue
            for e in ev:
                if folder_index(e[1]) != i:
                    fail("C15-folder-serial", f"{kind} of the analysis at position {i} used folder {e[1]} during the fit")
            if kind == "save_results" and any(e[2] != s.name for e in ev):
                fail("C15-child-result", f"save_results of the analysis at position {i} was given another analysis' result",
                     {"given": [e[2] for e in ev], "own": s.name})
            if kind == "visualize" and f2h(ev[-1][2]) != f2h(xs[i]):
                fail("C15-sub-instance", f"visualize of the analysis at position {i} saw another sub-instance during the fit")
        try:
            child_x = s.x_of(children[i].instance)
            if f2h(child_x) != f2h(xs[i]):
                fail("C15-child-result", f"the instance of child result {i} is not the sub-instance of analysis {i}",
                     {"child": child_x, "own": xs[i]})
        except Exception as e:
            fail("C15-child-result", f"child result {i} has no instance of its model", repr(e)[:200])
    ctx.case({"fit": spec}, nontrivial=(n >= 3 and mode != "plain"),
             sample={"fit": expr_text(spec["expr"]), "mode": mode, "child_results_made_by": tags})


def gen_fit_spec(rng, mode, tag):
    n = rng.choice([3, 3, 4])
    spec = {"mode": mode, "expr": gen_expr(rng, n), "tag": tag}
    if mode == "own":
        spec["own"] = sorted(rng.sample(range(n), rng.randint(1, n - 1)))
    if mode == "free":
        spec["free"] = rng.choice(["prior", "component"])
    return spec


def run(ctx):
    ctx.rule = RULE
    ctx.assumptions = [
        "analyses are pure functions of the instance they are given (log likelihood w*x+c of one watched number, "
        "FitException on listed values); user classes are those of harness/vlib.py",
        "scheduling granularity: a process putting one result / the caller inspecting one result queue; "
        "instances are put on all instance queues atomically; every interleaving at that granularity is reachable "
        "by a schedule, OS-level preemption inside a queue operation is not modelled",
        "80% of the cases use dyadic numbers so that every order of summation is exact and pooled values are compared "
        "bit-exactly; the others are compared at 1e-11 relative (pool) / bit-exactly (serial)",
        "with_free_parameters(...) may sit at any position of the expression (a FreeParameterAnalysis as an operand of +: "
        "repaired behaviour fixes/C15-free-parameters-survive-add.patch, finding flag free_add); it is only called on sums "
        "(on a single analysis: AttributeError, compared with the model, not a property failure)",
    ]
    flags = probe_flags()
    ctx.notes["flags"] = flags
    for name, on in flags.items():
        ctx.hit(f"flag:{name}={'on' if on else 'off'}")
    corpus = sorted((VERIF / "corpus" / "C15").glob("*.json"))
    for f in corpus:
        one_case(ctx, json.loads(f.read_text()), label=f.name)
    ctx.notes["known_witness_not_reproduced"] = sorted(
        k["id"] for k in ctx.known if k.get("status") == "known" and k["id"] not in ctx.known_hits)
    for n_, m_ in ((1, 1), (2, 2), (3, 3), (3, 2), (3, 4), (5, 5)):
        check_hooks(ctx, n_, m_)
    child = start_real_pool_child(ctx, ctx.n(14, 150), ctx.n(20, 150))
    fits = ["free", "own"] if ctx.tier == "quick" else ["free", "own", "plain", "free", "own", "free"]
    for j, mode in enumerate(fits):
        fit_case(ctx, gen_fit_spec(ctx.rng, mode, f"{ctx.seed}_{j}"))
    n = ctx.n(800, 10000)
    for k in range(n):
        r = ctx.rng.random()
        force_mode = None
        force_cores = None
        if r < 0.25:
            force_cores = ctx.rng.choice([2, 2, 3, 4])  # pooled histories are the expensive quantifier
        case = gen_case(ctx.rng, force_mode, force_cores)
        one_case(ctx, case, deep=(k % 3 == 0))
        if len(ctx.failures) >= 40:
            # the verdict is settled; a broken library can also get slower with every case (free parameters kept in
            # shared state grow with every sum)
            ctx.hit("stopped-after-40-failures")
            break
    collect_real_pool_child(ctx, child, ctx.n(60, 400))


def replay(ctx, payload):
    case = payload.get("case") or payload.get("disagreements", [{}])[0].get("case")
    if "case" in case and "expr" not in case:
        case = case["case"]
    ctx.notes["flags"] = probe_flags()
    if "hooks" in case and "expr" not in case:
        check_hooks(ctx, case["hooks"]["n"], case["hooks"]["m"])
    elif "fit" in case and "expr" not in case:
        fit_case(ctx, case["fit"])
    elif case.get("label") == "real-pool" or payload.get("case", {}).get("label") == "real-pool":
        one_case(ctx, case, label="replay")
        one_case(ctx, case, label="replay-real", real=True)
    else:
        one_case(ctx, case, label="replay")
    print(json.dumps({"failures": ctx.failures[:3], "disagreements": ctx.disagreements[:3]}, default=str)[:3000])


# ---------------------------------------------------------------------------------------------
# real processes: run in a child interpreter so that a hanging pool cannot hang the check


class _MiniCtx:
    def __init__(self, seed):
        import random

        self.rng = random.Random(seed)
        self.failures, self.known_hits, self.notes, self.branch = [], {}, {}, {}
        self.evaluations = 0

    def fail(self, classifier, what, case, detail=None):
        self.failures.append({"classifier": classifier, "what": what, "case": case, "detail": detail})

    def disagree(self, *a, **k):
        pass

    def hit(self, b, k=1):
        self.branch[b] = self.branch.get(b, 0) + k

    def case(self, *a, **k):
        self.evaluations += 1


def _child_main():
    spec = json.loads(_sys.stdin.read())
    ctx = _MiniCtx(spec["seed"])
    t0 = time.time()
    done = 0
    for _ in range(spec["cases"]):
        if time.time() - t0 > spec["budget_s"]:
            break
        case = gen_case(ctx.rng, None, ctx.rng.choice([2, 2, 3, 4]))
        try:
            one_case(ctx, case, label="real-pool", real=True)
        except Exception as e:  # harness problem: reported, not a finding
            ctx.hit("child-error:" + type(e).__name__)
        done += 1
        if any(f["classifier"] == "C15-pool-deadlock" for f in ctx.failures):
            break
    first = {}
    for f in ctx.failures:
        first.setdefault(f["classifier"], f)
    print("C15REAL " + json.dumps({"failures": list(first.values())[:4], "cases": done, "branch": ctx.branch}, default=str), flush=True)
    import shutil

    shutil.rmtree(scratch_dir(), ignore_errors=True)
    os._exit(0)


def start_real_pool_child(ctx, cases, budget_s):
    env = dict(os.environ)
    env["VERIF_REPO"] = str(REPO)
    p = subprocess.Popen([_sys.executable, str(Path(__file__).resolve())], stdin=subprocess.PIPE, stdout=subprocess.PIPE,
                         stderr=subprocess.DEVNULL, text=True, env=env)
    p.stdin.write(json.dumps({"seed": ctx.rng.getrandbits(40), "cases": cases, "budget_s": budget_s}))
    p.stdin.close()
    return p


def collect_real_pool_child(ctx, p, timeout):
    try:
        p.wait(timeout=timeout)
        out = p.stdout.read()
    except subprocess.TimeoutExpired:
        p.kill()
        ctx.fail("C15-pool-deadlock", "the real process pool run did not finish (child interpreter killed)", {"route": "real-pool"})
        return
    line = [l for l in out.splitlines() if l.startswith("C15REAL ")]
    if not line:
        ctx.notes["real_pool"] = "child produced no report"
        ctx.hit("real-pool-child-failed")
        return
    rep = json.loads(line[-1][len("C15REAL "):])
    ctx.notes["real_pool"] = {"cases": rep["cases"], "branch": rep["branch"]}
    ctx.hit("real-pool-cases", rep["cases"])
    ctx.hit("real-pool-evaluations", rep["branch"].get("real-pool-evaluations", 0))
    for f in rep["failures"]:
        ctx.fail(f["classifier"], f["what"] + " [real processes]", f["case"], f["detail"])


if __name__ == "__main__":
    _child_main()
