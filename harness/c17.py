"""C17 — messages form a consistent exponential-family algebra.

A case is a *program* over message registers (construct messages of the five families and of the
transformed variants — through the constructors and through `prior.message` —, multiply / divide /
raise to real powers / scale, convert, project weighted samples, evaluate densities).  It is run
on the REAL `autofit.messages` classes and, element by element, on the Lean model `AF.Msg`
(IEEE doubles; scipy's special functions reach the model as finite tables computed by the harness'
own reference evaluation).  Every register is compared (class, parameters, log_norm, id, limits,
transform stack, numbers at 1e-9).  The oracle re-states the property sentence on the real outputs
with its own formulas (scipy.stats, quadrature): additivity / linearity on natural parameters,
(a*b)/b = a, powers = repeated products, conversion round trips, moment matching of projections,
normalisation / CDF / mean / variance of the reported densities."""
import json
import os
import sys
import math

import numpy as np
from scipy import integrate, special, stats

from common import f2h, h2f, VERIF

import autofit as af
from autofit.messages import (
    NormalMessage, NaturalNormal, GammaMessage, BetaMessage, FixedMessage,
    UniformNormalMessage, LogNormalMessage, Log10NormalMessage,
)
from autofit.messages.composed_transform import TransformedMessage
from autofit.messages import transform as T

RULE = (
    "random programs over message registers: 2-4 messages of one family (normal incl. NaturalNormal "
    "operands / gamma / beta / fixed; scalar or array parameters; log_norm, id and limits set) or of one "
    "transformed variant (uniform, shifted uniform, log, log10, log-uniform stack, shifted; built by "
    "constructors, UniformNormalMessage(..)-style calls and prior.message), then 3-8 operations "
    "(* / ** real exponent incl. <= 0, scalar * and /, .natural), queries (logpdf, factor, cdf, value_for, "
    "mean, variance, is_valid at points inside the support), conversions (from_natural_parameters, "
    "from_sufficient_statistics) and projections of 5-60 weighted samples; gamma / beta programs (shape parameters "
    "0.05-80: logpdf inside / on the boundary of / outside the support, log_partition, sufficient and expected statistics, "
    "raw invpsilog / inv_beta_suffstats, from_mode) and transformed messages stacked on transformed messages; non-trivial = the program "
    "contains at least one message-valued operation whose operands are valid messages; distinct = hash of the program"
)

REL = 1e-9
INF = math.inf
FAMS = {"normal": NormalMessage, "naturalNormal": NaturalNormal, "gamma": GammaMessage,
        "beta": BetaMessage, "fixed": FixedMessage}
FAM_OF = {v.__name__: k for k, v in FAMS.items()}


# ---------------------------------------------------------------------------------------------
# small helpers


def close(a, b, rel=REL, scale=1.0):
    a = float(a)
    b = float(b)
    if a != a and b != b:
        return True
    if a != a or b != b:
        return False
    if a == b:
        return True
    if math.isinf(a) or math.isinf(b):
        return False
    return abs(a - b) <= rel * max(scale, abs(a), abs(b))


def elem(x, shape, i):
    """element i of x broadcast to the message shape (scalars: the value itself)"""
    if not shape:
        return float(np.asarray(x))
    return float(np.broadcast_to(np.asarray(x, dtype=float), shape).ravel()[i])


def as_param(v):
    return np.array(v, dtype=float) if isinstance(v, list) else float(v)


def jf(x):
    """JSON-able float(s)"""
    a = np.asarray(x, dtype=float)
    return a.tolist() if a.shape else float(a)


# ---------------------------------------------------------------------------------------------
# reference evaluation (independent of the repository): transforms, their determinants, the
# special-function calls are recorded so that the model can look them up


class Rec:
    def __init__(self):
        self.t = {"ndtr": [], "ndtri": [], "erfinv": [], "normpdf": []}
        self.t3 = {"lgamma": [], "digamma": [], "trigamma": []}

    def _r(self, name, x, v):
        x = float(x)
        v = float(v)
        if x == x:
            self.t[name].append((x, v))
        return v

    def ndtr(self, x):
        return self._r("ndtr", x, special.ndtr(x))

    def ndtri(self, x):
        return self._r("ndtri", x, special.ndtri(x))

    def erfinv(self, x):
        return self._r("erfinv", x, special.erfinv(x))

    def normpdf(self, x):
        return self._r("normpdf", x, math.exp(-x * x / 2.0) / math.sqrt(2 * math.pi))

    # (argument, value, derivative): the model corrects the nearest entry to first order
    def _r3(self, name, x, v, d):
        x = float(x)
        if x == x:
            self.t3[name].append((x, float(v), float(d)))
        return float(v)

    def lgamma(self, x):
        return self._r3("lgamma", x, special.gammaln(x), special.digamma(x))

    def digamma(self, x):
        return self._r3("digamma", x, special.digamma(x), special.polygamma(1, x))

    def trigamma(self, x):
        return self._r3("trigamma", x, special.polygamma(1, x), special.polygamma(2, x))

    def wire(self):
        out = {}
        for k, v in self.t.items():
            seen = {}
            for x, y in v:
                seen[x] = y
            out[k] = [[f2h(x), f2h(y)] for x, y in seen.items()]
        for k, v in self.t3.items():
            seen = {}
            for x, y, d in v:
                seen[x] = (y, d if math.isfinite(d) else 0.0)
            out[k] = [[f2h(x), f2h(y), f2h(d)] for x, (y, d) in seen.items()]
        return out


LN10 = math.log(10.0)


def _log(x):
    return math.log(x) if x > 0 else (-INF if x == 0 else math.nan)


def ref_apply(rec, t, x):
    k = t["t"]
    if k == "phi":
        return rec.ndtri(x)
    if k == "log":
        return _log(x)
    if k == "log10":
        return _log(x) / LN10 if x > 0 else _log(x)
    if k == "exp":
        return math.exp(x)
    if k == "shift":
        return (x - t["s"]) / t["c"]
    raise ValueError(k)


def ref_inv(rec, t, x):
    k = t["t"]
    if k == "phi":
        return rec.ndtr(x)
    if k == "log":
        return math.exp(x)
    if k == "log10":
        return 10.0 ** x
    if k == "exp":
        return _log(x)
    if k == "shift":
        return x * t["c"] + t["s"]
    raise ValueError(k)


def ref_logdet(rec, t, x):
    """log |d transform / dx| at x"""
    k = t["t"]
    if k == "phi":
        return -_log(rec.normpdf(rec.ndtri(x)))
    if k == "log":
        return -_log(x)
    if k == "log10":
        return -_log(x) - math.log(LN10)
    if k == "exp":
        return x
    if k == "shift":
        return -_log(t["c"])
    raise ValueError(k)


def ref_chain(rec, trs, x):
    for t in reversed(trs):
        x = ref_apply(rec, t, x)
    return x


def ref_chain_det(rec, trs, x):
    ld = 0.0
    for t in reversed(trs):
        ld += ref_logdet(rec, t, x)
        x = ref_apply(rec, t, x)
    return x, ld


def ref_inverse(rec, trs, x):
    for t in trs:
        x = ref_inv(rec, t, x)
    return x


# ---------------------------------------------------------------------------------------------
# canonical form of a real message


def canon_tr(t):
    if t is T.phi_transform:
        return {"t": "phi"}
    if t is T.log_transform:
        return {"t": "log"}
    if t is T.log_10_transform:
        return {"t": "log10"}
    if t is T.exp_transform:
        return {"t": "exp"}
    if isinstance(t, T.LinearShiftTransform):
        return {"t": "shift", "s": float(t.shift), "c": float(t.scale)}
    return {"t": "other:" + type(t).__name__}


def canon_base(m):
    name = type(m).__name__
    fam = FAM_OF.get(name, "other:" + name)
    ps = list(m.parameters)
    return {"k": "plain", "fam": fam, "shape": list(m.shape),
            "p1": jf(ps[0]), "p2": jf(ps[1]) if len(ps) > 1 else 0.0,
            "ln": jf(m.log_norm), "id": m.id, "lo": jf(m.lower_limit), "hi": jf(m.upper_limit)}


def canon(m):
    if isinstance(m, TransformedMessage):
        return {"k": "tr", "base": canon_base(m.base_message), "trs": [canon_tr(t) for t in m.transforms],
                "id": m.id, "lo": jf(m.lower_limit), "hi": jf(m.upper_limit)}
    return canon_base(m)


def base_of(m):
    return m.base_message if isinstance(m, TransformedMessage) else m


def nat_of(m):
    """natural parameters as a (2, *shape) float array ((1, *shape) for fixed)"""
    e = m.natural_parameters
    if isinstance(e, tuple):
        e = np.array([np.asarray(x, dtype=float) for x in e])
    return np.asarray(e, dtype=float)


def is_valid(m):
    try:
        return bool(np.all(m.is_valid))
    except Exception:
        return False


# ---------------------------------------------------------------------------------------------
# running a program on the real code


PRIOR_KINDS = ("uniform", "loguniform", "gaussian", "loggaussian")
NAMED = {"UniformNormal": UniformNormalMessage, "LogNormal": LogNormalMessage, "Log10Normal": Log10NormalMessage}
NAMED_TRS = {"UniformNormal": [{"t": "phi"}], "LogNormal": [{"t": "log"}], "Log10Normal": [{"t": "log10"}]}


def mk_tr(t):
    k = t["t"]
    if k == "phi":
        return T.phi_transform
    if k == "log":
        return T.log_transform
    if k == "log10":
        return T.log_10_transform
    if k == "exp":
        return T.exp_transform
    return T.LinearShiftTransform(shift=t["s"], scale=t["c"])


def prior_spec(kind, args):
    """what `prior.message` is documented / expected to be: (base fam, p1, p2, trs, lo, hi)"""
    if kind == "uniform":
        lo, hi = args
        return ("normal", 0.0, 1.0, [{"t": "phi"}, {"t": "shift", "s": lo, "c": hi - lo}], lo, hi)
    if kind == "loguniform":
        lo, hi = args
        return ("normal", 0.0, 1.0, [{"t": "phi"},
                                     {"t": "shift", "s": float(np.log10(lo)), "c": float(np.log10(hi / lo))},
                                     {"t": "log10"}], -INF, INF)
    if kind == "gaussian":
        mean, sigma, lo, hi = args
        return ("normal", mean, sigma, None, lo, hi)
    if kind == "loggaussian":
        mean, sigma = args
        return ("normal", mean, sigma, [{"t": "log"}], -INF, INF)
    raise ValueError(kind)


def mk_prior(kind, args):
    if kind == "uniform":
        return af.UniformPrior(lower_limit=args[0], upper_limit=args[1])
    if kind == "loguniform":
        return af.LogUniformPrior(lower_limit=args[0], upper_limit=args[1])
    if kind == "gaussian":
        return af.GaussianPrior(mean=args[0], sigma=args[1], lower_limit=args[2], upper_limit=args[3])
    if kind == "loggaussian":
        return af.LogGaussianPrior(mean=args[0], sigma=args[1])
    raise ValueError(kind)


def xarr(m, x):
    """evaluation point(s) in the shape the message wants"""
    if m.shape:
        return np.asarray(x, dtype=float)
    if isinstance(base_of(m), FixedMessage):
        return np.asarray(x, dtype=float)
    return float(x)


def exec_stmt(st, regs):
    """returns the list of registers this statement appends (1, or 2 for prior / named)"""
    op = st["op"]
    if op == "new":
        cls = FAMS[st["fam"]]
        kw = dict(log_norm=st["ln"], id_=st["id"], lower_limit=st["lo"], upper_limit=st["hi"])
        if st["fam"] == "fixed":
            return [cls(np.asarray(st["p1"], dtype=float), **kw)]
        return [cls(as_param(st["p1"]), as_param(st["p2"]), **kw)]
    if op == "tnew":
        return [TransformedMessage(regs[st["b"]], *[mk_tr(t) for t in st["trs"]], id_=st["id"],
                                   lower_limit=st["lo"], upper_limit=st["hi"])]
    if op == "prior":
        m = mk_prior(st["kind"], st["args"]).message
        return [base_of(m), m]
    if op == "named":
        m = NAMED[st["kind"]](as_param(st["p1"]), as_param(st["p2"]))
        return [base_of(m), m]
    if op == "mul":
        return [regs[st["a"]] * regs[st["b"]]]
    if op == "div":
        return [regs[st["a"]] / regs[st["b"]]]
    if op == "pow":
        return [regs[st["a"]] ** st["k"]]
    if op == "smul":
        return [st["c"] * regs[st["a"]] if st.get("r") else regs[st["a"]] * st["c"]]
    if op == "sdiv":
        return [regs[st["a"]] / st["c"]]
    if op == "tonat":
        return [regs[st["a"]].natural]
    if op == "fromnat":
        cls = FAMS[st["fam"]]
        return [cls.from_natural_parameters(np.array([as_param(st["e1"]), as_param(st["e2"])]), log_norm=st["ln"],
                                            id_=st["id"], lower_limit=st["lo"], upper_limit=st["hi"])]
    if op == "fromsuff":
        cls = FAMS[st["fam"]]
        return [cls.from_sufficient_statistics(np.array([as_param(st["m1"]), as_param(st["m2"])]),
                                               log_norm=st["ln"], id_=st["id"])]
    if op == "project":
        cls = FAMS[st["fam"]]
        return [cls.project(np.array(st["xs"], dtype=float), np.array(st["lws"], dtype=float), id_=st["id"])]
    if op == "mproject":
        m = regs[st["a"]]
        if isinstance(m, TransformedMessage):
            return [m.project(np.array(st["xs"], dtype=float), np.array(st["lws"], dtype=float))]
        return [m.project(np.array(st["xs"], dtype=float), np.array(st["lws"], dtype=float), id_=st["id"])]
    if op == "pproject":
        p = mk_prior(st["kind"], st["args"])
        q = p.project(np.array(st["xs"], dtype=float), np.array(st["lws"], dtype=float))
        return [p.message, q.message]
    if op in GB_OPS:
        return exec_stmt_gb(st, regs)
    if op == "stackcheck":
        return [("none", None)]
    m = regs[st["a"]]
    if op == "natural":
        return [("pair", nat_of(m))]
    if op == "valid":
        # element-wise (is_valid is the conjunction over the elements)
        return [("bool", np.asarray(m.check_valid(), dtype=bool))]
    if op == "mean":
        return [("num", np.asarray(m.mean, dtype=float))]
    if op == "variance":
        return [("num", np.asarray(m.variance, dtype=float))]
    if op == "density":
        return [("none", None)]
    x = xarr(m, st["x"])
    if op == "logpdf":
        return [("num", np.asarray(m.logpdf(x), dtype=float))]
    if op == "factor":
        return [("num", np.asarray(m.factor(x), dtype=float))]
    if op == "cdf":
        return [("num", np.asarray(m.cdf(x), dtype=float))]
    if op == "valuefor":
        return [("num", np.asarray(m.value_for(x), dtype=float))]
    if op == "transform":
        return [("num", np.asarray(m._transform(x), dtype=float))]
    if op == "inverse":
        return [("num", np.asarray(m._inverse_transform(x), dtype=float))]
    if op == "density":
        return [("none", None)]
    raise ValueError(op)


def run_real(prog):
    """registers (a flat list; a prior / named statement yields two) and, per statement, the index of
    its first register"""
    regs = []
    first = []
    err = None
    with np.errstate(all="ignore"):
        for n, st in enumerate(prog):
            first.append(len(regs))
            try:
                regs.extend(exec_stmt(st, regs))
            except Exception as e:  # noqa: BLE001
                err = (n, type(e).__name__, str(e)[:200])
                break
    return regs, first, err


MSG_OPS = {"new", "tnew", "prior", "named", "mul", "div", "pow", "smul", "sdiv", "tonat", "fromnat",
           "fromsuff", "project", "mproject", "pproject"}


def is_msg(r):
    return not isinstance(r, tuple)


# ---------------------------------------------------------------------------------------------
# model side: the same program, scalarised for element i


def shape_of_prog(regs):
    for r in regs:
        if is_msg(r) and r.shape:
            return tuple(r.shape)
    for r in regs:  # programs without messages (raw Newton inversions on arrays)
        if not is_msg(r) and r[0] == "num" and np.ndim(r[1]):
            return tuple(np.shape(r[1]))
        if not is_msg(r) and r[0] == "pair" and np.ndim(r[1]) > 1:
            return tuple(np.shape(r[1])[1:])
    return ()


def hx(v, shape, i):
    return f2h(elem(v, shape, i))


def col(xs, shape, i):
    """samples / weights of element i: arrays of shape (n,) or (n, *shape)"""
    a = np.asarray(xs, dtype=float)
    if a.ndim == 1:
        return [f2h(v) for v in a]
    return [f2h(v) for v in a.reshape(a.shape[0], -1)[:, i]]


def wire_tr(t):
    if t["t"] == "shift":
        return {"t": "shift", "s": f2h(t["s"]), "c": f2h(t["c"])}
    return {"t": t["t"]}


def unmodelled_moments(st, regs, shape=None, i=None):
    fam = st.get("fam") or fam_of(regs[st["a"]])
    if fam not in ("gamma", "beta"):
        return False
    if shape is None:
        return True
    return not gb_inversion_smooth(Rec(), fam, st, shape, i)


def model_prog(prog, regs, first, shape, i):
    """statements for the Lean driver; each real register maps to exactly one model register"""
    out = []
    ninf, pinf = f2h(-INF), f2h(INF)
    for n, st in enumerate(prog):
        op = st["op"]
        r0 = first[n]
        if op == "new":
            out.append({"op": "new", "fam": st["fam"], "p1": hx(st["p1"], shape, i),
                        "p2": hx(st["p2"], shape, i) if st["fam"] != "fixed" else f2h(0.0),
                        "ln": hx(st["ln"], shape, i), "id": st["id"], "lo": f2h(st["lo"]), "hi": f2h(st["hi"])})
        elif op == "tnew":
            d = {"op": "tnew", "b": st["b"], "trs": [wire_tr(t) for t in st["trs"]],
                 "lo": f2h(st["lo"]), "hi": f2h(st["hi"])}
            if st["id"] is not None:
                d["id"] = st["id"]
            out.append(d)
        elif op in ("prior", "named"):
            if op == "prior":
                fam, p1, p2, trs, lo, hi = prior_spec(st["kind"], st["args"])
            else:
                fam, p1, p2, trs, lo, hi = "normal", st["p1"], st["p2"], NAMED_TRS[st["kind"]], -INF, INF
            bid = regs[r0].id if is_msg(regs[r0]) and isinstance(regs[r0].id, int) else 0
            plain = trs is None
            out.append({"op": "new", "fam": fam, "p1": hx(p1, shape, i), "p2": hx(p2, shape, i), "ln": f2h(0.0),
                        "id": bid, "lo": f2h(lo if plain else -INF), "hi": f2h(hi if plain else INF)})
            if plain:
                out.append({"op": "copy", "a": r0})
            else:
                out.append({"op": "tnew", "b": r0, "trs": [wire_tr(t) for t in trs], "lo": f2h(lo), "hi": f2h(hi)})
        elif op in ("mul", "div"):
            out.append({"op": op, "a": st["a"], "b": st["b"]})
        elif op == "pow":
            out.append({"op": "pow", "a": st["a"], "k": f2h(st["k"])})
        elif op in ("smul", "sdiv"):
            out.append({"op": op, "a": st["a"], "c": f2h(st["c"])})
        elif op == "tonat":
            out.append({"op": "tonat", "a": st["a"]})
        elif op == "fromnat":
            out.append({"op": "fromnat", "fam": st["fam"], "e1": hx(st["e1"], shape, i), "e2": hx(st["e2"], shape, i),
                        "ln": f2h(st["ln"]), "id": st["id"], "lo": f2h(st["lo"]), "hi": f2h(st["hi"])})
        elif op in GB_OPS:
            out.append(model_stmt_gb(st, regs, shape, i))
        elif op in ("fromsuff", "project", "mproject") and (st.get("fam") or fam_of(regs[st["a"]])) in ("gamma", "beta") \
                and not unmodelled_moments(st, regs, shape, i):
            # the Newton inversions of the digamma equations run in the model (AFModel/MsgGB.lean)
            d = {"op": op + "x", "xs": col(st["xs"], shape, i), "lws": col(st["lws"], shape, i)} if op != "fromsuff" else \
                {"op": "fromsuffx", "m1": hx(st["m1"], shape, i), "m2": hx(st["m2"], shape, i), "ln": f2h(st["ln"])}
            if op == "mproject":
                d["a"] = st["a"]
                r = regs[r0] if r0 < len(regs) else None
                d["id"] = base_of(r).id if r is not None and is_msg(r) and isinstance(base_of(r).id, int) else 0
            else:
                d["fam"] = st["fam"]
                d["id"] = st["id"]
            out.append(d)
        elif op in ("fromsuff", "project", "mproject") and unmodelled_moments(st, regs):
            # an iterate of the Newton inversion left the positive axis (poles of digamma): the real result enters
            # the model as data
            r = canon_base(regs[r0])
            out.append({"op": "new", "fam": r["fam"], "p1": hx(r["p1"], shape, i), "p2": hx(r["p2"], shape, i),
                        "ln": hx(r["ln"], shape, i), "id": r["id"], "lo": f2h(r["lo"]), "hi": f2h(r["hi"])})
        elif op == "fromsuff":
            out.append({"op": "fromsuff", "fam": st["fam"], "m1": hx(st["m1"], shape, i), "m2": hx(st["m2"], shape, i),
                        "ln": f2h(st["ln"]), "id": st["id"]})
        elif op == "project":
            out.append({"op": "project", "fam": st["fam"], "xs": col(st["xs"], shape, i), "lws": col(st["lws"], shape, i),
                        "id": st["id"]})
        elif op == "mproject":
            r = regs[r0] if r0 < len(regs) else None
            bid = base_of(r).id if r is not None and is_msg(r) and isinstance(base_of(r).id, int) else 0
            out.append({"op": "mproject", "a": st["a"], "xs": col(st["xs"], shape, i), "lws": col(st["lws"], shape, i),
                        "id": bid})
        elif op == "pproject":
            fam, p1, p2, trs, lo, hi = prior_spec(st["kind"], st["args"])
            r = regs[r0] if r0 < len(regs) else None
            bid = base_of(r).id if r is not None and is_msg(r) and isinstance(base_of(r).id, int) else 0
            # register r0: the prior's message (base inlined), register r0+1: its projection
            base = {"op": "new", "fam": fam, "p1": f2h(p1), "p2": f2h(p2), "ln": f2h(0.0), "id": bid,
                    "lo": f2h(lo) if trs is None else ninf, "hi": f2h(hi) if trs is None else pinf}
            if trs is None:
                out.append(base)
            else:
                out.append({"op": "tnew", "base": base, "trs": [wire_tr(t) for t in trs], "lo": f2h(lo), "hi": f2h(hi)})
            r1 = regs[r0 + 1] if r0 + 1 < len(regs) else None
            pid = base_of(r1).id if r1 is not None and is_msg(r1) and isinstance(base_of(r1).id, int) else 0
            out.append({"op": "mproject", "a": r0, "xs": col(st["xs"], shape, i), "lws": col(st["lws"], shape, i),
                        "id": pid})
        elif op in ("natural", "valid", "mean", "variance"):
            out.append({"op": op, "a": st["a"]})
        elif op in ("logpdf", "factor", "cdf", "valuefor", "transform", "inverse"):
            mop = "logpdfx" if op == "logpdf" and fam_of(regs[st["a"]]) in ("gamma", "beta") else op
            out.append({"op": mop, "a": st["a"], "x": hx(st["x"], shape, i)})
        elif op in ("density", "stackcheck"):
            out.append({"op": "valid", "a": st["a"]})
        else:
            raise ValueError(op)
    return out


# ---------------------------------------------------------------------------------------------
# tables of special functions: reference evaluation of every query of the program


def fill_tables(rec, prog, regs, first, shape, i):
    for n, st in enumerate(prog):
        op = st["op"]
        if first[n] >= len(regs):
            break
        if op in ("mproject", "pproject"):
            src = regs[st["a"]] if op == "mproject" else regs[first[n]]
            if is_msg(src) and isinstance(src, TransformedMessage):
                trs = [canon_tr(t) for t in src.transforms]
                if all(not t["t"].startswith("other") for t in trs):
                    for x in col(st["xs"], shape, i):
                        try:
                            ref_chain(rec, trs, h2f(x))
                        except (ValueError, OverflowError):
                            pass
            continue
        if op not in ("logpdf", "factor", "cdf", "valuefor", "transform", "inverse", "mean", "variance"):
            continue
        m = regs[st["a"]]
        if not is_msg(m):
            continue
        c = canon(m)
        trs = c["trs"] if c["k"] == "tr" else []
        if any(t["t"].startswith("other") for t in trs):
            continue
        b = c["base"] if c["k"] == "tr" else c
        if b["fam"] not in ("normal", "naturalNormal"):
            continue
        try:
            mu, sg = ref_mu_sigma(b, shape, i)
            if op == "mean":
                ref_inverse(rec, trs, mu)
                continue
            if op == "variance":
                # the points at which the Jacobians are taken: the running mean, transform by transform
                x = mu
                for t in trs:
                    x = ref_inv(rec, t, x)
                    if t["t"] == "phi":
                        rec.normpdf(rec.ndtri(x))
                continue
            x = elem(st["x"], shape, i)
            if op in ("logpdf", "factor", "transform"):
                ref_chain_det(rec, trs, x)
            elif op == "cdf":
                z = ref_chain(rec, trs, x)
                rec.ndtr((z - mu) / sg)
            elif op == "valuefor":
                z = mu + sg * math.sqrt(2.0) * rec.erfinv(1 - 2.0 * (1.0 - x))
                ref_inverse(rec, trs, z)
            elif op == "inverse":
                ref_inverse(rec, trs, x)
        except (ValueError, OverflowError, ZeroDivisionError):
            pass


def ref_mu_sigma(b, shape, i):
    p1 = elem(b["p1"], shape, i)
    p2 = elem(b["p2"], shape, i)
    if b["fam"] == "normal":
        return p1, p2
    if p2 >= 0 or p2 != p2:
        return math.nan, math.nan
    return -p1 / p2 / 2, (-2 * p2) ** -0.5


# ---------------------------------------------------------------------------------------------
# comparison of one register


def cmp_base(real, model, shape, i, scale):
    """real: canon_base dict, model: driver JSON"""
    bad = []
    if model.get("k") != "plain":
        return ["kind"]
    if real["fam"] != model["fam"]:
        bad.append("class")
    if real["shape"] != list(shape) and real["shape"] != []:
        bad.append("shape")
    for k in ("p1", "p2"):
        if real["fam"] == "fixed" and k == "p2":
            continue
        if not close(elem(real[k], shape, i), h2f(model[k]), scale=scale):
            bad.append(k)
    if not close(elem(real["ln"], shape, i), h2f(model["ln"]), scale=scale):
        bad.append("log_norm")
    if real["id"] != model["id"]:
        bad.append("id")
    if not close(elem(real["lo"], (), 0), h2f(model["lo"])) or not close(elem(real["hi"], (), 0), h2f(model["hi"])):
        bad.append("limits")
    return bad


def cmp_msg(real, model, shape, i, scale):
    if real["k"] == "plain":
        return cmp_base(real, model, shape, i, scale)
    if model.get("k") != "tr":
        return ["kind"]
    bad = ["base." + b for b in cmp_base(real["base"], model["base"], shape, i, scale)]
    rt, mt = real["trs"], model["trs"]
    if len(rt) != len(mt) or any(a["t"] != b["t"] for a, b in zip(rt, mt)):
        bad.append("transforms")
    else:
        for a, b in zip(rt, mt):
            if a["t"] == "shift" and not (close(a["s"], h2f(b["s"])) and close(a["c"], h2f(b["c"]))):
                bad.append("transforms")
                break
    if real["id"] != model["id"]:
        bad.append("id")
    if not close(real["lo"], h2f(model["lo"])) or not close(real["hi"], h2f(model["hi"])):
        bad.append("limits")
    return bad


def prog_scale(regs):
    """largest magnitude among the finite natural parameters / log_norms: tolerance scale of the program"""
    s = 1.0
    for r in regs:
        if is_msg(r):
            try:
                e = nat_of(r)
                e = e[np.isfinite(e)]
                if e.size:
                    s = max(s, float(np.max(np.abs(e))))
                ps = np.concatenate([np.ravel(np.asarray(p, dtype=float)) for p in base_of(r).parameters])
                ps = ps[np.isfinite(ps)]
                if ps.size:
                    s = max(s, float(np.max(np.abs(ps))))
            except Exception:  # noqa: BLE001
                pass
    return min(s, 1e6)


# ---------------------------------------------------------------------------------------------
# oracle: the property sentence on the real outputs


def nat_domain_ok(fam, eta):
    """is the (exact) target inside the family's natural-parameter domain, with margin"""
    eta = np.asarray(eta, dtype=float)
    if not np.all(np.isfinite(eta)):
        return False
    if fam == "normal":
        return bool(np.all(eta[1] < -1e-9 * (1 + np.abs(eta[1]))))
    return True


def nat_close(e1, e2, scale):
    e1 = np.asarray(e1, dtype=float)
    e2 = np.asarray(e2, dtype=float)
    if e1.shape != e2.shape:
        try:
            e1, e2 = np.broadcast_arrays(e1, e2)
        except ValueError:
            return False
    return all(close(a, b, scale=scale) for a, b in zip(e1.ravel(), e2.ravel()))


def same_meta(ctx, case, what, r, a, n):
    """class, id and limits of the left operand are kept"""
    if type(r) is not type(a):
        ctx.fail("C17-class-changed", f"{what}: the result is a {type(r).__name__}, the left operand a {type(a).__name__}",
                 case, {"stmt": n})
        return
    if isinstance(a, TransformedMessage):
        if [canon_tr(t) for t in r.transforms] != [canon_tr(t) for t in a.transforms]:
            ctx.fail("C17-transforms-changed", f"{what}: the transform stack of the result differs from the left operand's",
                     case, {"stmt": n})
        if r.id != a.id:
            ctx.fail("C17-id-lost", f"{what}: the result does not keep the left operand's id", case, {"stmt": n})
        if not (close(r.lower_limit, a.lower_limit) and close(r.upper_limit, a.upper_limit)):
            ctx.fail("C17-transformed-arith-drops-limits",
                     f"{what} on a transformed message with finite limits returns a message without them", case,
                     {"stmt": n, "limits": [jf(a.lower_limit), jf(a.upper_limit)],
                      "got": [jf(r.lower_limit), jf(r.upper_limit)]})
        rb, ab = r.base_message, a.base_message
        if type(rb) is not type(ab):
            ctx.fail("C17-class-changed", f"{what}: base message class changed", case, {"stmt": n})
        return
    if r.id != a.id:
        ctx.fail("C17-id-lost", f"{what}: the result does not keep the left operand's id", case,
                 {"stmt": n, "id": a.id, "got": r.id})
    if not (close(r.lower_limit, a.lower_limit) and close(r.upper_limit, a.upper_limit)):
        ctx.fail("C17-limits-lost", f"{what}: the result does not keep the left operand's limits", case,
                 {"stmt": n, "limits": [jf(a.lower_limit), jf(a.upper_limit)],
                  "got": [jf(r.lower_limit), jf(r.upper_limit)]})


def fam_of(m):
    return FAM_OF.get(type(base_of(m)).__name__, "other")


def linear_law(ctx, case, n, what, r, a, target, scale):
    """natural parameters of r are `target` (sum / difference / multiple)"""
    fam = fam_of(a)
    if fam == "fixed":
        if r is not a and not nat_close(nat_of(r), nat_of(a), scale):
            ctx.fail("C17-fixed-not-absorbing", f"{what}: a FixedMessage operand does not return itself", case, {"stmt": n})
        return
    got = nat_of(r)
    if nat_close(got, target, scale):
        ctx.hit("law:" + what.split()[0] + ":ok")
        return
    if fam == "normal" and not nat_domain_ok("normal", target) and np.all(np.isfinite(target)):
        ctx.hit("law:" + what.split()[0] + ":outside-domain")
        ctx.fail("C17-normal-leaves-domain-nan",
                 "NormalMessage: a power / quotient whose natural parameters leave eta2 < 0 silently yields NaN "
                 "parameters instead of the linear result", case,
                 {"stmt": n, "expected_natural": jf(target), "got": jf(got)})
        return
    ctx.fail("C17-natural-not-linear", f"{what}: natural parameters of the result are not the {what.split()[1]} of the operands'",
             case, {"stmt": n, "expected": jf(target), "got": jf(got)})


def oracle_algebra(ctx, case, prog, regs, first, scale):
    with np.errstate(all="ignore"):
        for n, st in enumerate(prog):
            op = st["op"]
            if first[n] >= len(regs):
                break
            r = regs[first[n]]
            if op in ("mul", "div"):
                a, b = regs[st["a"]], regs[st["b"]]
                if not (is_valid(a) and is_valid(b)):
                    ctx.hit("oracle-skip:invalid-operand")
                    continue
                ea, eb = nat_of(a), nat_of(b)
                if fam_of(a) != "fixed" and ea.shape != eb.shape:
                    # an array message and a scalar message: the scalar acts on every element
                    ctx.hit("oracle:shape-mix")
                    wide = ea if ea.ndim > eb.ndim else eb
                    ea2 = ea if ea.ndim == wide.ndim else ea.reshape((2,) + (1,) * (wide.ndim - 1))
                    eb2 = eb if eb.ndim == wide.ndim else eb.reshape((2,) + (1,) * (wide.ndim - 1))
                    target = ea2 + eb2 if op == "mul" else ea2 - eb2
                    got = nat_of(r)
                    if got.shape != target.shape or not nat_close(got, target, scale):
                        ctx.fail("C17-mixed-shape-broadcast",
                                 "an array message combined with a scalar message of the same family does not act element-wise",
                                 case, {"stmt": n, "expected": jf(target), "got": jf(got)})
                    continue
                same_meta(ctx, case, "product" if op == "mul" else "quotient", r, a, n)
                if fam_of(a) == "fixed":
                    linear_law(ctx, case, n, "product sum", r, a, ea, scale)
                    continue
                target = ea + eb if op == "mul" else ea - eb
                linear_law(ctx, case, n, "product sum" if op == "mul" else "quotient difference", r, a, target, scale)
                if op == "div":
                    want = base_of(a).log_norm - base_of(b).log_norm
                    if not nat_close(base_of(r).log_norm, want, scale):
                        ctx.fail("C17-lognorm-div", "quotient: log_norm is not the difference of the operands' log_norms",
                                 case, {"stmt": n, "expected": jf(want), "got": jf(base_of(r).log_norm)})
                if op == "mul" and is_valid(r):
                    # (a*b)/b equals a
                    back = r / b
                    if not nat_close(nat_of(back), ea, scale):
                        ctx.fail("C17-mul-div-cancel", "(a*b)/b does not have a's natural parameters", case,
                                 {"stmt": n, "expected": jf(ea), "got": jf(nat_of(back))})
                    else:
                        ctx.hit("law:cancel:ok")
                    same_meta(ctx, case, "(a*b)/b", back, a, n)
                    # commutes on natural parameters
                    if type(base_of(a)) is type(base_of(b)):
                        other = b * a
                        if not nat_close(nat_of(other), nat_of(r), scale):
                            ctx.fail("C17-mul-not-commutative", "a*b and b*a have different natural parameters", case,
                                     {"stmt": n})
            elif op == "pow":
                a = regs[st["a"]]
                if not is_valid(a):
                    ctx.hit("oracle-skip:invalid-operand")
                    continue
                k = st["k"]
                same_meta(ctx, case, "power", r, a, n)
                ea = nat_of(a)
                linear_law(ctx, case, n, "power multiple", r, a, k * ea, scale * max(1.0, abs(k)))
                if fam_of(a) == "fixed":
                    continue
                want = k * base_of(a).log_norm
                if not nat_close(base_of(r).log_norm, want, scale):
                    ctx.fail("C17-lognorm-pow", "power: log_norm of a**k is not k * log_norm", case,
                             {"stmt": n, "expected": jf(want), "got": jf(base_of(r).log_norm)})
                if not is_valid(r):
                    continue
                sc = scale * max(1.0, abs(k)) * 4
                # a**k repeated equals products
                if k in (2.0, 3.0):
                    prod = a * a if k == 2.0 else (a * a) * a
                    if not nat_close(nat_of(prod), nat_of(r), sc):
                        ctx.fail("C17-pow-not-product", f"a**{int(k)} differs from the {int(k)}-fold product", case,
                                 {"stmt": n, "pow": jf(nat_of(r)), "product": jf(nat_of(prod))})
                    else:
                        ctx.hit("law:pow-product:ok")
                j = st.get("j")
                if j is not None:
                    aj = a ** j
                    if is_valid(aj):
                        lhs = aj * r
                        rhs = a ** (j + k)
                        if is_valid(rhs) and not nat_close(nat_of(lhs), nat_of(rhs), sc * max(1.0, abs(j))):
                            ctx.fail("C17-pow-add", "a**j * a**k differs from a**(j+k)", case,
                                     {"stmt": n, "j": j, "k": k, "lhs": jf(nat_of(lhs)), "rhs": jf(nat_of(rhs))})
                        else:
                            ctx.hit("law:pow-add:ok")
                    rj = r ** j
                    rhs = a ** (j * k)
                    if is_valid(rj) and is_valid(rhs) and not nat_close(nat_of(rj), nat_of(rhs), sc * max(1.0, abs(j))):
                        ctx.fail("C17-pow-mul", "(a**k)**j differs from a**(j*k)", case,
                                 {"stmt": n, "j": j, "k": k, "lhs": jf(nat_of(rj)), "rhs": jf(nat_of(rhs))})
            elif op in ("smul", "sdiv"):
                a = regs[st["a"]]
                if not is_valid(a):
                    continue
                if fam_of(a) == "fixed":
                    continue
                same_meta(ctx, case, "scaling", r, a, n)
                if not nat_close(nat_of(r), nat_of(a), scale):
                    ctx.fail("C17-scalar-changes-natural", "multiplying / dividing by a number changes the natural parameters",
                             case, {"stmt": n})
                want = base_of(a).log_norm + (math.log(st["c"]) if op == "smul" else -math.log(st["c"]))
                if not nat_close(base_of(r).log_norm, want, scale):
                    ctx.fail("C17-lognorm-scalar", "scaling by c does not move log_norm by log c", case,
                             {"stmt": n, "expected": jf(want), "got": jf(base_of(r).log_norm)})
            elif op == "tonat":
                a = regs[st["a"]]
                if not is_valid(a):
                    continue
                if not nat_close(nat_of(r), nat_of(a), scale):
                    ctx.fail("C17-normal-natural-form",
                             "NormalMessage.natural is not the same distribution in natural form (natural parameters differ)",
                             case, {"stmt": n, "expected": jf(nat_of(a)), "got": jf(nat_of(r))})
                elif not (r.id == a.id and close(r.lower_limit, a.lower_limit) and close(r.upper_limit, a.upper_limit)
                          and nat_close(r.log_norm, a.log_norm, scale)):
                    ctx.fail("C17-normal-natural-form", "NormalMessage.natural loses id / limits / log_norm", case, {"stmt": n})
                else:
                    ctx.hit("law:natural-form:ok")
            elif op == "fromnat":
                eta = np.array([as_param(st["e1"]), as_param(st["e2"])])
                if nat_domain_ok(st["fam"], eta):
                    if not nat_close(nat_of(r), eta, scale):
                        ctx.fail("C17-natural-roundtrip", "from_natural_parameters(eta).natural_parameters differs from eta",
                                 case, {"stmt": n, "expected": jf(eta), "got": jf(nat_of(r))})
                    else:
                        ctx.hit("law:natural-roundtrip:ok")
                    # ordinary -> natural -> ordinary
                    cls = type(r)
                    again = cls.from_natural_parameters(nat_of(r))
                    for p, q in zip(again.parameters, r.parameters):
                        if not nat_close(p, q, scale):
                            ctx.fail("C17-natural-roundtrip", "ordinary -> natural -> ordinary parameters do not round-trip",
                                     case, {"stmt": n})
                            break


def expected_stats(m):
    """E[t(x)] of a valid base message, by closed form"""
    fam = fam_of(m)
    if fam in ("normal", "naturalNormal"):
        mu = np.asarray(m.mean, dtype=float)
        var = np.asarray(m.variance, dtype=float)
        return np.array([mu, mu * mu + var])
    a, b = (np.asarray(p, dtype=float) for p in m.parameters)
    if fam == "gamma":
        return np.array([special.digamma(a) - np.log(b), a / b])
    if fam == "beta":
        return np.array([special.digamma(a) - special.digamma(a + b), special.digamma(b) - special.digamma(a + b)])
    raise ValueError(fam)


def beta_hard(stats_):
    """inv_beta_suffstats does not converge for small shape parameters (known finding): recognise the
    inputs by solving the moment equations independently"""
    from scipy import optimize

    def f(ab, s):
        a, b = np.exp(ab)
        return [special.digamma(a) - special.digamma(a + b) - s[0], special.digamma(b) - special.digamma(a + b) - s[1]]

    s = np.asarray(stats_, dtype=float).reshape(2, -1)
    for j in range(s.shape[1]):
        sol = optimize.root(f, [0.0, 0.0], args=(s[:, j],))
        if not sol.success or min(np.exp(sol.x)) < 0.75:
            return True
    return False


def oracle_moments(ctx, case, prog, regs, first, scale):
    """conversion from sufficient statistics and projection: the result's expected sufficient statistics
    are the given / the weighted sample moments"""
    with np.errstate(all="ignore"):
        for n, st in enumerate(prog):
            op = st["op"]
            if first[n] >= len(regs):
                break
            src = None
            if op == "fromsuff":
                r = regs[first[n]]
                want = np.array([as_param(st["m1"]), as_param(st["m2"])])
                label = "from_sufficient_statistics"
                fam = st["fam"]
                base = r
            elif op in ("project", "mproject", "pproject"):
                r = regs[first[n] + (1 if op == "pproject" else 0)]
                xs = np.array(st["xs"], dtype=float)
                lws = np.array(st["lws"], dtype=float)
                src = regs[st["a"]] if op == "mproject" else (regs[first[n]] if op == "pproject" else None)
                base = base_of(r)
                fam = fam_of(r)
                if src is not None and isinstance(src, TransformedMessage):
                    rec = Rec()
                    trs = [canon_tr(t) for t in src.transforms]
                    zs = np.array([ref_chain(rec, trs, float(x)) for x in xs.ravel()]).reshape(xs.shape)
                    if type(r) is not type(src) or [canon_tr(t) for t in r.transforms] != trs or r.id != src.id:
                        ctx.fail("C17-transformed-project-meta", "projection of a transformed message loses its transforms / id",
                                 case, {"stmt": n})
                else:
                    zs = xs
                w = np.exp(lws - lws.max(axis=0, keepdims=True))
                wn = w / w.sum(axis=0, keepdims=True)
                if fam in ("normal", "naturalNormal"):
                    t = np.array([zs, zs * zs])
                elif fam == "gamma":
                    t = np.array([np.log(zs), zs])
                elif fam == "beta":
                    t = np.array([np.log(zs), np.log1p(-zs)])
                else:
                    continue
                want = (t * wn[None, ...]).sum(axis=1)
                label = "project"
                ln_want = np.log(np.exp(lws - lws.max(axis=0, keepdims=True)).mean(axis=0)) + lws.max(axis=0)
                if not nat_close(base.log_norm, ln_want, 1.0):
                    ctx.fail("C17-project-lognorm", "project: log_norm is not the log of the mean weight", case,
                             {"stmt": n, "expected": jf(ln_want), "got": jf(base.log_norm)})
            else:
                continue
            if fam == "fixed":
                continue
            if fam in ("normal", "naturalNormal") and np.any(want[1] - want[0] ** 2 <= 1e-12 * (1 + want[1])):
                ctx.hit("oracle-skip:degenerate-moments")
                continue
            tol = REL if fam in ("normal", "naturalNormal") else 1e-5
            bad = False
            try:
                got = expected_stats(base) if is_valid(base) else None
            except Exception:  # noqa: BLE001
                got = None
            if got is None or not all(close(a, b, rel=tol, scale=max(1.0, float(np.max(np.abs(want))))) for a, b in
                                      zip(np.ravel(got), np.ravel(want))):
                bad = True
            if bad:
                if op in ("mproject", "pproject") and src is not None and isinstance(src, TransformedMessage):
                    ctx.fail("C17-transformed-project-space",
                             "projection of a transformed message: the base message does not match the weighted moments "
                             "of the samples mapped to the base space", case,
                             {"stmt": n, "expected": jf(want), "got": None if got is None else jf(got)})
                elif fam == "beta" and beta_hard(want):
                    ctx.fail("C17-beta-moment-inversion-small-shape",
                             "BetaMessage: inverting sufficient statistics (5 Newton steps from a start >= 1) does not "
                             "converge when a shape parameter is below ~0.75; the result does not match the moments",
                             case, {"stmt": n, "moments": jf(want), "got_params": [jf(p) for p in base.parameters]})
                else:
                    ctx.fail("C17-moment-matching",
                             f"{label}: the expected sufficient statistics of the result differ from the "
                             f"{'given statistics' if op == 'fromsuff' else 'weighted sample moments'}",
                             case, {"stmt": n, "fam": fam, "expected": jf(want), "got": None if got is None else jf(got),
                                    "params": [jf(p) for p in base.parameters]})
            else:
                ctx.hit("law:moments:" + fam + ":ok")


# --- densities --------------------------------------------------------------------------------


def ref_logdensity(c, shape, i, x, rec=None):
    """log density of the message described by canonical form c at x, by closed form (scipy.stats +
    change of variables with the reference transforms)"""
    rec = rec or Rec()
    trs = c["trs"] if c["k"] == "tr" else []
    b = c["base"] if c["k"] == "tr" else c
    z, ld = ref_chain_det(rec, trs, x)
    fam = b["fam"]
    p1, p2 = elem(b["p1"], shape, i), elem(b["p2"], shape, i)
    if fam == "normal":
        return float(stats.norm.logpdf(z, p1, p2)) + ld
    if fam == "naturalNormal":
        return float(stats.norm.logpdf(z, -p1 / p2 / 2, (-2 * p2) ** -0.5)) + ld
    if fam == "gamma":
        return float(stats.gamma.logpdf(z, p1, scale=1 / p2)) + ld
    if fam == "beta":
        return float(stats.beta.logpdf(z, p1, p2)) + ld
    raise ValueError(fam)


def ref_support(c, shape, i):
    rec = Rec()
    trs = c["trs"] if c["k"] == "tr" else []
    b = c["base"] if c["k"] == "tr" else c
    lo, hi = {"normal": (-INF, INF), "naturalNormal": (-INF, INF), "gamma": (0.0, INF), "beta": (0.0, 1.0)}[b["fam"]]
    with np.errstate(all="ignore"):
        a, z = ref_inverse(rec, trs, lo), ref_inverse(rec, trs, hi)
    return (a, z) if a <= z else (z, a)


def nonlinear(trs):
    return any(t["t"] != "shift" for t in trs)


def oracle_queries(ctx, case, prog, regs, first, scale):
    """point values the message reports against closed forms"""
    with np.errstate(all="ignore"):
        for n, st in enumerate(prog):
            op = st["op"]
            if first[n] >= len(regs):
                break
            if op not in ("logpdf", "factor", "cdf", "valuefor", "mean", "variance"):
                continue
            m = regs[st["a"]]
            if not is_msg(m) or not is_valid(m) or fam_of(m) in ("fixed", "other"):
                continue
            kind, val = regs[first[n]]
            c = canon(m)
            trs = c["trs"] if c["k"] == "tr" else []
            if any(t["t"].startswith("other") for t in trs):
                continue
            shape = tuple(m.shape)
            for i in range(max(1, int(np.prod(shape)) if shape else 1)):
                got = elem(val, shape, i)
                if op in ("logpdf", "factor"):
                    x = elem(st["x"], shape, i)
                    want = ref_logdensity(c, shape, i, x)
                    if not math.isfinite(want):
                        ctx.hit("oracle-skip:density-not-finite")
                        continue
                    if op == "logpdf" and trs:
                        # the density of a transformed message is `factor`; `logpdf` omits the determinant
                        if not close(got, want, rel=1e-8, scale=max(1.0, abs(want))):
                            ctx.fail("C17-transformed-logpdf-no-jacobian",
                                     "TransformedMessage.logpdf is the base density at the transformed point without the "
                                     "log-determinant of the transform (only .factor is the normalised density)",
                                     case, {"stmt": n, "x": x, "logpdf": got, "density": want})
                        continue
                    if not close(got, want, rel=1e-8, scale=max(1.0, abs(want))):
                        ctx.fail("C17-density-value", f"{op}(x) differs from the closed-form log density", case,
                                 {"stmt": n, "x": x, "got": got, "expected": want})
                    else:
                        ctx.hit("law:density-value:ok")
                elif op == "cdf":
                    x = elem(st["x"], shape, i)
                    rec = Rec()
                    z = ref_chain(rec, trs, x)
                    mu, sg = ref_mu_sigma(c["base"] if trs else c, shape, i)
                    want = float(stats.norm.cdf(z, mu, sg))
                    if not close(got, want, rel=1e-8, scale=1.0):
                        ctx.fail("C17-cdf-value", "cdf(x) differs from the closed-form CDF", case,
                                 {"stmt": n, "x": x, "got": got, "expected": want})
                elif op == "valuefor":
                    u = elem(st["x"], shape, i)
                    mu, sg = ref_mu_sigma(c["base"] if trs else c, shape, i)
                    zr = mu + sg * float(stats.norm.ppf(u))
                    if any(t["t"] == "phi" for t in trs) and abs(zr) > 5.0:
                        ctx.hit("oracle-skip:unresolvable-in-doubles")
                        continue
                    try:
                        xr = ref_inverse(Rec(), trs, zr)
                    except OverflowError:
                        xr = math.inf
                    if not math.isfinite(xr) or (trs and not 1e-250 < abs(xr) < 1e250):
                        ctx.hit("oracle-skip:over-underflow")  # 10**z, exp(z) leave the range of doubles
                        continue
                    # value_for inverts the cdf
                    back = elem(m.cdf(xarr(m, val)), shape, i)
                    if not close(back, u, rel=1e-7, scale=1.0):
                        ctx.fail("C17-value-for-not-inverse-cdf", "cdf(value_for(u)) differs from u", case,
                                 {"stmt": n, "u": u, "value": got, "cdf": back})
                    else:
                        ctx.hit("law:value-for:ok")


def quad(f, a, b, pts=None):
    val, err = integrate.quad(f, a, b, limit=200, points=pts)
    return val, err


def oracle_density(ctx, case, prog, regs, first, budget):
    """normalisation over the support, CDF, mean and variance by quadrature (numerical test)"""
    with np.errstate(all="ignore"):
        for n, st in enumerate(prog):
            if st["op"] != "density" or first[n] >= len(regs):
                continue
            m = regs[st["a"]]
            if not is_msg(m) or not is_valid(m) or fam_of(m) in ("fixed", "other"):
                continue
            if budget[0] <= 0:
                ctx.hit("density:budget-exhausted")
                return
            budget[0] -= 1
            c = canon(m)
            trs = c["trs"] if c["k"] == "tr" else []
            shape = tuple(m.shape)
            size = int(np.prod(shape)) if shape else 1
            i = 0 if size == 1 else (n % size)

            def at(x, fn):
                if shape:
                    full = np.array(st["x0"], dtype=float).reshape(shape).copy()
                    full.ravel()[i] = x
                    return elem(fn(full), shape, i)
                return float(fn(x))

            dens_fn = m.factor if trs else m.logpdf

            def safe_exp(v):
                return 0.0 if v != v else (math.exp(v) if v < 700 else math.inf)

            def pdf(x):
                return safe_exp(at(x, dens_fn))

            lo, hi = ref_support(c, shape, i)
            # the support the message itself reports must be the transformed support of the base
            sup = m._support[0]
            if not (close(float(np.ravel(sup[0])[0]), lo, rel=1e-9) and close(float(np.ravel(sup[1])[0]), hi, rel=1e-9)):
                ctx.fail("C17-support", "the support the message reports is not the image of the base support", case,
                         {"stmt": n, "reported": [jf(sup[0]), jf(sup[1])], "expected": [lo, hi]})
            # quadrature in the coordinate z of the base message (x = T^-1(z), dx = exp(-log|dT/dx|) dz with the
            # harness' own reference transforms): the integrand is the density the REAL message reports at x
            bq = base_quantiles(c, shape, i)
            if any(t["t"] == "phi" for t in trs) and max(abs(bq[0]), abs(bq[-1])) > 8.0:
                ctx.hit("density:skip-unresolvable-in-doubles")
                continue
            bb = c["base"] if trs else c
            if bb["fam"] in ("gamma", "beta") and (elem(bb["p1"], shape, i) < 0.5 or
                                                   (bb["fam"] == "beta" and elem(bb["p2"], shape, i) < 0.5)):
                ctx.hit("density:skip-strongly-singular")  # x^(a-1), a < 0.5: outside what the quadrature resolves
                continue
            rec = Rec()

            def x_of(z):
                return ref_inverse(rec, trs, z)

            def g(z, weight=None):
                x = x_of(z)
                if not (lo < x < hi):
                    return 0.0
                ld = ref_chain_det(rec, trs, x)[1] if trs else 0.0
                v = pdf(x) * safe_exp(-ld)
                if v != v or math.isinf(v):
                    return 0.0
                return v if weight is None else v * weight(x)

            a, b = bq[0], bq[-1]
            mid = bq[1:-1]
            total, err = quad(g, a, b, pts=mid)
            ctx.notes["numerical_tests"] = ctx.notes.get("numerical_tests", 0) + 1
            if not abs(total - 1.0) <= 1e-6 + 10 * err:
                ctx.fail("C17-density-not-normalised",
                         "the density the message reports does not integrate to 1 over its support", case,
                         {"stmt": n, "integral": total, "err": err, "base_range": [a, b]})
                continue
            ctx.hit("density:normalised:" + ("transformed" if trs else fam_of(m)))
            if trs:
                # the un-Jacobianed logpdf is not a normalised density (known finding)
                def g2(z):
                    x = x_of(z)
                    if not (lo < x < hi):
                        return 0.0
                    v = safe_exp(at(x, m.logpdf)) * safe_exp(-ref_chain_det(rec, trs, x)[1])
                    return 0.0 if v != v or math.isinf(v) else v
                tot2, err2 = quad(g2, a, b, pts=mid)
                if not abs(tot2 - 1.0) <= 1e-6 + 10 * err2:
                    ctx.fail("C17-transformed-logpdf-no-jacobian",
                             "TransformedMessage.logpdf is the base density at the transformed point without the "
                             "log-determinant of the transform (only .factor is the normalised density)",
                             case, {"stmt": n, "integral_of_exp_logpdf": tot2})
            # CDF
            if hasattr(m, "cdf") and fam_of(m) in ("normal", "naturalNormal"):
                zq = bq[len(bq) // 2 + 1]
                part, err = quad(g, a, zq, pts=[q for q in mid if q < zq])
                got = at(x_of(zq), m.cdf)
                if not abs(part - got) <= 1e-6 + 10 * err:
                    ctx.fail("C17-cdf-inconsistent", "cdf(x) is not the integral of the reported density up to x", case,
                             {"stmt": n, "x": x_of(zq), "cdf": got, "integral": part})
                else:
                    ctx.hit("density:cdf-consistent")
            # mean and variance
            m1, e1 = quad(lambda z: g(z, lambda x: x), a, b, pts=mid)
            m2, e2 = quad(lambda z: g(z, lambda x: (x - m1) ** 2), a, b, pts=mid)
            gm = elem(m.mean, shape, i)
            gv = elem(m.variance, shape, i)
            okm = abs(gm - m1) <= 1e-5 * max(1.0, abs(m1)) + 10 * e1
            okv = abs(gv - m2) <= 1e-5 * max(1.0, abs(m2)) + 10 * e2
            if okm and okv:
                ctx.hit("density:moments-consistent")
            elif nonlinear(trs):
                ctx.fail("C17-transformed-moments-delta-method",
                         "mean / variance of a non-linearly transformed message are the transformed base mean and a "
                         "first-order (delta method) variance, not the moments of the reported density", case,
                         {"stmt": n, "mean": gm, "density_mean": m1, "variance": gv, "density_variance": m2})
            else:
                ctx.fail("C17-moments-inconsistent", "mean / variance differ from the moments of the reported density", case,
                         {"stmt": n, "mean": gm, "density_mean": m1, "variance": gv, "density_variance": m2})


def base_quantiles(c, shape, i):
    """reference quantiles of the base message (where the quadrature is placed)"""
    b = c["base"] if c["k"] == "tr" else c
    p1, p2 = elem(b["p1"], shape, i), elem(b["p2"], shape, i)
    ps = [1e-13, 1e-6, 1e-3, 0.05, 0.25, 0.5, 0.75, 0.95, 1 - 1e-3, 1 - 1e-6, 1 - 1e-13]
    fam = b["fam"]
    if fam == "normal":
        d = stats.norm(p1, p2)
    elif fam == "naturalNormal":
        d = stats.norm(-p1 / p2 / 2, (-2 * p2) ** -0.5)
    elif fam == "gamma":
        d = stats.gamma(p1, scale=1 / p2)
    else:
        d = stats.beta(p1, p2)
    out = sorted(set(float(d.ppf(p)) for p in ps))
    lo, hi = d.support()
    if fam in ("gamma", "beta"):
        out[0] = float(lo)
    if fam == "beta":
        out[-1] = float(hi)
    return out


# ---------------------------------------------------------------------------------------------
# Gamma / Beta families inside the model (AFModel/MsgGB.lean): densities, the Newton inversions of the
# digamma equations, from_mode, expected sufficient statistics


GB_OPS = {"logpdfx", "meanx", "residual", "expstats", "canon", "logpartition", "invpsilog", "invbeta", "frommode"}
PSILOG_START = (0.38648347, 0.89486989, 0.78578843)


def ref_invpsilog(rec, c):
    """the iterates of utils.invpsilog (harness' own evaluation; records digamma / trigamma for the model);
    returns (result, smooth): smooth = every iterate stayed on the positive axis"""
    A, be, ga = PSILOG_START
    x = -(1 - 0.5 * (1 + A * (-c) ** be) ** -ga) / c
    for _ in range(4):
        if not (x > 0 and math.isfinite(x)):
            return x, False
        f0 = rec.digamma(x) - math.log(x) - c
        x = x - f0 / (rec.trigamma(x) - 1 / x)
    if x > 0 and math.isfinite(x):
        rec.digamma(x)  # (the residual is evaluated at the result)
    return x, bool(x > 0 and math.isfinite(x))


def ref_inv_beta(rec, l1, l2):
    g1, g2 = math.exp(l1), math.exp(l2)
    dG = 1 - (g1 + g2)
    if not dG > 0:
        return (math.nan, math.nan), False
    a, b = max(1.0, (1 + g1 / dG) / 2), max(1.0, (1 + g2 / dG) / 2)
    for _ in range(5):
        if not (a > 0 and b > 0 and math.isfinite(a) and math.isfinite(b)):
            return (a, b), False
        pab = rec.digamma(a + b)
        f1, f2 = rec.digamma(a) - pab - l1, rec.digamma(b) - pab - l2
        t = rec.trigamma(a + b)
        j11, j12, j22 = rec.trigamma(a) - t, -t, rec.trigamma(b) - t
        det = j11 * j22 - j12 * j12
        a, b = a + (-f1 * j22 + j12 * f2) / det, b + (-j11 * f2 + j12 * f1) / det
    if a > 0 and b > 0 and math.isfinite(a) and math.isfinite(b):
        rec.digamma(a), rec.digamma(b), rec.digamma(a + b)
    return (a, b), bool(a > 0 and b > 0 and math.isfinite(a) and math.isfinite(b))


def ref_stats_of_samples(fam, xs, lws):
    """the statistics AbstractMessage.project hands on, for one element (1-d arrays)"""
    xs = np.asarray(xs, dtype=float)
    lws = np.asarray(lws, dtype=float)
    w = np.exp(lws - lws.max())
    w = w / w.mean()
    t = (np.log(xs), xs) if fam == "gamma" else (np.log(xs), np.log1p(-xs))
    return float((t[0] * w).mean()), float((t[1] * w).mean())


def gb_inversion_smooth(rec, fam, st, shape, i):
    """runs the reference Newton inversion of statement st (fromsuff / project / mproject of a gamma / beta
    message) for element i, recording the special-function values; False when an iterate leaves the positive axis"""
    with np.errstate(all="ignore"):
        try:
            if st["op"] == "fromsuff":
                m1, m2 = elem(st["m1"], shape, i), elem(st["m2"], shape, i)
            else:
                m1, m2 = ref_stats_of_samples(fam, [h2f(v) for v in col(st["xs"], shape, i)],
                                              [h2f(v) for v in col(st["lws"], shape, i)])
            if fam == "gamma":
                c = m1 - math.log(m2)
                if not c < 0:
                    return False
                return ref_invpsilog(rec, c)[1]
            return ref_inv_beta(rec, m1, m2)[1]
        except (ValueError, OverflowError, ZeroDivisionError):
            return False


def exec_stmt_gb(st, regs):
    from autofit.messages import utils as mutils
    from autofit.messages import beta as mbeta
    op = st["op"]
    if op == "invpsilog":
        return [("num", np.asarray(mutils.invpsilog(np.asarray(st["x"], dtype=float)), dtype=float))]
    if op == "invbeta":
        a, b = mbeta.inv_beta_suffstats(np.asarray(st["x"], dtype=float), np.asarray(st["y"], dtype=float))
        return [("pair", np.array([np.asarray(a, dtype=float), np.asarray(b, dtype=float)]))]
    if op == "residual":
        # the residual of the equations at the REAL result, with the library's own psilog / grad_betaln
        m1, m2 = np.asarray(st["m1"], dtype=float), np.asarray(st["m2"], dtype=float)
        r = FAMS[st["fam"]].from_sufficient_statistics(np.array([m1, m2]))
        if st["fam"] == "gamma":
            res = mutils.psilog(np.asarray(r.alpha, dtype=float)) - (m1 - np.log(m2))
            return [("pair", np.array([res, np.zeros_like(res)]))]
        ab = np.c_[np.ravel(r.alpha), np.ravel(r.beta)]
        f = mbeta.grad_betaln(ab) - np.c_[np.ravel(m1), np.ravel(m2)]
        return [("pair", np.array([f[:, 0].reshape(np.shape(m1)), f[:, 1].reshape(np.shape(m1))]))]
    if op == "frommode":
        cls = FAMS[st["fam"]]
        return [cls.from_mode(as_param(st["m"]), st["v"], log_norm=st["ln"], id_=st["id"], lower_limit=st["lo"],
                              upper_limit=st["hi"])]
    m = regs[st["a"]]
    if op == "logpdfx":
        return [("num", np.asarray(m.logpdf(xarr(m, st["x"])), dtype=float))]
    if op == "meanx":
        return [("num", np.asarray(m.mean, dtype=float))]
    if op == "expstats":
        # no method of the library returns E[t(x)]: the closed form on the parameters the REAL message holds
        return [("pair", expected_stats(base_of(m)))]
    if op == "canon":
        return [("pair", np.asarray(base_of(m).to_canonical_form(xarr(m, st["x"])), dtype=float))]
    if op == "logpartition":
        return [("num", np.asarray(base_of(m).log_partition, dtype=float))]
    raise ValueError(op)


def model_stmt_gb(st, regs, shape, i):
    op = st["op"]
    if op == "invpsilog":
        return {"op": op, "x": hx(st["x"], shape, i)}
    if op == "invbeta":
        return {"op": op, "x": hx(st["x"], shape, i), "y": hx(st["y"], shape, i)}
    if op == "residual":
        return {"op": op, "fam": st["fam"], "m1": hx(st["m1"], shape, i), "m2": hx(st["m2"], shape, i)}
    if op == "frommode":
        return {"op": op, "fam": st["fam"], "m": hx(st["m"], shape, i), "v": f2h(st["v"]), "ln": f2h(st["ln"]),
                "id": st["id"], "lo": f2h(st["lo"]), "hi": f2h(st["hi"])}
    if op in ("logpdfx", "canon"):
        return {"op": op, "a": st["a"], "x": hx(st["x"], shape, i)}
    return {"op": op, "a": st["a"]}


def fill_tables_gb(rec, prog, regs, first, shape, i):
    for n, st in enumerate(prog):
        op = st["op"]
        if first[n] >= len(regs):
            break
        try:
            if op == "invpsilog":
                ref_invpsilog(rec, elem(st["x"], shape, i))
            elif op == "invbeta":
                ref_inv_beta(rec, elem(st["x"], shape, i), elem(st["y"], shape, i))
            elif op == "residual":
                gb_inversion_smooth(rec, st["fam"], {"op": "fromsuff", "m1": st["m1"], "m2": st["m2"]}, shape, i)
            elif op in ("fromsuff", "project", "mproject"):
                fam = st.get("fam") or fam_of(regs[st["a"]])
                if fam in ("gamma", "beta"):
                    gb_inversion_smooth(rec, fam, st, shape, i)
            elif op in ("logpdf", "logpdfx", "expstats", "logpartition"):
                m = regs[st["a"]]
                if not is_msg(m) or fam_of(m) not in ("gamma", "beta"):
                    continue
                b = canon_base(base_of(m))
                p1, p2 = elem(b["p1"], shape, i), elem(b["p2"], shape, i)
                for v in (p1, p2, p1 + p2):
                    rec.lgamma(v)
                    rec.digamma(v)
        except (ValueError, OverflowError, ZeroDivisionError):
            pass


def cmp_gb(ctx, case, st, r, mo, r_i, shape, i, scale):
    """one register of a GB_OPS statement: numbers at 1e-8 (relative 1e-9 for invpsilog, 1e-7 for inv_beta_suffstats,
    whose 2x2 solve is LAPACK's in the code and Cramer's rule in the model)"""
    op = st["op"]
    kind, val = r
    rel = {"invpsilog": 1e-9, "invbeta": 1e-7}.get(op, 1e-8)
    sc0 = 0.0 if op in ("invpsilog", "invbeta") else 1.0  # the raw inversions: purely relative
    if op in ("invpsilog", "invbeta"):
        rec = Rec()
        with np.errstate(all="ignore"):
            try:
                smooth = ref_invpsilog(rec, elem(st["x"], shape, i))[1] if op == "invpsilog" else \
                    ref_inv_beta(rec, elem(st["x"], shape, i), elem(st["y"], shape, i))[1]
            except (ValueError, OverflowError, ZeroDivisionError):
                smooth = False
        if not smooth:
            ctx.hit("model-skip:newton-left-positive-axis")
            return
    if op == "residual":
        if not gb_inversion_smooth(Rec(), st["fam"], {"op": "fromsuff", "m1": st["m1"], "m2": st["m2"]}, shape, i):
            ctx.hit("model-skip:newton-left-positive-axis")
            return
        rel, sc0 = 1e-6, 1e-3  # both residuals are rounding noise when converged: compared at 1e-9 absolute
        small = max(abs(h2f(mo["a"])), abs(h2f(mo["b"]))) <= 1e-9
        ctx.hit("converged:" + ("yes" if small else "no"))
    if kind == "num":
        got, want = elem(val, shape, i), h2f(mo["v"])
        ok = close(got, want, rel=rel, scale=sc0)
    else:
        e = np.asarray(val, dtype=float)
        ok = close(elem(e[0], shape, i), h2f(mo["a"]), rel=rel, scale=sc0) and \
            close(elem(e[1], shape, i), h2f(mo["b"]), rel=rel, scale=sc0)
        got, want = jf(e), [h2f(mo["a"]), h2f(mo["b"])]
    if ok:
        ctx.hit("model:query-ok:" + op)
    else:
        ctx.disagree("C17.query:" + op, case, {"reg": r_i, "elem": i, "impl": got}, want)


def gen_stacked(rng, n):
    """a transformed message used as the base of another transformed message (the constructor flattens the stacks):
    CDF / density / quantiles of the outer message against those of the inner one at the transformed point"""
    inner_v = rng.choice(["log", "log10", "shifted", "log-exp"])
    outer = rng.choice([[{"t": "shift", "s": rfloat(rng, -3, 3), "c": rfloat(rng, 0.5, 4)}],
                        [{"t": "exp"}], [{"t": "exp"}, {"t": "shift", "s": rfloat(rng, -2, 2), "c": rfloat(rng, 0.5, 3)}]])
    prog = [gen_new(rng, "normal", n, mild=True),
            {"op": "tnew", "b": 0, "trs": variant_trs(rng, inner_v), "id": fresh_id() if rng.random() < 0.5 else None,
             "lo": -INF, "hi": INF}]
    lims = rng.random() < 0.4
    prog.append({"op": "tnew", "b": 1, "trs": outer, "id": fresh_id() if rng.random() < 0.5 else None,
                 "lo": rfloat(rng, -9, -1) if lims else -INF, "hi": rfloat(rng, 1, 9) if lims else INF})
    with np.errstate(all="ignore"):
        regs, first, err = run_real(prog)
        if err is not None:
            return {"prog": prog}
        x = point_in_support(rng, regs[2], None)
    if x is None:
        return {"prog": prog}
    u = [round(rng.uniform(0.03, 0.97), 4) for _ in range(len(x))] if isinstance(x, list) else round(rng.uniform(0.03, 0.97), 4)
    prog += [{"op": "stackcheck", "a": 2, "b": 1, "outer": outer, "x": x, "u": u},
             {"op": "cdf", "a": 2, "x": x}, {"op": "factor", "a": 2, "x": x}, {"op": "logpdf", "a": 2, "x": x},
             {"op": "valuefor", "a": 2, "x": u}, {"op": "mean", "a": 2}, {"op": "natural", "a": 2},
             {"op": "transform", "a": 2, "x": x}]
    if rng.random() < 0.5:
        prog.append({"op": "mul", "a": 2, "b": 1})
    return {"prog": prog}


def oracle_stacked(ctx, case, prog, regs, first):
    """wrap_change_of_variables on the real outputs: the outer message's CDF / density / quantile are the inner
    message's at the point transformed by the harness' own reference transforms (plus the log-determinant)"""
    with np.errstate(all="ignore"):
        for n, st in enumerate(prog):
            if st["op"] != "stackcheck" or first[n] >= len(regs):
                continue
            mo, mi = regs[st["a"]], regs[st["b"]]
            shape = tuple(mo.shape)
            size = int(np.prod(shape)) if shape else 1
            xs = np.asarray(st["x"], dtype=float).ravel()
            rec = Rec()
            zs, lds = zip(*[ref_chain_det(rec, st["outer"], float(v)) for v in xs])
            z = np.array(zs).reshape(shape) if shape else float(zs[0])
            ld = np.array(lds).reshape(shape) if shape else float(lds[0])
            pairs = [("cdf", mo.cdf(xarr(mo, st["x"])), mi.cdf(z)),
                     ("factor", mo.factor(xarr(mo, st["x"])), np.asarray(mi.factor(z)) + ld),
                     ("logpdf", mo.logpdf(xarr(mo, st["x"])), mi.logpdf(z))]
            vi = np.asarray(mi.value_for(xarr(mi, st["u"])), dtype=float).ravel()
            back = np.array([ref_inverse(rec, st["outer"], float(v)) for v in vi])
            pairs.append(("value_for", np.asarray(mo.value_for(xarr(mo, st["u"]))).ravel(), back))
            for what, got, want in pairs:
                g, w = np.asarray(got, dtype=float).ravel(), np.asarray(want, dtype=float).ravel()
                if g.shape != w.shape or not all(close(a, b, rel=1e-8, scale=1.0) for a, b in zip(g, w)):
                    ctx.fail("C17-stacked-transform", f"a transformed message built on a transformed message: {what} is not "
                             "the inner message's at the transformed point", case,
                             {"stmt": n, "what": what, "got": jf(g), "expected": jf(w)})
                else:
                    ctx.hit("law:stacked:" + what)
            if [canon_tr(t) for t in mo.transforms] != [canon_tr(t) for t in mi.transforms] + \
                    [canon_tr(mk_tr(t)) for t in st["outer"]] or base_of(mo) is not base_of(mi):
                ctx.fail("C17-stacked-transform", "a transformed message built on a transformed message does not carry the "
                         "inner stack followed by the new transforms on the same base message", case, {"stmt": n})
            _ = size


def mixed_shape_model(ctx, n_cases):
    """known finding C17-mixed-shape-broadcast, model side: a two-element message times / over a scalar message of the
    same class does not raise; what it returns is compared, element by element, with Base.mulB / Base.divB (the
    behaviour as it is). The oracle (element-wise expectation) reports the finding."""
    rng = ctx.rng
    for k_ in range(n_cases):
        fam = ["gamma", "beta", "normal", "naturalNormal"][k_ % 4]
        a = gen_new(rng, fam, 2)
        b = gen_new(rng, fam, 0)
        opname = "mul" if k_ % 3 else "div"
        case = {"kind": "mixed-shape", "prog": [a, b, {"op": opname, "a": 0, "b": 1}]}
        regs, first, err = run_real(case["prog"])
        ctx.case(case["prog"], nontrivial=True, sample={"label": "mixed-shape", "prog": case["prog"]})
        if err is not None or len(regs) < 3:
            ctx.disagree("C17.mixed-shape:raised", case, str(err), "Base.mulB / Base.divB: no exception for two elements")
            continue
        real = canon_base(regs[2])
        scale = prog_scale(regs)
        with np.errstate(all="ignore"):
            ea_, eb_ = nat_of(regs[0]), nat_of(regs[1])
            tgt_ = ea_ + eb_[:, None] if opname == "mul" else ea_ - eb_[:, None]
            elementwise = nat_of(regs[2]).shape == tgt_.shape and nat_close(nat_of(regs[2]), tgt_, scale)
        for j in (0, 1):
            def scal(st, i):
                return {"op": "new", "fam": st["fam"], "p1": hx(st["p1"], (2,), i), "p2": hx(st["p2"], (2,), i),
                        "ln": f2h(st["ln"]), "id": st["id"], "lo": f2h(st["lo"]), "hi": f2h(st["hi"])}
            mp = [scal(a, j), scal(b, 0), {"op": opname + "b", "a": 0, "b": 1, "j": j}]
            ans = ctx.lean.ask({"p": "C17", "tables": Rec().wire(), "prog": mp})
            if "driver_error" in ans:
                ctx.disagree("C17.driver", case, None, ans)
                break
            bad = cmp_base(real, ans["out"][2], (2,), j, scale)
            if bad and elementwise and not set(bad) - {"p1", "p2"}:
                ctx.hit("model:mixed-shape-elementwise")  # the code acts element-wise (the finding is repaired): no alarm
            elif bad:
                ctx.disagree("C17.mixed-shape:" + ",".join(sorted(set(bad))), case, {"elem": j, "impl": real}, ans["out"][2])
            else:
                ctx.hit("model:mixed-shape-ok")
        # oracle: the element-wise product / quotient (what the property asks for)
        with np.errstate(all="ignore"):
            ea, eb = nat_of(regs[0]), nat_of(regs[1])
            target = ea + eb[:, None] if opname == "mul" else ea - eb[:, None]
            got = nat_of(regs[2])
            if fam == "normal" and not nat_domain_ok("normal", target):
                continue
            if got.shape != target.shape or not nat_close(got, target, scale):
                ctx.fail("C17-mixed-shape-broadcast",
                         "an array message combined with a scalar message of the same family does not act element-wise",
                         case, {"expected": jf(target), "got": jf(got)})


def gb_pinned():
    """programs run on every run whatever the seed: the boundary behaviours of the newly modelled code"""
    def new(fam, p1, p2):
        return {"op": "new", "fam": fam, "p1": p1, "p2": p2, "ln": 0.5, "id": fresh_id(), "lo": -INF, "hi": INF}
    progs = [
        # the zero message of the EP code (zeros_like = self ** 0.): NaturalNormal.mean is nan_to_num(0 / 0) = 0
        [new("naturalNormal", 0.75, -0.5), {"op": "pow", "a": 0, "k": 0.0}, {"op": "meanx", "a": 1},
         {"op": "logpdfx", "a": 1, "x": 0.3}, {"op": "meanx", "a": 0}],
        [new("naturalNormal", [0.75, -1.0], [-0.5, -2.0]), {"op": "pow", "a": 0, "k": 0.0}, {"op": "meanx", "a": 1}],
        [new("normal", 1.0, 2.0), {"op": "pow", "a": 0, "k": -1.0}, {"op": "logpdfx", "a": 1, "x": 0.3}, {"op": "meanx", "a": 1}],
        # eta1 = 0 at the boundary of the support: 0 * log(0) is NaN, nan_to_num(nan=-inf)
        [new("gamma", 1.0, 2.0), {"op": "logpdfx", "a": 0, "x": 0.0}, {"op": "logpdfx", "a": 0, "x": -1.0},
         {"op": "logpdfx", "a": 0, "x": 0.5}, {"op": "logpartition", "a": 0}, {"op": "expstats", "a": 0}],
        [new("gamma", 3.0, 0.5), {"op": "logpdfx", "a": 0, "x": 0.0}, {"op": "logpdfx", "a": 0, "x": 2.0}],
        [new("gamma", 0.4, 0.5), {"op": "logpdfx", "a": 0, "x": 0.0}, {"op": "logpdfx", "a": 0, "x": 1e-300}],
        [new("beta", 1.0, 1.0), {"op": "logpdfx", "a": 0, "x": 0.0}, {"op": "logpdfx", "a": 0, "x": 1.0},
         {"op": "logpdfx", "a": 0, "x": 0.25}],
        [new("beta", [2.5, 0.5], [0.7, 3.0]), {"op": "logpdfx", "a": 0, "x": [0.0, 1.0]}, {"op": "logpdfx", "a": 0, "x": [1.0, 0.0]},
         {"op": "logpdfx", "a": 0, "x": [1.5, -0.5]}, {"op": "canon", "a": 0, "x": [0.25, 0.75]}, {"op": "expstats", "a": 0}],
        [{"op": "invpsilog", "x": [-1e-4, -0.5, -30.0]}],
        [{"op": "invbeta", "x": [-0.7, -2.0], "y": [-0.7, -0.2]}],
        [{"op": "residual", "fam": "gamma", "m1": [-0.2, 1.0], "m2": [1.0, 3.0]}],
        [{"op": "residual", "fam": "beta", "m1": [-0.7, -2.0], "m2": [-0.7, -0.2]}],
        [{"op": "frommode", "fam": "gamma", "m": 2.0, "v": 0.25, "ln": 0.5, "id": fresh_id(), "lo": -INF, "hi": INF},
         {"op": "mean", "a": 0}, {"op": "variance", "a": 0}, {"op": "natural", "a": 0}],
        [{"op": "frommode", "fam": "normal", "m": [1.0, -2.0], "v": -0.25, "ln": 0.0, "id": fresh_id(), "lo": -3.0, "hi": 7.0},
         {"op": "natural", "a": 0}],
        [{"op": "frommode", "fam": "naturalNormal", "m": 1.5, "v": 0.25, "ln": 0.0, "id": fresh_id(), "lo": -INF, "hi": INF},
         {"op": "natural", "a": 0}, {"op": "meanx", "a": 0}],
    ]
    return [{"prog": p} for p in progs]


def gen_gb(rng):
    """programs for the Gamma / Beta part of the model: densities inside, on the boundary of and outside the
    support (np.nan_to_num), log-partition, sufficient statistics, expected statistics, the raw Newton inversions
    over a wide range, from_sufficient_statistics with wide shape parameters, from_mode"""
    prog = []
    r = rng.random()
    n = 0 if rng.random() < 0.6 else rng.choice([1, 2, 3])

    def wide(lo, hi):
        return round(math.exp(rng.uniform(math.log(lo), math.log(hi))), 4)

    def many(f):
        return f() if n == 0 else [f() for _ in range(n)]

    if r < 0.12:
        return gen_stacked(rng, n)
    if r < 0.4:
        fam = rng.choice(["gamma", "beta", "gamma", "beta", "normal", "naturalNormal"])
        st = gen_new(rng, fam, n)
        if fam in ("gamma", "beta") and rng.random() < 0.6:
            st["p1"] = many(lambda: wide(0.05, 60))
            st["p2"] = many(lambda: wide(0.05, 60))
            if rng.random() < 0.2:
                st["p1"] = many(lambda: 1.0)  # eta1 = 0: 0 * log(0) at the boundary
        prog.append(st)
        a = 0
        if fam in ("normal", "naturalNormal") or rng.random() < 0.25:
            # an invalid message (power outside the domain / negative shape): logpdf goes through nan_to_num
            prog.append({"op": "pow", "a": 0, "k": rng.choice([-1.0, -0.5, 0.0, 2.0])})
            a = 1
        lo, hi = (0.0, 1.0) if fam == "beta" else ((0.0, 30.0) if fam == "gamma" else (-6.0, 6.0))
        for _ in range(rng.choice([2, 3, 4])):
            def pt():
                u = rng.random()
                if u < 0.5:
                    return round(rng.uniform(lo, hi), 5)
                if u < 0.7:
                    return rng.choice([lo, hi]) if fam == "beta" else lo
                if u < 0.85:
                    return round(rng.uniform(lo - 3, lo), 4) if fam != "beta" else rng.choice([-0.5, 1.0, 1.5, 2.0])
                return rng.choice([1e-300, 1e-12, 1 - 1e-12, 1e12]) if fam != "beta" else rng.choice([1e-300, 1e-12, 1 - 1e-12])
            prog.append({"op": "logpdfx", "a": a, "x": many(pt)})
        if fam in ("normal", "naturalNormal"):
            prog.append({"op": "meanx", "a": a})  # NaturalNormal ** 0: nan_to_num(0 / 0) = 0
            if rng.random() < 0.5:
                prog.append({"op": "tnew", "b": a, "trs": variant_trs(rng, rng.choice(["shifted", "log", "log10"])), "id": None,
                             "lo": -INF, "hi": INF})
                prog.append({"op": "meanx", "a": len(prog) - 1})
        if fam in ("gamma", "beta"):
            prog.append({"op": "canon", "a": 0, "x": many(lambda: round(rng.uniform(lo + 1e-3, (hi if fam == "beta" else 9.0) - 1e-3), 5))})
            prog.append({"op": "logpartition", "a": 0})
            prog.append({"op": "expstats", "a": 0})
            prog.append({"op": "mean", "a": 0})
            prog.append({"op": "variance", "a": 0})
    elif r < 0.55:
        prog.append({"op": "invpsilog", "x": many(lambda: -wide(1e-4, 30))})
    elif r < 0.7:
        def stats_():
            a, b = wide(0.8, 80), wide(0.8, 80)
            pab = float(special.digamma(a + b))
            return float(special.digamma(a)) - pab, float(special.digamma(b)) - pab
        ss = [stats_() for _ in range(max(1, n))]
        prog.append({"op": "invbeta", "x": ss[0][0] if n == 0 else [s_[0] for s_ in ss],
                     "y": ss[0][1] if n == 0 else [s_[1] for s_ in ss]})
    elif r < 0.85:
        fam = rng.choice(["gamma", "beta"])
        lo_ = 0.05 if fam == "gamma" else 0.8
        p1, p2 = many(lambda: wide(lo_, 80)), many(lambda: wide(lo_, 80))
        m = FAMS[fam](as_param(p1), as_param(p2))
        s_ = expected_stats(m)
        prog.append({"op": "fromsuff", "fam": fam, "m1": jf(s_[0]), "m2": jf(s_[1]), "ln": rfloat(rng, -2, 2), "id": fresh_id()})
        prog.append({"op": "natural", "a": 0})
        prog.append({"op": "expstats", "a": 0})
        prog.append({"op": "residual", "fam": fam, "m1": jf(s_[0]), "m2": jf(s_[1])})
    else:
        fam = rng.choice(["gamma", "gamma", "normal", "naturalNormal"])
        lims = rng.random() < 0.5
        prog.append({"op": "frommode", "fam": fam,
                     "m": many(lambda: wide(0.05, 20) if fam == "gamma" else rfloat(rng, -5, 5)),
                     "v": wide(0.01, 9) * (-1 if fam == "normal" and rng.random() < 0.2 else 1), "ln": rfloat(rng, -2, 2),
                     "id": fresh_id(), "lo": rfloat(rng, -20, -5) if lims else -INF, "hi": rfloat(rng, 5, 20) if lims else INF})
        prog.append({"op": "natural", "a": 0})
        prog.append({"op": "mean", "a": 0})
        prog.append({"op": "variance", "a": 0})
    return {"prog": prog}



# ---------------------------------------------------------------------------------------------
# one case


def one_case(ctx, case, label="gen", budget=None):
    prog = case["prog"]
    budget = budget if budget is not None else [10 ** 9]
    regs, first, err = run_real(prog)
    if err is not None:
        n, ename, msg = err
        st = prog[n]
        cls = "C17-raises"
        if st["op"] in ("fromsuff", "project", "mproject", "pproject") and st.get("fam") == "beta":
            cls = "C17-beta-moment-inversion-raises"
        if st["op"] in ("mul", "div") and n < len(first):
            ra, rb = regs[st["a"]], regs[st["b"]]
            if is_msg(ra) and is_msg(rb) and tuple(ra.shape) != tuple(rb.shape):
                cls = "C17-mixed-shape-broadcast"
        ctx.fail(cls, f"{st['op']} raised {ename} on valid input", case, {"stmt": n, "error": ename, "message": msg})
        ctx.case(prog, nontrivial=False)
        return
    shape = shape_of_prog(regs)
    size = int(np.prod(shape)) if shape else 1
    scale = prog_scale(regs)
    nontrivial = any(st["op"] in ("mul", "div", "pow", "fromsuff", "project", "mproject", "pproject", "tonat", "fromnat")
                     for st in prog)
    ctx.case(prog, nontrivial=nontrivial, sample={"label": label, "prog": prog[:6]})
    for st in prog:
        ctx.hit("op:" + st["op"])
    ctx.hit("shape:" + ("scalar" if not shape else "array"))
    # --- correspondence, element by element
    idx = list(range(size)) if size <= 3 else [0, size // 2, size - 1]
    if len({tuple(r.shape) for r in regs if is_msg(r)}) > 1:
        ctx.hit("model-skip:mixed-shapes")  # broadcasting between shapes is not modelled (oracle only)
        idx = []
    for i in idx:
        rec = Rec()
        with np.errstate(all="ignore"):
            fill_tables(rec, prog, regs, first, shape, i)
            fill_tables_gb(rec, prog, regs, first, shape, i)
        mp = model_prog(prog, regs, first, shape, i)
        for d_ in mp:
            if d_["op"] in ("fromsuffx", "projectx", "mprojectx"):
                ctx.hit("model:gamma-beta-inversion-in-model")
        ans = ctx.lean.ask({"p": "C17", "tables": rec.wire(), "prog": mp})
        if "driver_error" in ans:
            ctx.disagree("C17.driver", case, None, ans)
            break
        out = ans["out"]
        for r_i, r in enumerate(regs):
            mo = out[r_i]
            if is_msg(r):
                bad = cmp_msg(canon(r), mo, shape, i, scale)
                if bad:
                    ctx.disagree("C17.message:" + ",".join(sorted(set(bad))), case,
                                 {"reg": r_i, "elem": i, "impl": canon(r)}, mo)
                else:
                    ctx.hit("model:msg-ok")
            else:
                kind, val = r
                if kind == "none":
                    continue
                if kind == "bool":
                    v = np.asarray(val, dtype=bool).ravel()
                    v = bool(v[i]) if v.size == size and size > 1 else bool(v.all())
                    if v != mo.get("v"):
                        ctx.disagree("C17.valid", case, {"reg": r_i, "elem": i, "impl": v}, mo)
                elif kind == "pair" and stmt_of_reg(prog, first, r_i)["op"] in GB_OPS:
                    cmp_gb(ctx, case, stmt_of_reg(prog, first, r_i), r, mo, r_i, shape, i, scale)
                elif kind == "pair":
                    e = np.asarray(val, dtype=float)
                    a = elem(e[0], shape, i)
                    b = elem(e[1], shape, i) if e.shape[0] > 1 else None
                    if not close(a, h2f(mo["a"]), scale=scale) or (b is not None and not close(b, h2f(mo["b"]), scale=scale)):
                        ctx.disagree("C17.natural", case, {"reg": r_i, "elem": i, "impl": jf(e)}, mo)
                else:
                    st = stmt_of_reg(prog, first, r_i)
                    if st["op"] in GB_OPS:
                        cmp_gb(ctx, case, st, r, mo, r_i, shape, i, scale)
                        continue
                    src = regs[st["a"]]
                    if not is_valid(src) or fam_of(src) in ("fixed", "other"):
                        continue
                    if st["op"] in ("factor", "cdf", "valuefor") and fam_of(src) not in ("normal", "naturalNormal"):
                        continue  # gamma / beta: only logpdf exists (AFModel/MsgGB.lean)
                    if st["op"] == "variance" and isinstance(src, TransformedMessage) and any(canon_tr(t)["t"] == "phi" for t in src.transforms):
                        with np.errstate(all="ignore"):
                            mu_v = np.asarray(base_of(src).mean, dtype=float)
                            sg_v = np.sqrt(np.asarray(base_of(src).variance, dtype=float))
                        if not np.all(np.abs(mu_v) + 2.0 * sg_v <= 4.5):
                            continue  # tails the unit interval does not resolve (the code clamps ndtri's argument)
                    got = elem(val, shape, i)
                    want = h2f(mo["v"])
                    if os.environ.get("C17_DBG") and st["op"] == "variance" and isinstance(src, TransformedMessage):
                        print("DBG variance", [canon_tr(t)["t"] for t in src.transforms], got, want, scale, file=sys.stderr)
                    if not close(got, want, rel=1e-8, scale=max(1.0, scale if st["op"] in ("mean", "variance") else 1.0)):
                        ctx.disagree("C17.query:" + st["op"], case, {"reg": r_i, "elem": i, "impl": got}, h2f(mo["v"]))
                    else:
                        ctx.hit("model:query-ok:" + st["op"])
    # --- oracle
    oracle_algebra(ctx, case, prog, regs, first, scale)
    oracle_moments(ctx, case, prog, regs, first, scale)
    oracle_queries(ctx, case, prog, regs, first, scale)
    oracle_density(ctx, case, prog, regs, first, budget)
    oracle_priors(ctx, case, prog, regs, first)
    oracle_stacked(ctx, case, prog, regs, first)


def stmt_of_reg(prog, first, r_i):
    n = max(k for k, f in enumerate(first) if f <= r_i)
    return prog[n]


def oracle_priors(ctx, case, prog, regs, first):
    """prior.message reports the prior's own density / CDF / quantile function"""
    with np.errstate(all="ignore"):
        for n, st in enumerate(prog):
            if st["op"] != "prior" or first[n] + 1 >= len(regs):
                continue
            m = regs[first[n] + 1]
            kind, args = st["kind"], st["args"]
            if kind == "uniform":
                d = stats.uniform(args[0], args[1] - args[0])
            elif kind == "loguniform":
                d = stats.loguniform(args[0], args[1])
            elif kind == "gaussian":
                d = stats.norm(args[0], args[1])
            else:
                d = stats.lognorm(args[1], scale=math.exp(args[0]))
            for u in st.get("us", []):
                x = float(d.ppf(u))
                got_d = float(m.factor(x))
                got_c = float(m.cdf(x))
                got_v = float(m.value_for(u))
                if not close(got_d, float(d.logpdf(x)), rel=1e-7, scale=1.0):
                    ctx.fail("C17-prior-message-density", f"{kind} prior: message.factor(x) is not the prior's log density", case,
                             {"stmt": n, "x": x, "got": got_d, "expected": float(d.logpdf(x))})
                if not close(got_c, u, rel=1e-7, scale=1.0):
                    ctx.fail("C17-prior-message-cdf", f"{kind} prior: message.cdf(x) is not the prior's CDF", case,
                             {"stmt": n, "x": x, "got": got_c, "expected": u})
                if not close(got_v, x, rel=1e-7, scale=max(1.0, abs(x))):
                    ctx.fail("C17-prior-message-value-for", f"{kind} prior: message.value_for(u) is not the prior's quantile", case,
                             {"stmt": n, "u": u, "got": got_v, "expected": x})
                ctx.hit("law:prior-message:" + kind)


# ---------------------------------------------------------------------------------------------
# generators


def rfloat(rng, lo, hi, nd=3):
    return round(rng.uniform(lo, hi), nd)


def gen_params(rng, fam, n, mild=False):
    """ordinary parameters, as scalars (n = 0) or lists; `mild`: bases of phi stacks (the unit interval
    resolves only |z| < ~8 in doubles)"""
    def one():
        if fam == "normal" and mild:
            return rfloat(rng, -1, 1), rfloat(rng, 0.5, 1.4)
        if fam == "normal":
            return rfloat(rng, -3, 3), rfloat(rng, 0.3, 3)
        if fam == "naturalNormal":
            s = rfloat(rng, 0.3, 3)
            mu = rfloat(rng, -3, 3)
            return mu / s ** 2, -0.5 / s ** 2
        if fam == "gamma":
            return rfloat(rng, 0.6, 6), rfloat(rng, 0.3, 4)
        if fam == "beta":
            return rfloat(rng, 0.6, 6), rfloat(rng, 0.6, 6)
        return rfloat(rng, -3, 3), 0.0
    if n == 0:
        return one()
    ps = [one() for _ in range(n)]
    return [p[0] for p in ps], [p[1] for p in ps]


_next_id = [500000]


def fresh_id():
    _next_id[0] += 1
    return _next_id[0]


def gen_new(rng, fam, n, mild=False):
    p1, p2 = gen_params(rng, fam, n, mild)
    lims = rng.random() < 0.5
    return {"op": "new", "fam": fam, "p1": p1, "p2": p2,
            "ln": rfloat(rng, -2, 2) if rng.random() < 0.6 else 0.0, "id": fresh_id(),
            "lo": rfloat(rng, -20, -5) if lims else -INF, "hi": rfloat(rng, 5, 20) if lims else INF}


TR_VARIANTS = ("uniform", "shifted-uniform", "log", "log10", "loguniform", "shifted", "log-exp")


def variant_trs(rng, v):
    if v == "uniform":
        return [{"t": "phi"}]
    if v == "shifted-uniform":
        return [{"t": "phi"}, {"t": "shift", "s": rfloat(rng, -3, 3), "c": rfloat(rng, 0.5, 4)}]
    if v == "log":
        return [{"t": "log"}]
    if v == "log10":
        return [{"t": "log10"}]
    if v == "loguniform":
        return [{"t": "phi"}, {"t": "shift", "s": rfloat(rng, -2, 0), "c": rfloat(rng, 1, 4)}, {"t": "log10"}]
    if v == "shifted":
        return [{"t": "shift", "s": rfloat(rng, -3, 3), "c": rfloat(rng, 0.5, 4)}]
    if v == "log-exp":
        return [{"t": "log"}, {"t": "exp"}]
    raise ValueError(v)


def point_in_support(rng, m, i_shape):
    """evaluation point(s) inside the support, in the message's own space"""
    c = canon(m)
    trs = c["trs"] if c["k"] == "tr" else []
    b = c["base"] if c["k"] == "tr" else c
    shape = tuple(m.shape)
    size = int(np.prod(shape)) if shape else 1
    out = []
    rec = Rec()
    for i in range(size):
        p1, p2 = elem(b["p1"], shape, i), elem(b["p2"], shape, i)
        fam = b["fam"]
        u = rng.uniform(0.02, 0.98)
        with np.errstate(all="ignore"):
            if fam == "normal":
                z = float(stats.norm.ppf(u, p1, p2))
            elif fam == "naturalNormal":
                z = float(stats.norm.ppf(u, -p1 / p2 / 2, (-2 * p2) ** -0.5))
            elif fam == "gamma":
                z = float(stats.gamma.ppf(u, p1, scale=1 / p2))
            elif fam == "beta":
                z = float(stats.beta.ppf(u, p1, p2))
            else:
                z = p1
            try:
                x = ref_inverse(rec, trs, z)
            except OverflowError:
                x = math.nan
            if any(t["t"] == "phi" for t in trs) and abs(z) > 4.0:
                x = math.nan  # beyond the resolution of doubles in (0, 1): ill-conditioned, not generated
            if (fam in ("gamma", "beta") and not z > 1e-9) or (fam == "beta" and not z < 1 - 1e-9):
                x = math.nan  # strictly inside the support only
            if trs and x == x and not 1e-250 < abs(x) < 1e250:
                x = math.nan  # exp / 10** under- or overflow
        out.append(x)
    if not all(math.isfinite(x) for x in out):
        return None
    return out if shape else out[0]


def gen_algebra(rng, want_density):
    """a program: messages of one family / variant, operations, queries"""
    r = rng.random()
    if r < 0.34:
        group = "normal"
    elif r < 0.46:
        group = "gamma"
    elif r < 0.58:
        group = "beta"
    elif r < 0.63:
        group = "fixed"
    else:
        group = "transformed"
    n = 0 if rng.random() < 0.6 else rng.choice([1, 2, 3, 5])
    prog = []
    regs = []
    first = []
    msgs = []  # register numbers holding messages usable as operands

    def push(st):
        first.append(len(regs))
        with np.errstate(all="ignore"):
            new = exec_stmt(st, regs)
        prog.append(st)
        regs.extend(new)
        return len(regs) - 1

    k0 = rng.choice([2, 3, 4])
    if group == "transformed":
        variant = rng.choice(TR_VARIANTS)
        route = rng.random()
        trs = variant_trs(rng, variant)
        for _ in range(k0):
            if route < 0.3 and variant in ("uniform", "loguniform", "log") and n == 0:
                # through the priors
                if variant == "uniform":
                    lo = rfloat(rng, -5, 5)
                    st = {"op": "prior", "kind": "uniform", "args": [lo, lo + rfloat(rng, 0.5, 6)]}
                elif variant == "loguniform":
                    lo = rfloat(rng, 0.01, 2)
                    st = {"op": "prior", "kind": "loguniform", "args": [lo, lo * rfloat(rng, 3, 500)]}
                else:
                    st = {"op": "prior", "kind": "loggaussian", "args": [rfloat(rng, -1, 2), rfloat(rng, 0.2, 1.5)]}
                st["us"] = [round(rng.uniform(0.03, 0.97), 3) for _ in range(2)]
                msgs.append(push(st))
            elif route < 0.5 and variant in ("uniform", "log", "log10"):
                p1, p2 = gen_params(rng, "normal", n, mild=variant == "uniform")
                kind = {"uniform": "UniformNormal", "log": "LogNormal", "log10": "Log10Normal"}[variant]
                msgs.append(push({"op": "named", "kind": kind, "p1": p1, "p2": p2}))
            else:
                b = push(gen_new(rng, "normal", n, mild=any(t["t"] == "phi" for t in trs)))
                lims = rng.random() < 0.4
                msgs.append(push({"op": "tnew", "b": b, "trs": trs, "id": fresh_id() if rng.random() < 0.6 else None,
                                  "lo": rfloat(rng, -9, -1) if lims else -INF, "hi": rfloat(rng, 1, 9) if lims else INF}))
    elif group == "normal" and n == 0 and rng.random() < 0.15:
        for _ in range(k0):
            lims = rng.random() < 0.5
            st = {"op": "prior", "kind": "gaussian",
                  "args": [rfloat(rng, -3, 3), rfloat(rng, 0.3, 3), rfloat(rng, -20, -5) if lims else -INF,
                           rfloat(rng, 5, 20) if lims else INF],
                  "us": [round(rng.uniform(0.03, 0.97), 3)]}
            msgs.append(push(st))
    else:
        for _ in range(k0):
            fam = group
            if group == "normal" and rng.random() < 0.3:
                fam = "naturalNormal"
            msgs.append(push(gen_new(rng, fam, n)))
    # operations
    n_ops = rng.choice([3, 4, 5, 6, 8])
    for _ in range(n_ops):
        a = rng.choice(msgs)
        ra = regs[a]
        r = rng.random()
        if r < 0.3:
            b = rng.choice(msgs)
            st = {"op": "mul", "a": a, "b": b}
        elif r < 0.5:
            b = rng.choice(msgs)
            st = {"op": "div", "a": a, "b": b}
            # mostly stay inside the normal family's domain
            if fam_of(ra) == "normal" and is_valid(ra) and is_valid(regs[b]) and rng.random() < 0.7:
                with np.errstate(all="ignore"):
                    if not nat_domain_ok("normal", nat_of(ra) - nat_of(regs[b])):
                        st = {"op": "mul", "a": a, "b": b}
        elif r < 0.8:
            kk = rng.random()
            if kk < 0.25:
                k = float(rng.choice([2, 3]))
            elif kk < 0.35:
                k = rng.choice([0.0, -1.0, rfloat(rng, -2, -0.1)])
            elif kk < 0.45:
                k = 1.0
            else:
                k = rfloat(rng, 0.1, 3.5)
            st = {"op": "pow", "a": a, "k": k, "j": rfloat(rng, 0.2, 2.5, 2)}
        elif r < 0.9:
            st = {"op": "smul" if rng.random() < 0.6 else "sdiv", "a": a, "c": rfloat(rng, 0.1, 9)}
            if st["op"] == "smul" and rng.random() < 0.4:
                st["r"] = True
        else:
            if fam_of(ra) == "normal" and not isinstance(ra, TransformedMessage):
                st = {"op": "tonat", "a": a}
            else:
                st = {"op": "pow", "a": a, "k": rfloat(rng, 0.1, 3.5), "j": rfloat(rng, 0.2, 2.5, 2)}
        try:
            new = push(st)
            if st["op"] in ("smul", "sdiv", "pow", "mul", "div") and rng.random() < 0.5:
                # the operand is used again after it took part in an operation: messages are values, an
                # operation leaves its operands as they were (natural form, product with itself)
                ra2 = regs[st["a"]]
                if fam_of(ra2) == "normal" and not isinstance(ra2, TransformedMessage):
                    push({"op": "tonat", "a": st["a"]})
                else:
                    push({"op": "pow", "a": st["a"], "k": 1.0, "j": 1.0})
        except Exception:  # noqa: BLE001  (kept in the program: run_real reports it)
            prog.append(st)
            return {"prog": prog}
        # ill-conditioned results (cancellation to ~0) are not used further
        rn = regs[new]
        with np.errstate(all="ignore"):
            e = nat_of(rn)
            ok = is_valid(rn) and np.all(np.abs(e[-1]) > 1e-6) if fam_of(rn) != "fixed" else True
        if ok:
            msgs.append(new)
    # queries
    pool = [m for m in msgs if is_valid(regs[m])]
    rng.shuffle(pool)
    for a in pool[:3]:
        ra = regs[a]
        fam = fam_of(ra)
        if fam == "fixed":
            push({"op": "mean", "a": a})
            push({"op": "valid", "a": a})
            continue
        push({"op": "natural", "a": a})
        push({"op": "valid", "a": a})
        push({"op": "mean", "a": a})
        if not isinstance(ra, TransformedMessage):
            push({"op": "variance", "a": a})
        x = point_in_support(rng, ra, None)
        if x is None:
            continue
        if isinstance(ra, TransformedMessage) and any(canon_tr(t)["t"] == "phi" for t in ra.transforms):
            with np.errstate(all="ignore"):
                mu_ = np.asarray(base_of(ra).mean, dtype=float)
                sg_ = np.sqrt(np.asarray(base_of(ra).variance, dtype=float))
            if not np.all(np.abs(mu_) + 2.0 * sg_ <= 4.5):
                continue  # the unit interval does not resolve the tails of this message in doubles
        if isinstance(ra, TransformedMessage):
            push({"op": "variance", "a": a})  # (first-order variance: Jacobians at the running mean, resolved as above)
        push({"op": "logpdf", "a": a, "x": x})
        if isinstance(ra, TransformedMessage):
            push({"op": "factor", "a": a, "x": x})
            push({"op": "transform", "a": a, "x": x})
        if fam in ("normal", "naturalNormal") and not (fam == "naturalNormal" and isinstance(ra, TransformedMessage)):
            push({"op": "cdf", "a": a, "x": x})
            if fam == "normal":
                u = [round(rng.uniform(0.03, 0.97), 4) for _ in range(len(x))] if isinstance(x, list) else round(rng.uniform(0.03, 0.97), 4)
                push({"op": "valuefor", "a": a, "x": u})
        if want_density and rng.random() < 0.7:
            push({"op": "density", "a": a, "x0": x})
            want_density = False
    # invalid results are queried for validity too
    for a in [m for m in range(len(regs)) if is_msg(regs[m]) and not is_valid(regs[m])][:2]:
        push({"op": "valid", "a": a})
    return {"prog": prog}


def np_rng(rng):
    return np.random.RandomState(rng.randrange(2 ** 31))


def sample_family(rs, fam, p1, p2, size):
    if fam == "normal":
        return rs.normal(p1, p2, size=size)
    if fam == "naturalNormal":
        return rs.normal(-p1 / p2 / 2, (-2 * p2) ** -0.5, size=size)
    if fam == "gamma":
        return rs.gamma(p1, 1 / p2, size=size)
    if fam == "beta":
        return np.clip(rs.beta(p1, p2, size=size), 1e-9, 1 - 1e-9)
    raise ValueError(fam)


def gen_weights(rng, rs, shape):
    kind = rng.random()
    if kind < 0.2:
        return np.zeros(shape)
    lw = rs.normal(0, rng.choice([0.3, 1.0, 3.0]), size=shape)
    if kind < 0.5:
        lw += rng.choice([-700.0, 300.0, 1000.0])  # exp() of the raw weights over/underflows
    if len(shape) >= 2 and shape[-1] >= 2 and rng.random() < 0.4:
        # the elements of an array message are weighted on very different scales (normalised per element)
        lw = lw + np.array([rng.choice([0.0, -900.0, 750.0, 1500.0]) for _ in range(shape[-1])])
    return np.round(lw, 4)


def gen_moments(rng):
    """conversions and projections"""
    prog = []
    rs = np_rng(rng)
    fam = rng.choice(["normal", "normal", "naturalNormal", "gamma", "beta"])
    n = 0 if rng.random() < 0.6 else rng.choice([1, 2, 3])
    r = rng.random()
    if r < 0.25:
        # natural-parameter round trip
        p1, p2 = gen_params(rng, fam, n)
        e = FAMS[fam].calc_natural_parameters(as_param(p1), as_param(p2))
        lims = rng.random() < 0.5
        prog.append({"op": "fromnat", "fam": fam, "e1": jf(e[0]), "e2": jf(e[1]), "ln": rfloat(rng, -2, 2), "id": fresh_id(),
                     "lo": rfloat(rng, -20, -5) if lims else -INF, "hi": rfloat(rng, 5, 20) if lims else INF})
        prog.append({"op": "natural", "a": 0})
        prog.append({"op": "valid", "a": 0})
    elif r < 0.5:
        # sufficient statistics of a member -> that member
        p1, p2 = gen_params(rng, fam, n)
        m = FAMS[fam](as_param(p1), as_param(p2))
        s = expected_stats(m)
        prog.append({"op": "fromsuff", "fam": fam, "m1": jf(s[0]), "m2": jf(s[1]), "ln": rfloat(rng, -2, 2), "id": fresh_id()})
        prog.append({"op": "natural", "a": 0})
    else:
        p1, p2 = gen_params(rng, fam, n)
        k = rng.choice([5, 8, 13, 30, 60])
        shape = (k,) if n == 0 else (k, n)
        xs = sample_family(rs, fam, np.asarray(p1), np.asarray(p2), shape)
        xs = np.round(xs, 6)
        if fam == "gamma":
            xs = np.maximum(xs, 1e-6)
        if fam == "beta":
            xs = np.clip(xs, 1e-6, 1 - 1e-6)
        lws = gen_weights(rng, rs, shape)
        route = rng.random()
        if route < 0.55 or n > 0 and fam not in ("normal",):
            prog.append({"op": "project", "fam": fam, "xs": xs.tolist(), "lws": lws.tolist(), "id": fresh_id()})
            prog.append({"op": "natural", "a": 0})
        elif route < 0.7:
            prog.append(gen_new(rng, fam, n))
            prog.append({"op": "mproject", "a": 0, "xs": xs.tolist(), "lws": lws.tolist(), "id": fresh_id()})
        elif n == 0 and route < 0.85:
            # through a prior: samples inside the prior's support
            kind = rng.choice(["uniform", "loguniform", "loggaussian", "gaussian"])
            if kind == "uniform":
                lo = rfloat(rng, -5, 5)
                args = [lo, lo + rfloat(rng, 0.5, 6)]
                xs = np.round(rs.uniform(args[0] + 0.02 * (args[1] - args[0]), args[1] - 0.02 * (args[1] - args[0]), size=k), 6)
            elif kind == "loguniform":
                lo = rfloat(rng, 0.01, 2)
                args = [lo, lo * rfloat(rng, 3, 500)]
                xs = np.round(np.exp(rs.uniform(np.log(args[0] * 1.05), np.log(args[1] / 1.05), size=k)), 6)
            elif kind == "loggaussian":
                args = [rfloat(rng, -1, 2), rfloat(rng, 0.2, 1.5)]
                xs = np.round(np.exp(rs.normal(args[0], args[1], size=k)), 6)
            else:
                args = [rfloat(rng, -3, 3), rfloat(rng, 0.3, 3), -INF, INF]
                xs = np.round(rs.normal(args[0], args[1], size=k), 6)
            prog.append({"op": "pproject", "kind": kind, "args": args, "xs": xs.tolist(), "lws": gen_weights(rng, rs, (k,)).tolist()})
        else:
            # a transformed message built by hand; samples generated in base space and mapped out
            variant = rng.choice(TR_VARIANTS)
            trs = variant_trs(rng, variant)
            prog.append(gen_new(rng, "normal", n))
            prog.append({"op": "tnew", "b": 0, "trs": trs, "id": fresh_id() if rng.random() < 0.5 else None, "lo": -INF, "hi": INF})
            zs = rs.normal(rfloat(rng, -1, 1), rfloat(rng, 0.3, 1.2), size=shape)
            rec = Rec()
            with np.errstate(all="ignore"):
                try:
                    xs = np.array([ref_inverse(rec, trs, float(z)) for z in zs.ravel()]).reshape(shape)
                except OverflowError:
                    xs = np.full(shape, np.nan)
            if not np.all(np.isfinite(xs)) or (any(t["t"] == "phi" for t in trs) and np.any((zs < -6) | (zs > 6))):
                return gen_moments(rng)
            prog.append({"op": "mproject", "a": 1, "xs": xs.tolist(), "lws": lws.tolist(), "id": fresh_id()})
    return {"prog": prog}


# ---------------------------------------------------------------------------------------------


def run(ctx):
    ctx.rule = RULE
    ctx.assumptions = [
        "parameters are finite doubles inside each family's support (sigma in [0.3, 3], shape parameters in [0.6, 6]); "
        "operands of one operation have the same shape and the same family (NormalMessage and NaturalNormal may mix)",
        "numbers are compared at relative tolerance 1e-9 of the largest parameter magnitude in the program "
        "(1e-8 for densities, 1e-5 for the Newton inversions of gamma / beta moments); classes, ids, limits and "
        "transform stacks exactly",
        "scipy's ndtr / ndtri / erfinv / norm_pdf are trusted: the model receives their values as tables; "
        "normalisation, CDF, mean and variance of the reported densities are checked by quadrature (numerical test, "
        "not a proof) except for the normal density, which is proved equal to Mathlib's gaussianPDFReal",
        "gamma / beta densities, the Newton inversions of the digamma equations (invpsilog, inv_beta_suffstats), "
        "from_mode and stacked transformed messages run in the model and are compared; gammaln / digamma / polygamma reach "
        "the model as (argument, value, derivative) tables; convergence of the Newton iterations is not proved (oracle at "
        "1e-5); a two-element message combined with a scalar message is modelled as the code behaves (known finding), other "
        "shape combinations are not modelled (oracle only)",
    ]
    ctx.notes["numerical_tests"] = 0
    budget = [ctx.n(70, 2500)]
    for f in sorted((VERIF / "corpus" / "C17").glob("*.json")):
        c = json.loads(f.read_text())
        one_case(ctx, c, label=f.name, budget=[10])
    ctx.notes["known_witness_not_reproduced"] = sorted(
        k["id"] for k in ctx.known if k.get("status") == "known" and k["id"] not in ctx.known_hits)
    n = ctx.n(420, 20000)
    for k in range(n):
        if ctx.rng.random() < 0.72:
            case = gen_algebra(ctx.rng, want_density=budget[0] > 0 and ctx.rng.random() < 0.5)
            one_case(ctx, case, label="algebra", budget=budget)
        else:
            case = gen_moments(ctx.rng)
            one_case(ctx, case, label="moments", budget=budget)
    mixed_shape_model(ctx, ctx.n(8, 200))
    for case in gb_pinned():
        one_case(ctx, case, label="gamma-beta-pinned", budget=budget)
    for k in range(ctx.n(120, 5000)):
        one_case(ctx, gen_gb(ctx.rng), label="gamma-beta", budget=budget)
    element_assignment(ctx, ctx.n(40, 600))


def element_assignment(ctx, n):
    """an element of an array-valued message is assigned (`msg[i] = other`, as the EP code does) after the message
    was evaluated: everything it reports afterwards is that of a message built afresh from the parameters it holds now"""
    rng = ctx.rng
    classes = {"normal": NormalMessage, "naturalNormal": NaturalNormal, "gamma": GammaMessage, "beta": BetaMessage}
    what = ("mean", "variance", "std", "scale", "log_partition", "natural_parameters")
    for k_ in range(n):
        # (base class first: what an assignment resets is decided per class, not inherited from the first class used)
        fam = ["normal", "naturalNormal", "gamma", "beta"][k_] if k_ < 4 else rng.choice(sorted(classes))
        cls = classes[fam]
        p1, p2 = gen_params(rng, fam, 3)
        q1, q2 = gen_params(rng, fam, 0)
        i = rng.randrange(3)
        case = {"kind": "element-assignment", "fam": fam, "p1": p1, "p2": p2, "q": [q1, q2], "i": i}

        def read(m, x):
            out = {}
            with np.errstate(all="ignore"):
                for a in what:
                    try:
                        out[a] = np.asarray(getattr(m, a), dtype=float).round(12).tolist()
                    except Exception as e:  # noqa
                        out[a] = type(e).__name__
                try:
                    out["logpdf"] = np.asarray(m.logpdf(x), dtype=float).round(10).tolist()
                except Exception as e:  # noqa
                    out["logpdf"] = type(e).__name__
            return out

        try:
            m = cls(np.array(p1, dtype=float), np.array(p2, dtype=float))
            x = np.asarray(m.mean, dtype=float) * 1.0 + (0.1 if fam in ("normal", "naturalNormal") else 0.0)
            read(m, x)  # evaluated before the assignment
            m[i] = cls(q1, q2)
            r1, r2 = list(p1), list(p2)
            r1[i], r2[i] = q1, q2
            fresh = cls(np.array(r1, dtype=float), np.array(r2, dtype=float))
            got, want = read(m, x), read(fresh, x)
        except Exception as e:  # noqa
            ctx.hit("element-assignment:raised:" + type(e).__name__)
            continue
        ctx.hit("element-assignment:" + fam)
        ctx.evaluations += 1
        if json.dumps(got, sort_keys=True) != json.dumps(want, sort_keys=True):
            diff = sorted(a for a in got if got[a] != want[a])
            ctx.fail("C17-stale-after-element-assignment",
                     f"after msg[{i}] = other an array message still reports values of its old parameters ({', '.join(diff)})",
                     case, {"got": {a: got[a] for a in diff[:3]}, "want": {a: want[a] for a in diff[:3]}})


def replay(ctx, payload):
    case = payload.get("case") or payload.get("disagreements", [{}])[0].get("case")
    if case.get("kind") == "element-assignment":
        return element_assignment(ctx, 40)
    if case.get("kind") == "mixed-shape":
        return mixed_shape_model(ctx, 8)
    one_case(ctx, case, label="replay")
    print(json.dumps({"failures": ctx.failures[:3], "disagreements": ctx.disagreements[:3]}, default=str)[:3000])
