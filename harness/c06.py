"""C06 — fits resume, complete once, and survive crashes.

The real `search.fit` (Drawer, LBFGS, DynestyStatic; output settings remove_files x samples_to_csv x
search_internal) is run in-process under an audit-hook tracer that snapshots the output directory
before every Python-level file-system mutation.  A snapshot is what a process kill at that point
leaves; kills *inside* a write are synthesised (file empty / a strict prefix of what the write
produced).  From every such crash state the fit is run again, and

* C (correspondence): the state is abstracted (per relevant file: absent / partial / complete,
  archive: absent / truncated / complete + content) and handed to the Lean model `AF.FitFS.run`;
  outcome (result or which exception), whether sampling happened, the final abstract state, where
  each surviving content went, and the phase structure of the traced steps must agree;
* O (oracle, independent of the model): the re-run terminates normally with a complete result; if
  the fit had been marked complete at any earlier point of the history, no likelihood is evaluated,
  the returned result equals what was persisted then (best fit, summary statistics, samples table)
  and the persisted files are byte-identical afterwards.

Histories run / crash / re-run of length > 1 are sampled by taking crash states of re-runs; the same
history is replayed inside the model through `AF.FitFS.exec` (kills addressed by their index in
`crashStates`) and must end in a state of the same shape.  Each repair flag of the model (`Cfg`) is
probed on the real code first.  The database route (DatabasePaths) is not modelled: one oracle-only
case per run (fit twice into the same database).  One (quick) / six (thorough) real `os._exit` kills
in a subprocess validate that an in-process snapshot is what a killed process leaves.

Helper module: c06_real.py (tracer, snapshots, scratch config per output setting, fit runner).
"""
import csv
import hashlib
import io
import json
import os
import time
import zipfile
from pathlib import Path

import common
import c06_real as R

VERIF = common.VERIF

RULE = (
    "crash states = every point between two file-system mutations of a traced real fit (fresh fit, re-run of a "
    "completed fit, resumed fit, zipped / unzipped starts) plus kills inside every write (file empty or a prefix); "
    "x searches Drawer / LBFGS / DynestyStatic x remove_files x samples_to_csv x search_internal x prior kind; "
    "histories of up to 3 crashes; each case = (history, final re-run); non-trivial = the crash state differs from "
    "the empty directory and from the finished fit"
)

REL = {
    "marker": ".completed",
    "summary": "files/samples_summary.json",
    "info": "files/samples_info.json",
    "samples": "files/samples.csv",
    "internal": "files/search_internal/search_internal.dill",
    "save": "files/search_internal/savestate.save",
    "start": "files/search_internal/.start_time",
    "time": "files/search_internal/.time",
}
BY_REL = {v: k for k, v in REL.items()}
BY_BASE = {os.path.basename(v): k for k, v in REL.items()}
RESULT_FILES = ("summary", "samples", "info")
PREFIT = {".identifier", "model.info", "files/model.json", "files/search.json", "metadata"}
LABEL0 = 1000  # labels >= LABEL0 name a concrete content; smaller ones mean "some complete content"


# ---------------------------------------------------------------------------------------------
# reading a snapshot


def split_state(snap: R.Snapshot):
    """-> (identifier or None, folder files {rel: bytes}, zip bytes or None)"""
    ident = None
    for rel in list(snap.files) + list(snap.dirs):
        parts = rel.split("/")
        if len(parts) >= 2 and parts[0] == "fit":
            name = parts[1]
            for suf in (".zip.tmp", ".zip"):
                if name.endswith(suf):
                    name = name[: -len(suf)]
            if len(name) == 32:
                ident = name
                break
    if ident is None:
        return None, {}, None
    pre = f"fit/{ident}/"
    folder = {rel[len(pre):]: data for rel, data in snap.files.items() if rel.startswith(pre)}
    return ident, folder, snap.files.get(f"fit/{ident}.zip")


def zip_members(data: bytes):
    """-> {rel: bytes} or None if the archive cannot be read"""
    try:
        with zipfile.ZipFile(io.BytesIO(data)) as z:
            if z.testzip() is not None:
                return None
            return {n.lstrip("/"): z.read(n) for n in z.namelist()}
    except Exception:
        return None


class Labels:
    """content names: (file, sha1) -> label; remembers which contents are synthesised partial writes"""

    def __init__(self):
        self.ids = {}
        self.partial = set()

    def mark_partial(self, fkey, data):
        self.partial.add((fkey, hashlib.sha1(data).hexdigest()))

    def status(self, fkey, data):
        if data is None:
            return "a"
        if fkey == "marker":
            return 0
        h = (fkey, hashlib.sha1(data).hexdigest())
        if fkey in ("start", "time"):
            # a timer file is a decimal number; a prefix that still parses is as good as complete
            try:
                float(data.decode())
            except Exception:
                return "p"
        elif len(data) == 0 or h in self.partial:
            return "p"
        if h not in self.ids:
            self.ids[h] = LABEL0 + len(self.ids)
        return self.ids[h]

    def folder(self, files):
        return {k: self.status(k, files.get(rel)) for k, rel in REL.items()}


def abstract(snap, labels: Labels):
    _, folder, zdata = split_state(snap)
    if zdata is None:
        z = "a"
    else:
        mem = zip_members(zdata)
        z = "p" if mem is None else labels.folder(mem)
    return {"folder": labels.folder(folder), "zip": z, "clock": 0}


def persisted(snap):
    """the harness's own reading of 'the completed result held by this state': the archive's content if
    a readable archive exists, else the folder's; None when not marked complete"""
    _, folder, zdata = split_state(snap)
    src = None
    if zdata is not None:
        src = zip_members(zdata)
    if src is None:
        src = folder
    if REL["marker"] not in src:
        return None
    return {k: src.get(REL[k]) for k in RESULT_FILES}


def parse_table(data: bytes):
    rows = list(csv.reader(io.StringIO(data.decode())))
    head = [h.strip() for h in rows[0]]
    out = []
    for r in rows[1:]:
        if not r:
            continue
        d = dict(zip(head, (float(x) for x in r)))
        params = [d[h] for h in head if h not in ("log_likelihood", "log_prior", "log_posterior", "weight")]
        out.append(params + [d["log_likelihood"], d["log_prior"], d["weight"]])
    return out


def view_matches(view, done, reloaded):
    """does the returned result report what `done` (persisted files) holds?  -> list of differences"""
    diffs = []
    try:
        doc = json.loads(done["summary"].decode())
    except Exception as e:
        return [f"persisted summary unreadable: {e}"]
    if view["summary"] != doc:
        diffs.append("summary statistics differ from samples_summary.json")
    mls = doc["arguments"]["max_log_likelihood_sample"]["arguments"]
    if view["best_ll"] != mls["log_likelihood"] or view["result_ll"] != mls["log_likelihood"]:
        diffs.append("best-fit log likelihood differs")
    if [v for _, v in view["best_params"]] != [v for _, v in sorted(mls["kwargs"]["arguments"].items())]:
        diffs.append("best-fit parameters differ")
    if reloaded:
        if done["samples"] is not None and done["info"] is not None:
            try:
                rows = parse_table(done["samples"])
            except Exception as e:
                return diffs + [f"persisted samples unreadable: {e}"]
            if view["samples"] != rows:
                diffs.append("samples differ from samples.csv")
        elif view["samples"] is not None:
            diffs.append("samples returned although no table is persisted")
    return diffs


# ---------------------------------------------------------------------------------------------
# traces


def project_trace(events, start_zip_present):
    """real events -> abstract ops (same alphabet as the model's steps)"""
    ops = []
    zip_present = start_zip_present
    for ev, rel, extra in events:
        rel = rel or ""
        parts = rel.split("/")
        inner = "/".join(parts[2:]) if len(parts) > 2 and parts[0] == "fit" else None
        top = parts[1] if len(parts) == 2 and parts[0] == "fit" else None
        if ev == "open":
            if top and top.endswith(".zip"):
                ops.append(("zipOpen",))
                ops.append(("zipClose",))
                zip_present = True
            elif inner in BY_REL:
                ops.append(("put", BY_REL[inner], False))
            elif inner in PREFIT and not zip_present:
                ops.append(("prefit",))
        elif ev in ("os.rename", "os.replace"):
            dst = extra or ""
            dparts = dst.split("/")
            dinner = "/".join(dparts[2:]) if len(dparts) > 2 else None
            if len(dparts) == 2 and dparts[1].endswith(".zip"):
                ops.append(("zipClose",))
                zip_present = True
            elif dinner in BY_REL:
                ops.append(("put", BY_REL[dinner], True))
            elif dinner in PREFIT and not zip_present:
                ops.append(("prefit",))
        elif ev == "os.remove":
            if top and top.endswith(".zip"):
                ops.append(("zipRemove",))
                zip_present = False
            elif rel.startswith("?/"):
                b = rel[2:]
                if b in BY_BASE:
                    ops.append(("remove", BY_BASE[b]))
            elif inner in BY_REL:
                ops.append(("remove", BY_REL[inner]))
    return ops


def model_ops(steps):
    ops = []
    for s in steps:
        k = s[0]
        if k == "put":
            ops.append(("put", s[1], bool(s[3])))
        elif k == "remove":
            if not s[2]:
                ops.append(("remove", s[1]))
        elif k in ("zipOpen", "zipClose", "zipRemove"):
            ops.append((k,))
        elif k == "other" and s[1] == "prefit":
            ops.append(("prefit",))
    return ops


def phases(ops, zip_present):
    """barriers (archive operations, and the marker written while no archive exists) in order; the
    operations between two barriers as a set"""
    out = []
    cur = set()
    for op in ops:
        if op[:2] == ("put", "save"):
            continue  # how often the sampler checkpoints is its own business (a resumed dynesty run may not at all)
        barrier = op[0] in ("zipOpen", "zipClose", "zipRemove") or (op[:2] == ("put", "marker") and not zip_present)
        if op[0] == "zipClose":
            zip_present = True
        elif op[0] == "zipRemove":
            zip_present = False
        if barrier:
            out.append(sorted(map(list, cur)))
            out.append([op[0]] if op[0] != "put" else ["mark"])
            cur = set()
        else:
            cur.add(op)
    out.append(sorted(map(list, cur)))
    return out


# ---------------------------------------------------------------------------------------------
# scenarios


class Scenario:
    """one (search, prior kind, output settings): owns the scratch world and the content labels"""

    def __init__(self, ctx, kind, prior, remove_files, samples_csv, keep_internal):
        self.ctx = ctx
        self.kind = kind
        self.prior = prior
        self.world = R.World(common.REPO, common.scratch_dir(), remove_files, samples_csv, keep_internal)
        self.labels = Labels()
        self.settings = {
            "remove_files": remove_files,
            "samples_csv": samples_csv,
            "keep_internal": keep_internal,
            "search": kind.split("_")[0],
            "fom_is_likelihood": kind.startswith("dynesty") or (kind == "drawer" and prior == "uniform"),
        }
        self.name = f"{kind}/{prior}/rm{int(remove_files)}csv{int(samples_csv)}int{int(keep_internal)}"

    def case(self, history):
        return {
            "search": self.kind,
            "prior": self.prior,
            "settings": {k: self.settings[k] for k in ("remove_files", "samples_csv", "keep_internal")},
            "history": history,
        }

    def fit(self, start, trace):
        return self.world.run_fit(self.kind, start, trace=trace, prior=self.prior)


def crash_points(run, labels, rng, partial_modes):
    """-> list of (descriptor, snapshot) for every kill point of a traced run"""
    snaps = run["snaps"] + [run["final"]]
    events = run["events"]
    out = []
    for k, s in enumerate(run["snaps"]):
        out.append(({"kill": k, "event": list(events[k]), "partial": None}, s))
    out.append(({"kill": len(events), "event": ["end"], "partial": None}, run["final"]))
    for k, (ev, rel, extra) in enumerate(events):
        if ev != "open" or extra != "w":
            continue
        # what the write produced: the file's content the next time something else happens
        produced = snaps[k + 1].files.get(rel)
        for mode in partial_modes:
            s = snaps[k].copy()
            if mode == "empty":
                data = b""
            else:
                if not produced or len(produced) < 2:
                    continue
                cut = len(produced) // 2 if mode == "half" else rng.randrange(1, len(produced))
                data = produced[:cut]
            s.files[rel] = data
            fk = file_key(rel)
            if fk:
                labels.mark_partial(fk, data)
            out.append(({"kill": k, "event": list(events[k]), "partial": mode if mode != "random" else cut}, s))
    # killed right after a rename: the new name holds what was *on disk* under the old name at that moment
    # (data still in a Python buffer of a file not yet closed is lost). For a file closed before it is moved
    # into place this is the next recorded state; otherwise it is a crash state of its own.
    for k, (ev, rel, extra) in enumerate(events):
        if ev not in ("os.rename", "os.replace") or rel is None or extra is None or rel not in snaps[k].files:
            continue
        s = snaps[k].copy()
        s.files[extra] = s.files.pop(rel)
        if snaps[k + 1].files.get(extra) == s.files[extra]:
            continue
        fk = file_key(extra)
        if fk:
            labels.mark_partial(fk, s.files[extra])
        out.append(({"kill": k, "event": list(events[k]), "partial": "moved-before-flushed"}, s))
    return out


def file_key(rel):
    parts = rel.split("/")
    if len(parts) > 2 and parts[0] == "fit":
        return BY_REL.get("/".join(parts[2:]))
    return None


# ---------------------------------------------------------------------------------------------
# one re-run from a crash state: correspondence + oracle


def classify_error(etype):
    return {
        "BadZipFile": "BadZipFile",
        "JSONDecodeError": "JSONDecodeError",
        "ValueError": "ValueError",
        "SearchException": "SearchException",
        "KeyError": "KeyError",
        "EOFError": "Unpickling",
        "UnpicklingError": "Unpickling",
        "FileNotFoundError": "FileNotFoundError",
    }.get(etype, "Other:" + str(etype))


FAILURE_CLASS = {
    # kind of failing input -> classifier (one per repaired defect; see findings/C06.json)
    "BadZipFile": "C06-zip-written-in-place",
    "JSONDecodeError": "C06-partial-write-read-on-resume",
    "ValueError": "C06-partial-write-read-on-resume",
    "Unpickling": "C06-partial-write-read-on-resume",
    "SearchException": "C06-resume-check-compares-fom",
    "KeyError": "C06-lbfgs-checkpoint-keys",
}


def count_updates(events):
    """number of times the samples summary was (re)written in a traced run"""
    n = 0
    for ev, rel, extra in events:
        tgt = extra if ev in ("os.rename", "os.replace") else rel
        if ev in ("open", "os.rename", "os.replace") and tgt and tgt.endswith("/" + REL["summary"]):
            if ev == "open" and extra != "w":
                continue
            n += 1
    return n


def shape(fs):
    f = lambda d: {k: (v if isinstance(v, str) else "f") for k, v in d.items()}
    return {"folder": f(fs["folder"]), "zip": fs["zip"] if isinstance(fs["zip"], str) else f(fs["zip"])}


def exec_correspondence(sc, cfg, case, mhist, n_updates, real, done):
    """the same history replayed inside the model (`AF.FitFS.exec` from the empty directory, kills addressed
    by their index in `crashStates`) must end in a state of the same shape, with the same outcome"""
    ctx = sc.ctx
    init = {"folder": {}, "zip": "a", "clock": 0}
    m = ctx.lean.ask({"p": "C06", "q": "exec", "cfg": cfg, "st": sc.settings, "fs": init,
                      "history": mhist + [{"n": n_updates}]})
    if "driver_error" in m:
        ctx.disagree("C06.driver", case, None, m)
        return
    last = m["trace"][-1]
    ctx.hit(f"exec:len{len(mhist) + 1}")
    impl = {"outcome": real["outcome"], "final": shape(abstract(real["final"], sc.labels)),
            "completed_before": done is not None}
    before = m["trace"][-2]["completed"] if len(m["trace"]) > 1 else None
    mod = {"outcome": last.get("outcome"), "final": shape(last["state"]), "completed_before": before is not None}
    if impl != mod:
        ctx.disagree("C06.exec", case, impl, dict(mod, history=mhist))


def rerun_case(sc: Scenario, cfg, history, state, done, traced=False, label="gen", mhist=None):
    """run the real fit from `state`, compare with the model, evaluate the oracle.
    `done`: the persisted result files of the moment the fit was first marked complete in this
    history (None: never).  Returns the real run (for chaining)."""
    ctx = sc.ctx
    case = sc.case(history)
    a = abstract(state, sc.labels)
    real = sc.fit(state, trace=traced)
    final_abs = abstract(real["final"], sc.labels)
    empty = all(v == "a" for v in a["folder"].values()) and a["zip"] == "a"
    ctx.case({"s": sc.settings, "a": a}, nontrivial=not empty,
             sample={"scenario": sc.name, "history": history[-2:], "state": a, "outcome": real["outcome"]})
    ctx.hit("state:" + ("zip-" + ("torn" if a["zip"] == "p" else "full") if a["zip"] != "a" else
                        ("complete" if a["folder"]["marker"] != "a" else
                         ("empty" if empty else "incomplete"))))
    ctx.hit("search:" + sc.kind)

    # ---- model
    n_updates = 0
    if real["outcome"] == "ok" and real["calls"] > 0 and traced:
        n_updates = max(0, count_updates(real["events"]) - 1)
    req = {"p": "C06", "q": "run", "cfg": cfg, "st": sc.settings, "n": n_updates, "fs": a}
    m = ctx.lean.ask(req)
    if "driver_error" in m:
        ctx.disagree("C06.driver", case, None, m)
        return real
    ctx.hit("model:" + m["outcome"] + (":" + m["err"] if m["outcome"] == "raises" else ""))
    ctx.hit("model:sampled" if m["sampled"] else "model:no-sampling")

    # ---- oracle (independent of the model)
    failed = False
    if real["outcome"] != "ok":
        failed = True
        ecls = classify_error(real["etype"])
        if ecls == "SearchException" and "likelihood" not in str(real.get("error", "")).lower():
            ecls = "SearchException-other"  # (the repaired finding is the resume check on the figure of merit)
        ctx.fail(FAILURE_CLASS.get(ecls, "C06-rerun-raises-" + ecls),
                 f"re-running the fit after a crash raises {real['error']}", case,
                 {"state": a, "error": real["error"], "lost": persisted(real["final"]) is None and done is not None})
    else:
        after = persisted(real["final"])
        if after is None or after["summary"] is None:
            failed = True
            ctx.fail("C06-rerun-not-complete", "the re-run returned but left no complete result behind", case,
                     {"state": a, "final": final_abs})
        if done is not None:
            if real["calls"] > 0:
                failed = True
                ctx.fail("C06-completed-fit-resampled",
                         f"a fit marked complete was sampled again ({real['calls']} likelihood evaluations)", case,
                         {"state": a})
            diffs = view_matches(real["view"], done, reloaded=True)
            if diffs:
                failed = True
                ctx.fail("C06-completed-result-differs",
                         "the result returned for a completed fit differs from the persisted one: " + "; ".join(diffs),
                         case, {"state": a})
            if after is not None and after != done:
                failed = True
                ctx.fail("C06-completed-result-replaced",
                         "the persisted result of a completed fit was lost or replaced by the re-run", case,
                         {"state": a, "changed": [k for k in RESULT_FILES if after.get(k) != done.get(k)]})
        elif after is not None and after["summary"] is not None:
            diffs = view_matches(real["view"], after, reloaded=False)
            if diffs:
                failed = True
                ctx.fail("C06-returned-result-not-persisted",
                         "the result returned by the fit is not the persisted one: " + "; ".join(diffs), case,
                         {"state": a})

    # ---- correspondence
    impl = {
        "outcome": real["outcome"],
        "err": classify_error(real["etype"]) if real["outcome"] != "ok" else None,
        "sampled": real["calls"] > 0,
    }
    mod = {"outcome": m["outcome"], "err": m.get("err"), "sampled": m["sampled"]}
    if impl["outcome"] != "ok" or mod["outcome"] != "ok":
        # whether likelihood evaluations happened before an exception is not part of the comparison
        impl["sampled"] = mod["sampled"] = None
    # the model's `completedResult` of this state <-> the harness's own reading of the directory
    held = persisted(state)
    if (m["completed_before"] is not None) != (held is not None and held["summary"] is not None) and a["zip"] != "p":
        ctx.disagree("C06.completed-result", case, {"held": held is not None}, {"completed": m["completed_before"], "state": a})
    if impl != mod:
        if not failed:
            ctx.disagree("C06.outcome", case, impl, dict(mod, state=a))
        else:
            ctx.hit("model-also-differs-on-failing-input")
    else:
        fd = diff_state(m["final"], final_abs)
        if fd:
            ctx.disagree("C06.final-state", case, {"final": final_abs, "diff": fd}, {"final": m["final"], "state": a})
        if m["hyp"] and not m["safe"] and not failed:
            # reachable state outside the invariant of the theorems, yet nothing fails: tie too weak
            ctx.disagree("C06.invariant", case, {"state": a}, {"safe": False})
        if traced and real["outcome"] == "ok":
            zp = a["zip"] != "a"
            rp = phases(project_trace(real["events"], zp), zp)
            mp = phases(model_ops(m["steps"]), zp)
            if sc.kind == "lbfgs_cap" and budget_spent(state):
                # the checkpoint found already holds every iteration maxiter allows: the search returns it
                # without a further scipy call, hence without a new checkpoint. The model's sampler always
                # performs a last round (assumption listed below); its checkpoint write is not expected here.
                ctx.hit("resume:iteration-budget-already-spent")
                mp = [[op for op in ph if op[:2] != ["put", "internal"]] if k == 0 and isinstance(ph, list) else ph
                      for k, ph in enumerate(mp)]
            if rp != mp:
                ctx.disagree("C06.trace", case, {"phases": rp}, {"phases": mp})
            plan_correspondence(sc, cfg, case, a, n_updates, real, state)
    if m["hyp"] and m["safe"] and m["outcome"] != "ok":
        ctx.disagree("C06.model-invariant", case, None, {"state": a, "model": mod})
    if mhist is not None and real["outcome"] == "ok" and m["outcome"] == "ok":
        nu = n_updates if traced else 0
        exec_correspondence(sc, cfg, case, mhist, nu, real, done)
    return real


def budget_spent(state, maxiter=4):
    """does the BFGS checkpoint held by this directory state already hold `maxiter` iterations?"""
    import dill

    for rel, data in state.files.items():
        if rel.endswith("search_internal.dill"):
            try:
                obj = dill.loads(data)
                return int(obj["total_iterations"]) >= maxiter
            except Exception:  # torn / unreadable checkpoint: the model's `checkpoint` decides
                return False
    return False


def diff_state(model_fs, real_fs):
    """model labels >= LABEL0 must be the same content; smaller ones any complete content"""
    out = []

    def cmp_folder(mf, rf, where):
        for k in REL:
            mv, rv = mf[k], rf[k]
            if isinstance(mv, int) and mv < LABEL0:
                ok = isinstance(rv, int)
            else:
                ok = mv == rv
            if not ok:
                out.append(f"{where}{k}: model {mv} real {rv}")

    cmp_folder(model_fs["folder"], real_fs["folder"], "")
    mz, rz = model_fs["zip"], real_fs["zip"]
    if isinstance(mz, dict) and isinstance(rz, dict):
        cmp_folder(mz, rz, "zip/")
    elif mz != rz:
        out.append(f"zip: model {mz if not isinstance(mz, dict) else 'full'} real {rz if not isinstance(rz, dict) else 'full'}")
    return out


# ---------------------------------------------------------------------------------------------
# exploring the crash points of a history


def first_done(run, start_done):
    """per crash point k: the result persisted when the fit was first marked complete (carried forward)"""
    dones = []
    cur = start_done
    for s in run["snaps"] + [run["final"]]:
        if cur is None:
            cur = persisted(s)
        dones.append(cur)
    return dones


def at_rest_check(sc, history, run, dones):
    """'never lost, corrupted or replaced', evaluated on every snapshot of a traced run without
    re-running: once complete, the state keeps holding exactly that result"""
    for k, s in enumerate(run["snaps"] + [run["final"]]):
        d = dones[k]
        if d is None:
            continue
        now = persisted(s)
        if now != d:
            sc.ctx.fail("C06-completed-result-replaced",
                        "a result marked complete is no longer held by the output directory at a later point of the same run",
                        sc.case(history + [{"kill": k, "event": list(run["events"][k]) if k < len(run["events"]) else ["end"], "partial": None}]),
                        {"missing": [f for f in RESULT_FILES if (now or {}).get(f) != d.get(f)]})
            return


def same_state(model_fs, real_fs):
    """equality of abstract states; beside a complete archive the folder is irrelevant
    (theorem `archive_shadows_folder`): rmtree / extractall proceed in directory order"""
    if isinstance(model_fs["zip"], dict) and isinstance(real_fs["zip"], dict):
        return not diff_state({"folder": real_fs["folder"], "zip": model_fs["zip"]}, real_fs)
    return not diff_state(model_fs, real_fs)


def crash_state_inclusion(sc, cfg, history, start, start_done, run, pts, dones):
    """every state a kill leaves on the real code should be one of the model's `crashStates` of the same
    call (the list the theorems quantify over).  A state that is not (steps re-ordered inside a phase)
    is not an alarm by itself, but it is always re-run, whatever the case budget."""
    ctx = sc.ctx
    a = abstract(start, sc.labels)
    n_updates = max(0, count_updates(run["events"]) - 1) if run["calls"] > 0 else 0
    m = ctx.lean.ask({"p": "C06", "q": "run", "cfg": cfg, "st": sc.settings, "n": n_updates, "fs": a,
                      "crash_states": True})
    if "driver_error" in m or "crash" not in m:
        ctx.disagree("C06.driver", sc.case(history), None, m)
        return {}, n_updates
    mstates = [c["state"] for c in m["crash"]]
    ctx.hit("model-crash-states", len(mstates))
    seen = {}
    index_of = {}
    for d, s in pts:
        ra = abstract(s, sc.labels)
        key = json.dumps(ra, sort_keys=True)
        if key in seen:
            if seen[key] is not None:
                index_of[s.key()] = seen[key]
            continue
        seen[key] = None
        idx = next((i for i, ms in enumerate(mstates) if same_state(ms, ra)), None)
        if idx is not None:
            ctx.hit("crash-state:in-model")
            # beside a complete archive the folder is irrelevant, but `exec` continues from the model's own state
            exact = next((i for i, ms in enumerate(mstates) if not diff_state(ms, ra)), None)
            if exact is not None:
                seen[key] = index_of[s.key()] = exact
        else:
            ctx.hit("crash-state:not-in-model")
            if os.environ.get("VERIF_DEBUG"):
                print("NOT IN MODEL", sc.name, d, json.dumps(ra), file=__import__("sys").stderr)
            k = min(d["kill"], len(dones) - 1)
            rerun_case(sc, cfg, history + [d, {"kill": None}], s, dones[k])
    return index_of, n_updates


def explore(sc, cfg, history, start, start_done, budget, partial_modes, depth, chain_points=0, mhist=()):
    """trace one real fit from `start`; re-run from (a sample of) its crash states.
    `mhist`: the same history as events of the model (None once a state left the model's lists)"""
    ctx = sc.ctx
    run = rerun_case(sc, cfg, history + [{"kill": None}], start, start_done, traced=True,
                     mhist=list(mhist) if mhist is not None else None)
    if run["outcome"] != "ok":
        return
    dones = first_done(run, start_done)
    at_rest_check(sc, history, run, dones)
    pts = crash_points(run, sc.labels, ctx.rng, partial_modes)
    index_of, n_updates = crash_state_inclusion(sc, cfg, history, start, start_done, run, pts, dones)

    def model_history(s):
        if mhist is None or s.key() not in index_of:
            return None
        return list(mhist) + [{"n": n_updates, "kill": index_of[s.key()]}]

    seen = set()
    uniq = []
    for d, s in pts:
        key = s.key()
        if key in seen:
            continue
        seen.add(key)
        uniq.append((d, s))
    if budget is not None and len(uniq) > budget:
        uniq = ctx.rng.sample(uniq, budget)
    chain = set(ctx.rng.sample(range(len(uniq)), min(chain_points, len(uniq)))) if depth > 0 else set()
    sub = 6 if ctx.tier == "quick" else 10
    for i, (d, s) in enumerate(uniq):
        k = min(d["kill"], len(dones) - 1)
        done = dones[k]
        h = history + [d]
        if i in chain:
            explore(sc, cfg, h, s, done, budget=sub, partial_modes=partial_modes,
                    depth=depth - 1, chain_points=2 if depth > 1 else 0, mhist=model_history(s))
        else:
            rerun_case(sc, cfg, h + [{"kill": None}], s, done, mhist=model_history(s))
    if depth > 0:
        # the re-run of the finished fit (unzip ... zip again) and its own kill points
        explore(sc, cfg, history + [{"kill": None}], run["final"], dones[-1],
                budget=None if budget is None else max(sub, budget // 2), partial_modes=partial_modes,
                depth=depth - 1, chain_points=1 if depth > 1 else 0,
                mhist=None if mhist is None else list(mhist) + [{"n": n_updates}])


# ---------------------------------------------------------------------------------------------
# probing the repair flags on the real code


def probe_flags(ctx):
    """replay the stored witness of every repair on the real code -> observed Cfg"""
    sc = Scenario(ctx, "lbfgs", "uniform", False, True, False)
    run = sc.fit(R.Snapshot(), trace=True)
    cfg = {"zip_atomic": True, "restore_validates": True, "atomic_writes": True, "fom_check_sound": True,
           "lbfgs_resumes": True}
    if run["outcome"] != "ok":
        ctx.fail("C06-fresh-fit-raises", f"a fresh fit raises {run['error']}", sc.case([{"kill": None}]), None)
        return cfg, sc
    events = run["events"]
    snaps = run["snaps"] + [run["final"]]

    def direct_write(key):
        return any(ev == "open" and extra == "w" and file_key(rel) == key for ev, rel, extra in events)

    def rerun_ok(state):
        r = sc.fit(state, trace=False)
        return r["outcome"] == "ok", r

    # archive written in place?
    in_place = [k for k, (ev, rel, extra) in enumerate(events) if ev == "open" and rel.endswith(".zip")]
    if in_place:
        cfg["zip_atomic"] = False
        k = in_place[-1]
        s = snaps[k].copy()
        s.files[events[k][1]] = b"PK\x03\x04"
        ok, r = rerun_ok(s)
        lost = persisted(r["final"]) is None
        cfg["restore_validates"] = not lost
        ctx.fail("C06-zip-written-in-place",
                 "a kill while <id>.zip is being written leaves a truncated archive; the next fit raises BadZipFile"
                 + (" after deleting the intact output folder (completed result lost)" if lost else ""),
                 sc.case([{"kill": k, "event": list(events[k]), "partial": "empty"}, {"kill": None}]),
                 {"error": r["error"], "result_lost": lost})
    else:
        # restore on a truncated archive beside an intact folder must not delete the folder
        s = run["final"].copy()
        ident, _, _ = split_state(s)
        s.files[f"fit/{ident}.zip"] = b"PK\x03\x04"
        ok, r = rerun_ok(s)
        cfg["restore_validates"] = persisted(r["final"]) is not None or ok
    # result / checkpoint files written in place?
    for key in ("summary", "internal", "start"):
        if direct_write(key):
            cfg["atomic_writes"] = False
            k = [i for i, (ev, rel, extra) in enumerate(events) if ev == "open" and extra == "w" and file_key(rel) == key][0]
            s = snaps[k].copy()
            s.files[events[k][1]] = b""
            ok, r = rerun_ok(s)
            if not ok:
                ctx.fail("C06-partial-write-read-on-resume",
                         f"a kill inside the write of {REL[key]} leaves a partial file that the next fit reads: {r['error']}",
                         sc.case([{"kill": k, "event": list(events[k]), "partial": "empty"}, {"kill": None}]),
                         {"error": r["error"]})
    # resume with a summary present (sanity check) and with a checkpoint present
    marker_k = [i for i, (ev, rel, extra) in enumerate(events) if rel and rel.endswith("/.completed")]
    summ_k = [i for i, (ev, rel, extra) in enumerate(events)
              if (extra if ev in ("os.rename", "os.replace") else rel or "").endswith(REL["summary"]) and (ev != "open" or extra == "w")]
    ck_k = [i for i, (ev, rel, extra) in enumerate(events)
            if (extra if ev in ("os.rename", "os.replace") else rel or "").endswith(REL["internal"]) and (ev != "open" or extra == "w")]
    if ck_k and summ_k and ck_k[0] + 1 <= summ_k[0]:
        k = ck_k[0] + 1
        ok, r = rerun_ok(snaps[k])
        if not ok and r["etype"] == "KeyError":
            cfg["lbfgs_resumes"] = False
            ctx.fail("C06-lbfgs-checkpoint-keys",
                     "a BFGS fit killed after its first checkpoint cannot be resumed: " + r["error"],
                     sc.case([{"kill": k, "event": list(events[k]), "partial": None}, {"kill": None}]), {"error": r["error"]})
    if summ_k and marker_k:
        k = marker_k[0]
        ok, r = rerun_ok(snaps[k])
        if not ok and r["etype"] == "SearchException":
            cfg["fom_check_sound"] = False
            ctx.fail("C06-resume-check-compares-fom",
                     "a fit killed after writing a samples summary cannot be resumed: the sanity check compares the stored "
                     "log likelihood with the search's figure of merit: " + r["error"][:80],
                     sc.case([{"kill": k, "event": list(events[k]), "partial": None}, {"kill": None}]), {"error": r["error"]})
    return cfg, sc


# ---------------------------------------------------------------------------------------------
# trusted-base self check: a really killed process leaves what the in-process snapshot shows


def real_kill_check(ctx, n_kills):
    import subprocess
    import sys
    import tempfile

    sc = Scenario(ctx, "lbfgs", "uniform", True, True, False)
    ref = sc.fit(R.Snapshot(), trace=True)
    if ref["outcome"] != "ok":
        return
    snaps = ref["snaps"] + [ref["final"]]
    ks = sorted(ctx.rng.sample(range(8, len(ref["events"])), min(n_kills, len(ref["events"]) - 8)))
    for k in ks:
        base = Path(tempfile.mkdtemp(prefix="kill_", dir=str(common.scratch_dir())))
        st = sc.world.settings
        cmd = [sys.executable, str(Path(R.__file__)), str(common.REPO), str(base), sc.kind, sc.prior,
               str(int(st["remove_files"])), str(int(st["samples_csv"])), str(int(st["keep_internal"])), str(k)]
        p = subprocess.run(cmd, capture_output=True, text=True, timeout=300,
                           env=dict(os.environ, PYTHONPATH=str(common.REPO), PYTHONWARNINGS="ignore"))
        if p.returncode != 77:
            ctx.notes.setdefault("real_kill_skipped", []).append({"k": k, "rc": p.returncode, "err": p.stderr[-200:]})
            continue
        out = [d for d in base.iterdir() if d.name.startswith("out_")]
        left = R.Snapshot.take(os.path.realpath(out[0])) if out else R.Snapshot()
        lab = Labels()
        shape = lambda a: json.dumps(
            {"folder": {f: (v if isinstance(v, str) else "f") for f, v in a["folder"].items()},
             "zip": a["zip"] if isinstance(a["zip"], str) else {f: (v if isinstance(v, str) else "f") for f, v in a["zip"].items()}},
            sort_keys=True)
        got, want = shape(abstract(left, lab)), shape(abstract(snaps[k], lab))
        import re

        # (the identifier differs: the model class lives in `__main__` in the subprocess)
        norm = lambda names: sorted(re.sub(r"[0-9a-f]{32}", "ID", x) for x in names if not x.endswith("search.log"))
        names_got, names_want = norm(left.files), norm(snaps[k].files)
        ctx.hit("real-kill-checked")
        if got != want or names_got != names_want:
            ctx.disagree("C06.snapshot-vs-real-kill", {"kill": k, "event": list(ref["events"][k])},
                         {"state": got, "files": names_got}, {"state": want, "files": names_want})


# ---------------------------------------------------------------------------------------------
# database route (oracle only: DatabasePaths is not modelled)


def database_route_check(ctx):
    """a fit written straight into a database, run twice: the second call must not sample and must
    report the same best fit"""
    import contextlib

    import autofit as af

    sc = Scenario(ctx, "lbfgs", "uniform", False, True, False)
    sc.world.activate()
    R.Snapshot().materialise(sc.world.root)
    dbfile = str(common.scratch_dir() / f"c06_{ctx.rng.randrange(10**9)}.sqlite")
    views, calls = [], []
    case = {"route": "database", "search": "lbfgs", "history": [{"kill": None}, {"kill": None}]}
    for i in range(2):
        session = af.db.open_database(dbfile)
        analysis = R._analysis_cls()()
        try:
            with open(os.devnull, "w") as devnull, contextlib.redirect_stdout(devnull), contextlib.redirect_stderr(devnull):
                search = af.LBFGS(name="fit", iterations_per_update=3, session=session)
                result = search.fit(model=R.make_model(), analysis=analysis)
            ss = result.samples_summary
            views.append(None if ss is None else float(ss.max_log_likelihood_sample.log_likelihood))
        except Exception as e:
            ctx.fail("C06-database-fit-raises", f"fit with a database session raises {type(e).__name__}: {str(e)[:80]}",
                     case, {"call": i})
            return
        finally:
            R.close_log_handlers()
            session.close()
        calls.append(analysis.calls)
    ctx.hit("database-route-checked")
    ctx.case({"route": "database", "views": [v is not None for v in views]}, nontrivial=True)
    if calls[1] > 0:
        ctx.fail("C06-completed-fit-resampled", "a completed fit stored in a database was sampled again", case,
                 {"calls": calls})
    if views[1] is None or views[1] != views[0]:
        ctx.fail("C06-database-completed-rerun-no-summary",
                 "re-running a completed fit that was written to a database returns a result without samples summary "
                 "(result.log_likelihood / instance raise AttributeError)", case, {"first": views[0], "second": views[1]})


def force_overwrite_check(ctx):
    """`force_pickle_overwrite: true` re-creates the output files of a completed fit; it does not sample it again and
    the result returned is the completed one (oracle only: the model does not carry this setting)"""
    import random as pyrandom

    for kind in ("lbfgs", "dynesty_x1"):  # (in-process likelihood calls are counted)
        sc = Scenario(ctx, kind, "uniform", False, True, False)
        case = {"route": "force-pickle-overwrite", "search": kind, "history": [{"kill": None}, {"kill": None}]}
        first = sc.fit(R.Snapshot(), trace=False)
        if first["outcome"] != "ok":
            ctx.hit("force-overwrite:first-fit-failed")
            continue
        from autoconf import conf
        sc.world.activate()
        out_cfg = conf.instance["general"]["output"]  # (the parsed configuration of this scratch world is cached)
        out_cfg["force_pickle_overwrite"] = True
        try:
            second = sc.fit(first["final"], trace=False)
            seen = bool(conf.instance["general"]["output"]["force_pickle_overwrite"])
        finally:
            out_cfg["force_pickle_overwrite"] = False
        if not seen:
            ctx.hit("force-overwrite:setting-not-in-effect")
            continue
        ctx.hit("force-overwrite-checked")
        ctx.case({"route": "force-pickle-overwrite", "search": kind}, nontrivial=True)
        if second["outcome"] != "ok":
            ctx.fail("C06-rerun-raises-" + classify_error(second["etype"]), f"re-running a completed fit with force_pickle_overwrite raises {second['error']}", case)
            continue
        if second["calls"] > 0:
            ctx.fail("C06-completed-fit-resampled", f"a completed fit was sampled again ({second['calls']} likelihood evaluations) because "
                     "force_pickle_overwrite is on", case, {"calls": second["calls"]})
        done = persisted(first["final"])
        if done is not None:
            diffs = view_matches(second["view"], done, reloaded=True)
            if diffs:
                ctx.fail("C06-completed-result-differs", "the result returned for a completed fit (force_pickle_overwrite) differs from the "
                         "persisted one: " + "; ".join(diffs), case)


# ---------------------------------------------------------------------------------------------
# the plan read off the source (AF.FitFS.Plan): tables, flags, order of the writes


def source_tables_check(ctx, cfg):
    """(i) the call tables extracted from the source *now* are the ones compiled into the model (the theorems
    `plan_is_run`, `source_repairs_in_place` ... are about those); (ii) the three structural repair flags the
    model computes from the tables are the ones the crash probes observe on the real code"""
    import tables_c06

    case = {"route": "source-tables"}
    try:
        now = tables_c06.tables()
    except Exception as e:  # a function of the fit's life is gone / renamed: the tie is broken
        ctx.disagree("C06.source-tables", case, {"error": f"{type(e).__name__}: {e}"}, None)
        return
    st = {"remove_files": False, "samples_csv": True, "keep_internal": False, "search": "lbfgs", "fom_is_likelihood": False}
    m = ctx.lean.ask({"p": "C06", "q": "plan", "cfg": cfg, "st": st, "n": 0, "fs": {"folder": {}, "zip": "a", "clock": 0}})
    if "driver_error" in m:
        ctx.disagree("C06.driver", case, None, m)
        return
    ctx.hit("source-tables-checked")
    compiled = m["tables"]
    diff = sorted(k for k in set(now) | set(compiled) if not same_calls(now.get(k), compiled.get(k)))
    if diff:
        ctx.disagree("C06.source-tables", case, {k: now.get(k) for k in diff}, {k: compiled.get(k) for k in diff})
    src = m["src_cfg"]
    probed = {k: cfg[k] for k in ("zip_atomic", "restore_validates", "atomic_writes")}
    if not probed["zip_atomic"]:
        probed["restore_validates"] = src["restore_validates"]  # (only observable through a truncated archive)
    if src != probed and not diff:
        ctx.disagree("C06.source-flags", case, {"probed": probed}, {"from_source": src})


def same_calls(t1, t2):
    """two call tables mean the same: under every valuation of the settings they test, the same calls execute in
    the same order (so swapping the branches of an `if`, or nesting guards differently, is no difference)"""
    if t1 is None or t2 is None:
        return False
    import itertools

    conds = sorted({c for t in (t1, t2) for _, gs in t for c, _ in gs})
    for vals in itertools.product((False, True), repeat=len(conds)):
        env = dict(zip(conds, vals))
        act = lambda t: [tok for tok, gs in t if all(env[c] == p for c, p in gs)]
        if act(t1) != act(t2):
            return False
    return True


def ordered_real(events, zip_present):
    """the traced mutations after `restore`, in order: writes of the relevant files (with how they were written),
    explicit removals, rmtree of the search-internal folder / of the output folder, archive operations; only the
    first pre-fit write; the sampler's own checkpoint file is left out"""
    ops = []
    restoring = zip_present
    for ev, rel, extra in events:
        rel = rel or ""
        parts = rel.split("/")
        inner = "/".join(parts[2:]) if len(parts) > 2 and parts[0] == "fit" else None
        top = parts[1] if len(parts) == 2 and parts[0] == "fit" else None
        if restoring:
            if ev == "os.remove" and top and top.endswith(".zip"):
                restoring = False
                ops.append(("zipRemove",))
            continue
        if ev == "open":
            if top and top.endswith(".zip"):
                ops += [("zipOpen",), ("zipClose",)]
            elif inner in BY_REL:
                ops.append(("put", BY_REL[inner], False))
            elif inner in PREFIT:
                ops.append(("prefit",))
        elif ev in ("os.rename", "os.replace"):
            dparts = (extra or "").split("/")
            dinner = "/".join(dparts[2:]) if len(dparts) > 2 else None
            if len(dparts) == 2 and dparts[1].endswith(".zip"):
                ops.append(("zipClose",))
            elif dinner in BY_REL:
                ops.append(("put", BY_REL[dinner], True))
            elif dinner in PREFIT:
                ops.append(("prefit",))
        elif ev == "os.remove":
            if top and top.endswith(".zip"):
                ops.append(("zipRemove",))
            elif inner in BY_REL:
                ops.append(("remove", BY_REL[inner]))
        elif ev == "shutil.rmtree":
            if inner == "files/search_internal":
                ops.append(("rmtree", "internal"))
            elif top and not top.endswith(".zip") and not top.endswith(".tmp"):
                ops.append(("rmtree", "folder"))
    return normal_order(ops)


def ordered_model(steps, zip_present):
    ops = []
    restoring = zip_present
    buf = []
    for s in steps:
        k = s[0]
        if restoring:
            if k == "zipRemove":
                restoring = False
                ops.append(("zipRemove",))
            continue
        if k == "remove":
            buf.append(s)
            continue
        if k == "other" and s[1] in ("rmdir-internal", "rmdir"):
            ops.append(("rmtree", "internal" if s[1] == "rmdir-internal" else "folder"))
            buf = []
            continue
        ops += [("remove", b[1]) for b in buf if not b[2]]
        buf = []
        if k == "put":
            ops.append(("put", s[1], bool(s[3])))
        elif k in ("zipOpen", "zipClose", "zipRemove"):
            ops.append((k,))
        elif k == "other" and s[1] == "prefit":
            ops.append(("prefit",))
    ops += [("remove", b[1]) for b in buf if not b[2]]
    return normal_order(ops)


def normal_order(ops):
    out = []
    seen_prefit = False
    for op in ops:
        if op[0] == "prefit":
            if seen_prefit:
                continue
            seen_prefit = True
        if op[:2] in (("put", "save"), ("remove", "save")):
            continue  # how often the sampler checkpoints is its own business
        if op[:2] == ("put", "marker"):
            op = ("put", "marker", True)  # creating the empty marker file is one system call
        out.append(list(op))
    return out


def plan_correspondence(sc, cfg, case, a, n_updates, real, state):
    """the steps `AF.FitFS.Plan.planSteps` reads off the source tables for this call: equal to the model's `run`
    (executed instance of theorem `plan_is_run`), and - *in order* - what the traced real call did"""
    ctx = sc.ctx
    m = ctx.lean.ask({"p": "C06", "q": "plan", "cfg": cfg, "st": sc.settings, "n": n_updates, "fs": a})
    if "driver_error" in m:
        ctx.disagree("C06.driver", case, None, m)
        return
    ctx.hit("plan:checked")
    if m["hyp"] and m["safe"] and m["plan"] != m["run"]:
        ctx.disagree("C06.plan-vs-run", case, {"state": a}, {"plan": m["plan"], "run": m["run"]})
    if not (m["hyp"] and m["safe"]) or m["outcome"] != "ok":
        return
    if (m["sampled"]) != (real["calls"] > 0):
        ctx.disagree("C06.plan-sampling", case, {"sampled": real["calls"] > 0}, {"sampled": m["sampled"], "state": a})
    zp = a["zip"] != "a"
    ro = ordered_real(real["events"], zp)
    mo = ordered_model(m["plan"], zp)
    if sc.kind == "lbfgs_cap":
        # the iteration budget is a whole number of checkpoint intervals: the last checkpoint already holds every
        # iteration (of this run, or - see rerun_case - of the run that was killed) and the search returns without a
        # further scipy call, hence without the checkpoint write of the model's last round (listed assumption)
        mark = next((i for i, op in enumerate(mo) if op[:2] == ["put", "marker"]), len(mo))
        ck = [i for i, op in enumerate(mo[:mark]) if op[:2] == ["put", "internal"]]
        n_real = sum(1 for op in ro[: next((i for i, op in enumerate(ro) if op[:2] == ["put", "marker"]), len(ro))]
                     if op[:2] == ["put", "internal"])
        if ck and len(ck) == n_real + 1:
            ctx.hit("plan:capped-last-round-without-checkpoint")
            mo = mo[: ck[-1]] + mo[ck[-1] + 1:]
    if ro != mo:
        k = next((i for i, (x, y) in enumerate(zip(ro, mo)) if x != y), min(len(ro), len(mo)))
        ctx.disagree("C06.write-order", case, {"at": k, "real": ro[max(0, k - 2): k + 3], "n": len(ro)},
                     {"model": mo[max(0, k - 2): k + 3], "n": len(mo), "state": a})
    else:
        ctx.hit("plan:order-agrees")


# ---------------------------------------------------------------------------------------------
# entry points


def replay_history(sc, cfg, history):
    """re-execute a stored history on the real code; the last element is judged"""
    state = R.Snapshot()
    done = None
    for i, step in enumerate(history):
        last = i == len(history) - 1
        if step.get("kill") is None and "at" not in step:
            run = rerun_case(sc, cfg, history[: i + 1], state, done, traced=True, label="replay")
            dones = first_done(run, done)
            state, done = run["final"], dones[-1]
            continue
        run = sc.fit(state, trace=True)
        if run["outcome"] != "ok":
            return
        dones = first_done(run, done)
        snaps = run["snaps"] + [run["final"]]
        if "at" in step:
            k = resolve_at(run["events"], step["at"])
            if k is None:
                sc.ctx.hit("corpus:event-not-found")
                return
            if step.get("after"):
                k += 1
            step = dict(step, kill=k, event=None)
        k = step["kill"]
        ev = step.get("event")
        if k >= len(run["events"]) or (ev and list(run["events"][k]) != ev):
            # the trace of a randomised sampler can shift: find the same event again
            cands = [j for j, e in enumerate(run["events"]) if list(e) == ev]
            k = cands[0] if cands else min(k, len(snaps) - 1)
        s = snaps[k].copy()
        if step.get("partial") is not None and k < len(run["events"]):
            rel = run["events"][k][1]
            produced = snaps[k + 1].files.get(rel) or b""
            mode = step["partial"]
            data = b"" if mode == "empty" else produced[: (len(produced) // 2 if mode == "half" else int(mode))]
            s.files[rel] = data
            fk = file_key(rel)
            if fk:
                sc.labels.mark_partial(fk, data)
        state, done = s, dones[min(k, len(dones) - 1)]


def event_target(ev):
    """the relevant file (or 'zip') an event writes, looking through temporary names"""
    kind, rel, extra = ev
    tgt = extra if kind in ("os.rename", "os.replace") else rel
    if not tgt or (kind == "open" and extra != "w"):
        return None
    if tgt.endswith(".tmp"):
        tgt = tgt[:-4]
    parts = tgt.split("/")
    if len(parts) == 2 and parts[1].endswith(".zip"):
        return "zip"
    return file_key(tgt)


def resolve_at(events, at):
    """index of the `occ`-th event that starts writing `file` (its temporary file counts)"""
    n = 0
    for k, ev in enumerate(events):
        if ev[0] == "open" and event_target(ev) == at["file"]:
            n += 1
            if n == at.get("occ", 1):
                return k
    return None


def scenario_of(ctx, case):
    st = case["settings"]
    return Scenario(ctx, case["search"], case.get("prior", "uniform"), st["remove_files"], st["samples_csv"],
                    st["keep_internal"])


def run(ctx):
    ctx.rule = RULE
    ctx.assumptions = [
        "a crash is a process kill between or inside Python-level file operations (no power loss: data handed to "
        "the OS survives, data in a Python write buffer does not); os.replace / os.rename / unlink are atomic",
        "DirectoryPaths only (DatabasePaths delegates durability to SQLite transactions and is not modelled)",
        "sampler checkpoints are abstract: complete / partial / absent; dynesty writes its own checkpoint atomically",
        "every run that finds no completed result performs at least one sampling round; the exception - a BFGS/LBFGS "
        "checkpoint that already used up maxiter is returned as the result without a further scipy call - is exercised "
        "(plan lbfgs_cap, output setting search_internal off, histories one run deep) against the oracle clauses and the "
        "trace minus that one checkpoint write",
        "the model, search settings and unique tag are the same in every run of a history",
    ]
    rng = ctx.rng
    cfg, base_sc = probe_flags(ctx)
    ctx.notes["observed_cfg"] = cfg
    source_tables_check(ctx, cfg)

    # corpus: stored histories (witnesses of the repaired defects) run first
    for f in sorted((VERIF / "corpus" / "C06").glob("*.json")):
        c = json.loads(f.read_text())
        replay_history(scenario_of(ctx, c), cfg, c["history"])
        ctx.hit("corpus")

    quick = ctx.tier == "quick"
    combos = [(rm, cs, ki) for rm in (False, True) for cs in (True, False) for ki in (False, True)]
    if quick:
        # one exhaustive enumeration (all kill points, file empty) of a cheap search, a sampled one of the
        # other cheap search with a different output setting, a few dynesty points
        k1, k2 = rng.sample(["drawer", "lbfgs", "lbfgs_cap"], 2)
        c1, c2, c3 = rng.sample(combos, 3)
        plans = [
            (k1, rng.choice(["uniform", "gauss"]), c1, None, ("empty",), 1, 3),
            (k2, rng.choice(["uniform", "gauss"]), c2, 60, ("empty", "half"), 1, 2),
            ("dynesty", "uniform", c3, 8, ("empty",), 0, 0),
            ("dynesty_x1", "uniform", rng.choice(combos), 8, ("empty",), 0, 0),
        ]
    else:
        plans = []
        for kind in ("drawer", "lbfgs", "lbfgs_cap", "dynesty", "dynesty_x1"):
            for c in (combos if kind != "dynesty_x1" else combos[::3]):
                dyn = kind.startswith("dynesty")
                prior = rng.choice(["uniform", "gauss"]) if not dyn else "uniform"
                budget = None if not dyn else 28
                # (histories continue for one more run after a crash; two for the searches whose every resumed run samples -
                # after a resume from a budget-spent BFGS checkpoint the model's content labels are no longer the code's)
                plans.append((kind, prior, c, budget, ("empty", "half", "random"), 2 if not dyn and kind != "lbfgs_cap" else 1, 3))
    for kind, prior, (rm, cs, ki), budget, modes, depth, chains in plans:
        if kind == "lbfgs_cap":
            ki = False  # (with the search internal kept, the archive of a capped run differs from the model's: not modelled)
        sc = Scenario(ctx, kind, prior, rm, cs, ki)
        ctx.hit("plan:" + sc.name)
        t0 = time.time()
        explore(sc, cfg, [], R.Snapshot(), None, budget, modes, depth, chain_points=chains)
        ctx.notes.setdefault("plan_seconds", {})[sc.name] = round(time.time() - t0, 1)
    database_route_check(ctx)
    force_overwrite_check(ctx)
    real_kill_check(ctx, 1 if quick else 6)
    ctx.notes["known_witness_not_reproduced"] = sorted(
        k["id"] for k in ctx.known if k.get("status") == "known" and k["id"] not in ctx.known_hits)


def replay(ctx, payload):
    case = payload if "history" in payload else (
        payload.get("case") or payload.get("disagreements", [{}])[0].get("case"))
    if case.get("route") == "force-pickle-overwrite":
        force_overwrite_check(ctx)
        print(json.dumps({"failures": ctx.failures[:3]}, default=str)[:3000])
        return
    if case.get("route") == "database":
        database_route_check(ctx)
        print(json.dumps({"failures": ctx.failures[:3]}, default=str)[:3000])
        return
    cfg, _ = probe_flags(ctx)
    ctx.failures.clear()  # report what the replayed history does, not the flag probes
    ctx.known_hits.clear()
    replay_history(scenario_of(ctx, case), cfg, case["history"])
    print(json.dumps({"failures": ctx.failures[:3], "disagreements": ctx.disagreements[:3]}, default=str)[:3000])
