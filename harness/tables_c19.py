#!/usr/bin/env python
"""Translator part of C19: regenerate lean/AFModel/Generated/C19.lean from the repository's *current*
migration step list and mapped schema (run by harness/run.py before every build).

  steps, revIds : autofit.database.migration.steps.migrator (statements parsed, md5 ids as computed by the code)
  orm           : Base.metadata (tables/columns the mapped classes read and write)
  base          : the oldest historic schema (mapped schema minus everything the pinned history adds)
  historyRevIds : pinned revision ids (harness/c19_history.json) that databases in the field may carry
  variants      : every historic database shape the harness builds (created at revision k / migrated to k /
                  created by today's create_all, with and without the junk column)
A statement the parser does not cover makes this script fail: the tie is then reported broken."""
import logging
import sqlite3
import sys
import warnings
from pathlib import Path

warnings.filterwarnings("ignore")
logging.disable(logging.CRITICAL)
HERE = Path(__file__).resolve().parent
sys.path.insert(0, str(HERE))

import c19_lib as L  # noqa: E402

OUT = HERE.parent / "lean" / "AFModel" / "Generated" / "C19.lean"


def q(s):
    assert '"' not in s and "\\" not in s, s
    return '"' + s + '"'


def lst(xs):
    return "[" + ", ".join(xs) + "]"


def lean_stmt(st):
    if st["k"] == "add":
        return f'.addColumn {q(st["t"])} {q(st["c"])}'
    if st["k"] == "create":
        return f'.createTable {q(st["t"])} {lst([q(c) for c in st["cols"]])}'
    if st["k"] == "rename":
        return f'.renameColumn {q(st["t"])} {q(st["a"])} {q(st["b"])}'
    if st["k"] == "drop":
        return f'.dropColumn {q(st["t"])} {q(st["c"])}'
    raise ValueError(st)


def lean_schema(s, indent="  "):
    return "[\n" + ",\n".join(f"{indent}  ({q(t)}, {lst([q(c) for c in cols])})" for t, cols in s) + "]"


def variants(Base, history):
    """name -> (rich schema or None, extra SQL applied after creation)"""
    n = len(history["steps"])
    keep = tuple(history["orm_created_with"]["keep"])
    out = []
    for k in range(n + 1):
        out.append((f"A{k}", L.historic_rich(Base, history, k), []))
    for k in range(n + 1):
        kept = tuple(s for s in keep if s > k)
        if kept and L.names_of(L.historic_rich(Base, history, k, keep=kept)) != L.names_of(L.historic_rich(Base, history, k)):
            out.append((f"K{k}", L.historic_rich(Base, history, k, keep=kept), []))
    base = L.historic_rich(Base, history, 0)
    for k in range(1, n + 1):
        sql = [s for st in history["steps"][:k] for s in st["strings"]]
        out.append((f"B{k}", base, sql))
    out.append(("F", L.orm_rich(Base), []))
    junk = [s for st in history["steps"] for s in st["strings"] if L.parse_stmt(s)["k"] == "add" and any(
        L.parse_stmt(x)["k"] == "rename" and L.parse_stmt(x)["a"] == L.parse_stmt(s)["c"] for y in history["steps"] for x in y["strings"])]
    out.append(("FJ", L.orm_rich(Base), junk))
    return out


def variant_rev(name, history):
    """pinned revision a database of this shape is stamped with (when it is stamped at all)"""
    if name in ("F", "FJ"):
        return int(history["legacy_latest"])
    return int(name[1:])


def materialise(rich, extra_sql, path=":memory:"):
    c = sqlite3.connect(path)
    for s in L.create_sql(rich):
        c.execute(s)
    for s in extra_sql:
        try:
            c.execute(s)
        except sqlite3.OperationalError:
            pass  # as Migrator.migrate does
    c.commit()
    return c


def names_from_conn(c):
    out = []
    for (name,) in c.execute("select name from sqlite_master where type='table' order by rowid"):
        out.append([name, [r[1] for r in c.execute(f'pragma table_info("{name}")')]])
    return out


# the mapped classes each current feature of the property goes through when it is used through the API
# (`Aggregator.from_database(...).fits` loads `Fit` and, through it, rows of the polymorphic `Object` table); the
# tables/columns a feature needs are then read from the classes' mappers (joined inheritance included). The
# choice of classes is validated on every run: harness/c19.py uses every feature on real files, migrated and
# not, and compares success with the model's `usable`.
FEATURE_BASE = ("Fit", "Object")
FEATURE_CLASSES = {
    "naming": (),
    "max_log_likelihood": (),
    "named_instance": ("NamedInstance", "Instance"),
    "json": ("JSON",),
    "array": ("Array",),
    "hdu": ("HDU",),
    "latent_samples": ("Array",),
}


def feature_needs():
    """[(feature, [(table, column)])]: what the mapped classes of each feature select / insert"""
    import sqlalchemy as sa
    from autofit import database as db

    def cols(clsname):
        cls = getattr(db, clsname, None) or getattr(db.model, clsname)
        m = sa.inspect(cls)
        return {(c.table.name, c.name) for t in m.tables for c in t.columns} | {(c.table.name, c.name) for c in m.columns}

    out = []
    for f, classes in FEATURE_CLASSES.items():
        need = set()
        for c in FEATURE_BASE + tuple(classes):
            need |= cols(c)
        out.append((f, sorted(need)))
    return out


def main():
    from autofit.database import Base
    from autofit.database.migration.steps import migrator

    history = L.load_history()
    steps = []
    for s in migrator._steps:
        steps.append((s.id, [L.parse_stmt(x) for x in s.strings]))
    rev_ids = [r.id for r in migrator.revisions]
    orm = L.names_of(L.orm_rich(Base))
    base = L.names_of(L.historic_rich(Base, history, 0))
    vs = []
    for name, rich, extra in variants(Base, history):
        c = materialise(rich, extra)
        vs.append((name, names_from_conn(c)))
        c.close()

    o = []
    o.append("-- generated by harness/tables_c19.py from the repository's working tree; do not edit")
    o.append("import AFModel.Migrate")
    o.append("")
    o.append("namespace AF.Migrate.Generated")
    o.append("")
    o.append("def steps : List Step := [")
    o.append(",\n".join(f"  ⟨{q(i)}, {lst([lean_stmt(st) for st in sts])}⟩" for i, sts in steps) + "]")
    o.append("")
    o.append("def revIds : List String := " + lst([q(r) for r in rev_ids]))
    o.append("")
    o.append("def table : Table := ⟨steps, revIds⟩")
    o.append("")
    o.append("/-- revision ids databases in the field may carry (pinned: harness/c19_history.json) -/")
    o.append("def historyRevIds : List String := " + lst([q(r) for r in history["revision_ids"]]))
    o.append("")
    o.append("/-- tables/columns the mapped classes use (`Base.metadata`) -/")
    o.append("def orm : Schema := " + lean_schema(orm))
    o.append("")
    o.append("/-- the oldest historic schema -/")
    o.append("def base : Schema := " + lean_schema(base))
    o.append("")
    o.append("/-- every historic database shape the harness builds -/")
    o.append("def variants : List (String × Nat × Schema) := [")
    o.append(",\n".join(f"  ({q(n)}, {variant_rev(n, history)}, {lean_schema(s, '  ')})" for n, s in vs) + "]")
    o.append("")
    o.append("/-- tables/columns each current feature needs (the mappers of the classes it goes through) -/")
    o.append("def features : List (String × List (String × String)) := [")
    o.append(",\n".join(f"  ({q(f)}, {lst(['(' + q(t) + ', ' + q(c) + ')' for t, c in need])})" for f, need in feature_needs()) + "]")
    o.append("")
    o.append("end AF.Migrate.Generated")
    text = "\n".join(o) + "\n"
    OUT.parent.mkdir(parents=True, exist_ok=True)
    if not OUT.exists() or OUT.read_text() != text:
        OUT.write_text(text)


if __name__ == "__main__":
    main()
