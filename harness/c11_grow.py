"""C11, grown part: (a) every search's persisted settings can be read back - the constructor chains of the search
classes (regenerated from the source, `tables_c11.py`) against the Lean binding model `AF.SearchSig.call`, beside the
real `from_dict(to_dict(search))`; (b) which file of a fit's directory reaches which database column - the writer's file
names and the reader's lookups (regenerated from the source) against `AF.FitFiles`, beside real directories written
with the writer API and loaded with `Aggregator.add_directory`.

Called from `c11.run` (`run_growth(ctx)`)."""
import contextlib
import io
import json
import linecache
import os
import shutil
import tempfile
from pathlib import Path

import numpy as np

from common import scratch_dir
import tables_c11

import autofit as af
from autoconf.dictable import from_dict, to_dict, get_arguments

JUNK = ("zz_unknown", "n_live_points", "number_of_cores", "session", "paths", "visualize")


# ---------------------------------------------------------------------------------------------
# (a) constructor chains


def bare(row):
    return {k: row[k] for k in ("cls", "chain", "idf", "candidates", "absent")}


def real_outcome(fn):
    """(kind, message) of calling a constructor: ok / unexpected / multiple / missing / other"""
    try:
        fn()
    except TypeError as e:
        msg = str(e)
        if "unexpected keyword argument" in msg:
            return "unexpected", msg
        if "multiple values for keyword argument" in msg:
            return "multiple", msg
        if "missing" in msg and "required" in msg:
            return "missing", msg
        return "other", msg
    except Exception as e:  # the binding succeeded, the constructor body raised
        return "other", f"{type(e).__name__}: {e}"
    return "ok", ""


def same_outcome(model, real):
    kind, msg = real
    if kind == "other":
        return True
    if model[0] != kind:
        return False
    if kind == "ok":
        return True
    return f"'{model[2]}'" in msg and (kind == "missing" or model[1] == "object" or model[1] in msg)


def stale(ctx, what, fresh, compiled):
    """the compiled table differs from the source: with P (tables regenerated before the build) the tie is broken;
    in a --no-proof run the table is simply not regenerated - the fresh rows are used on the wire either way"""
    if fresh == compiled:
        ctx.hit(f"table-fresh:{what}")
        return
    if getattr(ctx, "proof", None) is not None:
        ctx.disagree(f"C11.generated-table.stale:{what}", {"table": what}, fresh, compiled)
    else:
        ctx.hit(f"table-stale-no-proof:{what}")
        ctx.notes.setdefault("stale_tables_no_proof_run", []).append(what)


def search_classes():
    from autofit.non_linear.search.abstract_search import NonLinearSearch
    import inspect
    out = {}
    for name in sorted(dir(af)):
        cls = getattr(af, name)
        if inspect.isclass(cls) and issubclass(cls, NonLinearSearch) and cls is not NonLinearSearch and cls.__name__ == name:
            out[name] = cls
    return out


def sig_part(ctx, table):
    fresh = tables_c11.search_rows()
    stale(ctx, "searchSigTable", [bare(r) for r in fresh], [bare(r) for r in table["searches"]])
    classes = search_classes()
    if sorted(classes) != sorted(r["cls"] for r in fresh):
        ctx.disagree("C11.sig.classes", {}, sorted(classes), sorted(r["cls"] for r in fresh))
    for row in fresh:
        cls = classes[row["cls"]]
        case = {"search_class": row["cls"]}
        ans = ctx.lean.ask({"p": "C11", "q": "sig_row", "row": bare(row)})
        if "driver_error" in ans:
            ctx.disagree("driver-sig-row", case, None, ans)
            continue
        ctx.case({"sig": row["cls"]}, nontrivial=len(row["chain"]) >= 2, sample=None)
        inst = cls()
        d = to_dict(inst)
        real_keys = sorted(d["arguments"])
        if sorted(ans["keys"]) != real_keys:
            ctx.disagree("C11.sig.keys", case, real_keys, sorted(ans["keys"]))
        real_args = sorted(get_arguments(cls))
        if sorted(ans["get_arguments"]) != real_args:
            ctx.disagree("C11.sig.get_arguments", case, real_args, sorted(ans["get_arguments"]))
        # the property's last sentence, on the real code: the persisted settings are read back
        real = real_outcome(lambda: from_dict(json.loads(json.dumps(d))))
        if real[0] not in ("ok",):
            ctx.fail("C11-search-json-" + row["cls"], f"the persisted settings of {row['cls']} cannot be read back",
                     {"search": {"cls": row["cls"], "kw": {}}}, real[1][:200])
        if not same_outcome(ans["read_back"], real):
            ctx.disagree("C11.sig.read_back", case, real, ans["read_back"])
        if real[0] == "ok" and not ans["absorbing"]:
            ctx.hit("sig:not-absorbing")
        # any set of keys: bound like Python binds it
        for _ in range(ctx.n(2, 12)):
            keys = [k for k in real_keys if ctx.rng.random() < 0.6]
            keys += [k for k in JUNK if ctx.rng.random() < 0.25 and k not in keys]
            ctx.rng.shuffle(keys)
            kw = {k: (getattr(inst, k, None) if k not in ("session",) else None) for k in keys}
            if "zz_unknown" in kw:
                kw["zz_unknown"] = 1
            if "number_of_cores" in kw and not isinstance(kw["number_of_cores"], int):
                kw["number_of_cores"] = 1
            real = real_outcome(lambda: cls(**kw))
            a2 = ctx.lean.ask({"p": "C11", "q": "sig_call", "chain": row["chain"], "keys": keys})
            ctx.hit("sig-call:" + real[0])
            if "driver_error" in a2 or not same_outcome(a2["outcome"], real):
                ctx.disagree("C11.sig.call", dict(case, keys=keys), real, a2)


NAMES = ("a", "b", "c", "d", "e")


def gen_chain(rng):
    """a random single-inheritance chain of constructors with known signatures (ground truth for the translator)"""
    depth = rng.randint(1, 4)
    chain = []
    for i in range(depth):
        params = [n for n in NAMES if rng.random() < 0.5]
        required = [p for p in params if rng.random() < 0.12]
        params = required + [p for p in params if p not in required]
        varkw = rng.random() < 0.8
        last = i == depth - 1
        calls = (not last) or rng.random() < 0.4
        explicit = [n for n in NAMES if rng.random() < 0.35] if calls and not last else []
        forwards = varkw and calls and rng.random() < 0.85
        dropped = [n for n in NAMES if rng.random() < 0.2] if forwards and rng.random() < 0.4 else []
        chain.append({"cls": f"K{i}", "params": params, "required": required, "varkw": varkw, "explicit": explicit,
                      "forwards": forwards, "dropped": dropped, "_calls": calls})
    return chain


def chain_source(chain, style):
    src = []
    for i in reversed(range(len(chain))):
        s = chain[i]
        base = f"K{i + 1}" if i + 1 < len(chain) else "object"
        args = ["self"] + [p if p in s["required"] else f"{p}=None" for p in s["params"]] + (["**kw"] if s["varkw"] else [])
        src.append(f"class K{i}({base}):")
        src.append(f"    def __init__({', '.join(args)}):")
        body = ["        self.seen = True"]
        for k in s["dropped"]:
            body.append(f"        kw.pop({k!r}, None)")
        if s["_calls"]:
            call_args = [f"{k}={k if k in s['params'] else 1}" for k in s["explicit"]] + (["**kw"] if s["forwards"] else [])
            if style == 1 and base != "object":
                body.append(f"        {base}.__init__(self, {', '.join(call_args)})" if call_args else f"        {base}.__init__(self)")
            else:
                body.append(f"        super().__init__({', '.join(call_args)})")
        src += body
        src.append("")
    return "\n".join(src) + "\n"


def synthetic_part(ctx, uid):
    """the binding model against the Python interpreter on random constructor chains, and the translator
    (`tables_c11.chain_of`) against the chain the source was generated from"""
    truth = gen_chain(ctx.rng)
    style = ctx.rng.randint(0, 1)
    src = chain_source(truth, style)
    fn = f"<c11-synthetic-{os.getpid()}-{uid}>"
    linecache.cache[fn] = (len(src), None, src.splitlines(True), fn)
    ns = {}
    exec(compile(src, fn, "exec"), ns)
    cls = ns["K0"]
    got, _ = tables_c11.chain_of(cls)
    want = [{k: v for k, v in s.items() if not k.startswith("_")} for s in truth]
    case = {"synthetic_chain": want, "style": style}
    ctx.case(case, nontrivial=len(want) >= 2, sample=None)
    if got != want:
        ctx.disagree("C11.sig.translator", case, got, want)
        return
    for _ in range(3):
        keys = [n for n in NAMES + ("zz",) if ctx.rng.random() < 0.45]
        ctx.rng.shuffle(keys)
        real = real_outcome(lambda: cls(**{k: 1 for k in keys}))
        ans = ctx.lean.ask({"p": "C11", "q": "sig_call", "chain": want, "keys": keys})
        ctx.hit("synthetic-call:" + real[0])
        if "driver_error" in ans or not same_outcome(ans["outcome"], real):
            ctx.disagree("C11.sig.call-synthetic", dict(case, keys=keys), real, ans)
        if ans.get("absorbing") and real[0] not in ("ok", "other"):
            ctx.disagree("C11.sig.absorbing", dict(case, keys=keys), real, ans)


# ---------------------------------------------------------------------------------------------
# (b) files of a fit directory


def ref(rel):
    d, stem, ext = tables_c11.split_ref(rel)
    return [d, stem, ext]


def lookup_rows(readers):
    out = []
    for c, k, r in readers:
        kind, _ = tables_c11.lookup(k, r)
        if kind == "file":
            out.append({"consumer": c, "kind": kind, "file": ref(r)})
        else:
            parts = list(Path(r).parts)
            out.append({"consumer": c, "kind": kind, "file": [parts[:-1], "" if kind != "other" else parts[-1], parts[-1][1:] if kind == "rglob" else ""]})
    return out


# what each writer call's files must be read by (the property sentence: the row holds what the directory holds),
# re-stated independently of the Lean `mustReach`
REQUIRED = {
    ("save_all", "metadata"): ["from_directory.fit"],
    ("save_all", "files/search.json"): ["search"],
    ("save_all", "files/model.json"): ["model"],
    ("save_all", "files/info.json"): ["info"],
    ("save_samples", "files/samples.csv"): ["samples"],
    ("save_samples", "files/samples_info.json"): ["samples"],
    ("completed", ".completed"): ["is_complete"],
    ("save_unique_tag", ".is_grid_search"): ["from_directory.grid"],
    ("child.save_parent_identifier", ".parent_identifier"): ["parent_identifier"],
}
REQUIRED_BY_CALL = {"save_json": "jsons", "save_json_prefix": "jsons", "save_object": "pickles", "save_array": "arrays",
                    "save_fits": "hdus", "save_samples_summary": "jsons", "combined.save_attributes": "child_analyses/jsons",
                    "save_latent_samples": "latent_samples"}


def numeric_csv(p: Path):
    try:
        with contextlib.redirect_stderr(io.StringIO()):
            np.loadtxt(p, delimiter=",")
        return True
    except Exception:
        return False


def dir_files(d: Path):
    out = []
    for f in sorted(tables_c11.listing(d)):
        p = d / f
        out.append(ref(f) + [bool(p.suffix == ".csv" and numeric_csv(p))])
    return out


_FILE_ROWS = []


def tables_part(ctx, table):
    if not _FILE_ROWS:
        _FILE_ROWS.append(tables_c11.file_rows())
    writers, readers = _FILE_ROWS[0]
    fresh_w = [{"call": a, "file": ref(f)} for a, f in writers]
    fresh_r = lookup_rows(readers)
    stale(ctx, "writerFiles", fresh_w, [{"call": w["call"], "file": w["file"]} for w in table["writer"]])
    stale(ctx, "readerLookups", fresh_r, table["reader"])
    ans = ctx.lean.ask({"p": "C11", "q": "files", "lookups": fresh_r, "files": [w["file"] + [False] for w in fresh_w]})
    if "driver_error" in ans:
        ctx.disagree("driver-files-table", {}, None, ans)
        return fresh_r
    for (call, f), per in zip(writers, ans["per_file"]):
        need = REQUIRED.get((call, f)) or ([REQUIRED_BY_CALL[call]] if call in REQUIRED_BY_CALL else [])
        ctx.hit("writer-file:" + call)
        missing = [c for c in need if c not in per["consumers"]]
        if missing:
            # the writer's name for this file is not the name the reader asks for: checked on the real code below
            # (every generated directory holds these files); here the tables alone say so
            ctx.notes.setdefault("writer_file_without_reader", []).append([call, f, missing])
            ctx.hit("writer-file-unread")
    return fresh_r


WORDS = ("alpha", "beta", "gamma", "delta", "eps", "zeta", "data", "meta", "samples", "latent_samples", "covariance", "info", "x1")


def gen_dir_spec(rng, uid=0):
    def name():
        n = rng.choice(WORDS)
        return n if rng.random() < 0.8 else n + rng.choice(("_2", ".v", "-b"))

    def prefix():
        r = rng.random()
        return [] if r < 0.5 else [rng.choice(("sub", "latent", "deep"))] if r < 0.85 else [rng.choice(("sub", "deep")), rng.choice(("er", "latent"))]

    user = []
    for _ in range(rng.randint(0, 5)):
        kind = rng.choice(("json", "json", "pickle", "csv", "fits"))
        pre = prefix() if kind in ("json", "pickle", "fits") else []
        nm = name()
        if kind != "json" and not pre and nm in ("info", "model"):
            nm = nm + "_u"  # known finding C11-user-file-named-like-accessor (corpus case, every run)
        if kind == "csv" and nm == "samples":
            nm = "samples_u"  # save_array("samples") would overwrite the samples table itself
        user.append({"kind": kind, "pre": pre, "name": nm, "value": rng.randint(0, 9)})
    # every case holds a file below a prefix (kind by turns) and a table, whatever the dice say
    forced_kind = ("json", "pickle", "fits")[uid % 3]
    user.insert(0, {"kind": forced_kind, "pre": [rng.choice(("sub", "deep"))] + ([rng.choice(("er", "latent"))] if uid % 2 else []),
                    "name": rng.choice(WORDS[:8]), "value": rng.randint(0, 9)})
    user.insert(1, {"kind": "csv", "pre": [], "name": rng.choice(WORDS[:8] + ("covariance",)), "value": rng.randint(0, 9)})
    seen, uniq = set(), []
    for u in user:
        k = (u["kind"], tuple(u["pre"]), u["name"])
        if k not in seen:
            seen.add(k)
            uniq.append(u)
    return {
        "user": uniq,
        "info": rng.random() < 0.6,
        "samples": rng.random() < 0.75,
        "latent": rng.random() < 0.3,
        "summary": rng.random() < 0.5,
        "completed": rng.random() < 0.6,
        "analyses": rng.choice((0, 0, 1, 2)),
        "decoys": [d for d in ("files/notes.txt", "files/sub/old.json.bak", "files/table.csv.gz", "extra.json", "files/text.csv")
                   if rng.random() < 0.3],
    }


def write_dir(spec, uid):
    """a fit directory written with the writer API alone (no search is run)"""
    from autofit.non_linear.samples import Sample
    from autofit.non_linear.samples.samples import Samples
    import c11lib

    model = af.Model(af.ex.Gaussian)
    search = c11lib.ScriptedSearch(name=f"fk{uid}", path_prefix=f"c11_files_{os.getpid()}_{uid}", script_seed=uid)
    paths = search.paths
    paths.model = model
    paths.search = search
    root = Path(paths.output_path)
    top = root.parent.parent
    shutil.rmtree(top, ignore_errors=True)
    sl = Sample.from_lists(model=model, parameter_lists=[[1.0, 2.0, 3.0], [1.5, 2.5, 3.5]], log_likelihood_list=[-1.0, -2.0],
                           log_prior_list=[0.0, 0.0], weight_list=[1.0, 1.0])
    samples = Samples(model=model, sample_list=sl, samples_info={"total_iterations": 2, "time": None})
    paths.save_all(info={"k": 1, "z": "w"} if spec["info"] else None)
    if spec["samples"]:
        paths.save_samples(samples)
    if spec["latent"]:
        paths.save_latent_samples(samples)
    if spec["summary"]:
        paths.save_samples_summary(samples.summary())
    written = []
    for u in spec["user"]:
        pre = "/".join(u["pre"])
        if u["kind"] == "json":
            val = {"v": u["value"], "n": u["name"]}
            paths.save_json(u["name"], val, prefix=pre)
            rel = paths._path_for_json(u["name"], pre)
        elif u["kind"] == "pickle":
            val = [u["value"], u["name"]]
            paths.save_object(u["name"], val, prefix=pre)
            rel = paths._path_for_pickle(u["name"], pre)
        elif u["kind"] == "csv":
            val = np.array([[float(u["value"]), 1.5], [2.0, 3.0]])
            paths.save_array(u["name"], val)
            rel = paths._path_for_csv(u["name"])
        else:
            from astropy.io import fits
            val = np.full((2, 2), float(u["value"]))
            paths.save_fits(u["name"], fits.PrimaryHDU(val), prefix=pre)
            rel = paths._path_for_fits(u["name"], pre)
        written.append((u, val, Path(os.path.normpath(rel)).relative_to(root).as_posix()))
    if spec["analyses"]:
        combined = c11lib.Quad(attrs={"ca": 1})
        for i in range(spec["analyses"]):
            combined = combined + c11lib.Quad(attrs={"ca": i + 2})
        combined.save_attributes(paths)
    if spec["completed"]:
        paths.completed()
    for dcy in spec["decoys"]:
        p = root / dcy
        p.parent.mkdir(parents=True, exist_ok=True)
        p.write_text("not, a, number\n" if dcy.endswith(".csv") else "{}")
    return top, root, written, str(paths.identifier)


def names(objs):
    return sorted(o.name for o in objs)


def db_names(fit):
    """names held by a database fit, column by column (an HDU row is also listed among `arrays`: it is a kind of array)"""
    hdus = names(fit.hdus)
    return {"jsons": names(fit.jsons), "arrays": names(a for a in fit.arrays if type(a).__name__ != "HDU"),
            "pickles": names(fit.pickles), "hdus": hdus}


def files_case(ctx, uid, lookups, spec=None):
    from autofit.aggregator.search_output import SearchOutput
    from autofit.database.model import Fit

    spec = spec or gen_dir_spec(ctx.rng, uid)
    case = {"fit_directory": spec, "uid": uid}
    ctx.case(case, nontrivial=bool(spec["user"]) or spec["analyses"] > 0, sample=None)
    top, root, written, ident = write_dir(spec, uid)
    dbdir = Path(tempfile.mkdtemp(prefix="dbf_", dir=scratch_dir()))
    try:
        # where the writer puts a user file, and the dotted name the reader gives it
        for u, _, rel in written:
            a = ctx.lean.ask({"p": "C11", "q": "path_for", "kind": u["kind"], "pre": u["pre"], "name": u["name"]})
            want = ref(rel)
            if "driver_error" in a or a.get("file") != want:
                ctx.disagree("C11.files.path_for", dict(case, file=u), want, a)
        files = dir_files(root)
        ans = ctx.lean.ask({"p": "C11", "q": "files", "lookups": lookups, "files": files})
        if "driver_error" in ans:
            ctx.disagree("driver-files", case, None, ans)
            return
        # the reader's accessors on the directory
        so = SearchOutput(root)
        real_reader = {"jsons": names(so.jsons), "pickles": names(so.pickles), "hdus": names(so.hdus),
                       "arrays_found": names(so.arrays)}
        model_reader = {k: sorted(ans["db"][k]) for k in ("jsons", "pickles", "hdus")}
        model_reader["arrays_found"] = sorted(p["name"] for p in ans["per_file"] if "arrays" in p["consumers"])
        if real_reader != model_reader:
            ctx.disagree("C11.files.reader-names", case, real_reader, model_reader)
        real_flags = {"complete": bool(so.is_complete), "has_search": so.search is not None, "has_model": so.model is not None,
                      "has_info": so.value("info") is not None}
        try:
            real_flags["has_samples"] = so.samples is not None
        except AttributeError:
            real_flags["has_samples"] = False
        if any(u["kind"] != "json" and not u["pre"] and u["name"] in ("info", "model") for u in spec["user"]):
            real_flags.pop("has_info")  # outside the model's guard: known finding C11-user-file-named-like-accessor
        if any(not u["pre"] and u["name"] == "samples" for u in spec["user"]):
            real_flags.pop("has_samples")  # same fallback: without samples.csv `item.samples` is the user's file of that name
        model_flags = {k: ans["flags"][k] for k in real_flags}
        if real_flags != model_flags:
            ctx.disagree("C11.files.flags", case, real_flags, model_flags)
        # the database after add_directory
        reserved = [u for u in spec["user"] if u["kind"] != "json" and not u["pre"] and u["name"] in ("info", "model")]
        try:
            with contextlib.redirect_stdout(io.StringIO()):
                agg = af.Aggregator.from_database(str(dbdir / "f.sqlite"))
                agg.add_directory(str(top), completed_only=False)
        except Exception as e:
            if reserved:
                ctx.hit("known:user-file-named-like-accessor")
                ctx.fail("C11-user-file-named-like-accessor", "add_directory raises when a pickle / table / fits file saved into a fit's directory is called "
                         "`info` (no info.json) or `model`: SearchOutput.value(name) falls back on files of any kind", case, f"{type(e).__name__}: {e}"[:200])
            else:
                ctx.fail("C11-scrape-raises", "Aggregator.add_directory raises on a directory written with the writer API", case, f"{type(e).__name__}: {e}"[:300])
            return
        agg.session.expire_all()
        fits_ = agg.session.query(Fit).all()
        fit = next((f for f in fits_ if f.id == ident), None)
        if fit is None:
            ctx.fail("C11-id-not-written-identifier", "a fit directory written by DirectoryPaths is not loaded under its identifier",
                     case, sorted(f.id for f in fits_))
            return
        real_db = db_names(fit)
        model_db = {k: sorted(v) for k, v in ans["db"].items()}
        if real_db != model_db:
            ctx.disagree("C11.files.db-names", case, real_db, model_db)
        kids = sorted((f for f in fits_ if f.parent_id == ident), key=lambda f: f.id)
        real_kids = [db_names(k) for k in kids]
        model_kids = [{k: sorted(v) for k, v in c["db"].items()} for c in sorted(ans["children"], key=lambda c: c["dir"])]
        if real_kids != model_kids:
            ctx.disagree("C11.files.children", case, real_kids, model_kids)
        if bool(fit.is_complete) != ans["flags"]["complete"] or not ans["flags"]["is_fit"]:
            ctx.disagree("C11.files.db-flags", case, bool(fit.is_complete), ans["flags"])
        # the property, read directly on the real row: everything written through the writer API is there, equal
        if len(kids) != (spec["analyses"] + 1 if spec["analyses"] else 0):
            ctx.fail("C11-child-analyses", "the analyses of a combined fit are not all loaded as children", case, [k.id for k in kids])
        for k in kids:
            if "ca" not in names(k.jsons):
                ctx.fail("C11-child-analyses", "a file saved by an analysis of a combined fit is not loaded", case, names(k.jsons))
        if bool(fit.is_complete) != spec["completed"]:
            ctx.fail("C11-completion-flag", "completion flag of a loaded fit differs from the directory's", case, bool(fit.is_complete))
        info_overwritten = any(u["kind"] == "json" and not u["pre"] and u["name"] == "info" for u in spec["user"])
        if spec["info"] and not info_overwritten and dict(fit.info) != {"k": 1, "z": "w"} and {str(a): str(b) for a, b in fit.info.items()} != {"k": "1", "z": "w"}:
            ctx.fail("C11-info-lost", "info of a loaded fit differs from the directory's info.json", case, dict(fit.info))
        if spec["samples"] and (fit.samples is None or len(fit.samples.sample_list) != 2 or fit.max_log_likelihood != -1.0):
            ctx.fail("C11-samples-lost", "samples of a loaded fit differ from the directory's samples.csv", case, fit.max_log_likelihood)
        if fit.model is None or fit.name != f"fk{uid}":
            ctx.fail("C11-model-lost", "model / name of a loaded fit differ from the directory's model.json / search.json", case, fit.name)
        for u, val, rel in written:
            dotted = ".".join(u["pre"] + [u["name"]])
            ctx.hit("user-file:" + u["kind"])
            if u["kind"] == "csv" and dotted in ("samples", "latent_samples"):
                continue  # the scraper reserves these names (would be the samples table itself)
            try:
                # looked up in the column of its kind (two files of different kinds may share a dotted name)
                if u["kind"] == "json":
                    got = next(j.dict for j in fit.jsons if j.name == dotted)
                    okv = got == val
                elif u["kind"] == "pickle":
                    got = next(p.value for p in fit.pickles if p.name == dotted)
                    okv = got == val
                elif u["kind"] == "csv":
                    got = next(a.array for a in fit.arrays if a.name == dotted and type(a).__name__ != "HDU")
                    okv = np.array_equal(np.asarray(got), val)
                else:
                    got = next(h.hdu for h in fit.hdus if h.name == dotted)
                    okv = np.array_equal(np.asarray(got.data), val)
            except (StopIteration, AttributeError, KeyError) as e:
                okv, got = False, f"{type(e).__name__}"
            if not okv:
                ctx.fail("C11-user-file-lost", f"a {u['kind']} file saved into the fit's directory is not held by the loaded fit under its dotted name",
                         case, {"file": rel, "name": dotted, "got": str(got)[:100]})
        agg.session.close()
    finally:
        shutil.rmtree(top, ignore_errors=True)
        shutil.rmtree(dbdir, ignore_errors=True)


def run_growth(ctx):
    import time
    t0 = time.time()
    table = ctx.lean.ask({"p": "C11", "q": "sig_table"})
    if "driver_error" in table:
        ctx.disagree("driver-sig-table", {}, None, table)
        return
    sig_part(ctx, table)
    for i in range(ctx.n(25, 400)):
        synthetic_part(ctx, i)
    ctx.notes["t_search_signatures_s"] = round(time.time() - t0, 1)
    t0 = time.time()
    lookups = tables_part(ctx, table)
    for i in range(ctx.n(5, 60)):
        files_case(ctx, i, lookups)
    ctx.notes["t_fit_files_s"] = round(time.time() - t0, 1)


def replay_growth(ctx, case):
    table = ctx.lean.ask({"p": "C11", "q": "sig_table"})
    if "fit_directory" in case:
        lookups = tables_part(ctx, table)
        files_case(ctx, case.get("uid", 0), lookups, spec=case["fit_directory"])
    else:
        sig_part(ctx, table)
