"""Fixed library of user classes from which generated model compositions are built.

Every constructor stores its arguments under the same attribute names (the assumption the Lean
model `inst` makes about `cls(**kwargs)`)."""
from typing import Tuple


class P0:
    def __init__(self):
        pass


class P1:
    def __init__(self, a=0.0):
        self.a = a


class P2:
    def __init__(self, a=0.0, b=1.0):
        self.a = a
        self.b = b


class P3:
    def __init__(self, a=0.0, b=1.0, c=2.0):
        self.a = a
        self.b = b
        self.c = c


class T2:
    def __init__(self, pos=(0.0, 0.0), r=1.0):
        self.pos = pos
        self.r = r


class T12:
    def __init__(self, p=(0.0,) * 12, q=0.0):
        self.p = p
        self.q = q


class Nest:
    def __init__(self, inner: P2, k: float = 1.0):
        self.inner = inner
        self.k = k


class Deep:
    def __init__(self, left: Nest, right: P1, z=0.5):
        self.left = left
        self.right = right
        self.z = z


class Mode:
    def __init__(self, a=1.0, mode="x"):
        self.a = a
        self.mode = mode


class Lst:
    """a component holding a plain list (used fixed to an instance only: a table of values, a grid)"""

    def __init__(self, values=(0.0,), k=1.0):
        self.values = list(values)
        self.k = k


class Idx:
    """parameters whose names begin like names the library treats specially (`id`, `paths`, `cls`, `_`-free)"""

    def __init__(self, ideal=0.5, paths_n=1.0):
        self.ideal = ideal
        self.paths_n = paths_n


CLASSES = {c.__name__: c for c in (P0, P1, P2, P3, T2, T12, Nest, Deep, Mode, Lst, Idx)}


class P1b:
    """same constructor as P1, different class (identifier must tell them apart)"""

    def __init__(self, a=0.0):
        self.a = a


class P2b:
    def __init__(self, a=0.0, b=1.0):
        self.a = a
        self.b = b


CLASSES.update({"P1b": P1b, "P2b": P2b})


class Excl:
    """a class that de-selects one constructor argument from its identifier (the hook GridSearch uses)"""
    __exclude_identifier_fields__ = ("skip",)

    def __init__(self, alpha=1.0, beta=2.0, gamma=3.0, skip=0.0, delta=4.0, epsilon=5.0, zeta=6.0, eta=7.0):
        self.alpha = alpha
        self.beta = beta
        self.gamma = gamma
        self.skip = skip
        self.delta = delta
        self.epsilon = epsilon
        self.zeta = zeta
        self.eta = eta
