"""C10 — database queries return exactly the fits satisfying the predicate.

generate a database (fits with nested instances, fit attributes, info) in a real SQLite database through
SQLAlchemy x predicate trees over the aggregator's query objects (+ ordering + slicing)
  -> real `Aggregator.query(p).order_by(..)[a:b].fits`
  -> Lean `Query` model (`compile`, `sem`, `orderBy`, `sliceWindow`) on the same database / predicate
  -> oracle: the predicate evaluated directly, in Python, on the objects that were stored.
"""
import functools
import json
import operator
import sqlite3

from common import f2h, VERIF
import c10_sql

import autofit as af  # noqa: F401  (imports the library the way users do)
from autofit import database as db
from autofit.database.sqlalchemy_ import sa
from sqlalchemy import text

RULE = (
    "random databases (2-12 fits; nested instances of 5 user classes with lists, dicts, None, strings, missing "
    "attributes, varying classes; fit attributes name/unique_tag/path_prefix/is_complete/is_grid_search/"
    "max_log_likelihood incl. NULL; info dicts) in a real SQLite database through SQLAlchemy x random predicate "
    "trees (depth <= 4) over path comparisons (== != < <= > >= with numbers, strings, None, classes), fit-attribute "
    "(==, contains, in_, boolean) and info conditions under & | ~ with forced re-use of component names, "
    "x order_by chains x slice chains; non-trivial = the predicate has at least one & | ~ node and selects a "
    "non-empty proper subset of the fits; distinct = hash of (database, predicate, ordering, slices)"
)

FORBIDDEN_NAMES = {"name", "condition", "query", "tables", "fit_query", "other_condition", "tables_string"}
OPS = {"eq": operator.eq, "lt": operator.lt, "le": operator.le, "gt": operator.gt, "ge": operator.ge}


# ---------------------------------------------------------------------------------------------
# user classes stored as best-fit instances


class Gaussian:
    pass


class Exponential:
    pass


class Sersic:
    pass


class Galaxy:
    pass


class Tracer:
    pass


CLASSES = {c.__name__: c for c in (Gaussian, Exponential, Sersic, Galaxy, Tracer)}
BUILTIN = {"list": list, "tuple": tuple, "dict": dict}


def class_path(cls) -> str:
    if cls.__module__ == "builtins":
        return cls.__name__
    return f"{cls.__module__}.{cls.__name__}"


def class_of(name):
    return CLASSES.get(name) or BUILTIN[name]


# ---------------------------------------------------------------------------------------------
# instance descriptions (JSON-able)  <->  python objects  <->  wire objects
#
# desc := {"t":"num","v":x} | {"t":"str","v":s} | {"t":"none"} | {"t":"obj","cls":name,"kids":[[name,desc]..]}
#       | {"t":"list"|"tuple","items":[desc..]} | {"t":"dict","kids":[[key,desc]..]}


def py_of(d):
    t = d["t"]
    if t == "num":
        return d["v"]
    if t == "str":
        return d["v"]
    if t == "none":
        return None
    if t == "obj":
        o = CLASSES[d["cls"]]()
        for k, v in d["kids"]:
            setattr(o, k, py_of(v))
        return o
    if t in ("list", "tuple"):
        items = [py_of(v) for v in d["items"]]
        return items if t == "list" else tuple(items)
    if t == "dict":
        return {k: py_of(v) for k, v in d["kids"]}
    raise ValueError(t)


def wire_of_py(x):
    """the stored python object as the model's `Obj` (what the property calls the stored objects)"""
    if x is None:
        return {"k": "none"}
    if isinstance(x, bool):
        raise TypeError("bool not generated")
    if isinstance(x, (int, float)):
        return {"k": "num", "v": f2h(float(x))}
    if isinstance(x, str):
        return {"k": "str", "v": x}
    if isinstance(x, (list, tuple)):
        return {"k": "node", "cls": class_path(type(x)), "kids": [[str(i), wire_of_py(v)] for i, v in enumerate(x)]}
    if isinstance(x, dict):
        return {"k": "node", "cls": "dict", "kids": [[k, wire_of_py(v)] for k, v in x.items()]}
    return {"k": "node", "cls": class_path(type(x)), "kids": [[k, wire_of_py(v)] for k, v in x.__dict__.items()]}


def wire_aval(v):
    if v is None:
        return None
    if isinstance(v, bool):
        return {"b": v}
    if isinstance(v, str):
        return {"s": v}
    return {"n": f2h(float(v)), "t": c10_sql.num_text(v)}


ATTRS = ("id", "name", "unique_tag", "path_prefix", "is_complete", "is_grid_search", "max_log_likelihood")


def wire_fit(rec, inst, instance_id=0):
    return {
        "id": rec["id"],
        "instance_id": instance_id or 0,
        "inst": wire_of_py(inst),
        "attrs": [[a, wire_aval(rec.get(a))] for a in ATTRS],
        "info": [[k, v] for k, v in rec["info"].items()],
    }


# ---------------------------------------------------------------------------------------------
# generator: databases

NAME_POOL = ["g", "h", "lens", "src", "light", "mass", "bulge", "disk", "centre", "sigma", "n", "z", "kind", "extra", "ps"]
STR_POOL = ["sie", "nfw", "dev", "exp", "a", "b", "ab", "abc", "x1", "b2"]


def gen_num_pool(rng, exact_stream):
    k = rng.randint(2, 4)
    out = []
    for _ in range(k):
        r = rng.random()
        if r < 0.3:
            out.append(float(rng.randint(-3, 6)))
        elif r < 0.4:
            out.append(rng.randint(-3, 6))  # python int
        elif exact_stream:
            out.append(rng.uniform(-100, 100) if rng.random() < 0.7 else rng.random() * 10 ** rng.randint(-8, 8))
        else:
            out.append(round(rng.uniform(-10, 10), rng.randint(1, 3)))
    # no -0.0 among stored values: SQLite stores it as integer 0 and the sign does not come back
    return [v + 0.0 if isinstance(v, float) else v for v in out]


def gen_template(rng, depth, exact_stream, names=None):
    """a schema: list of (name, spec); spec carries the pools the per-fit values are drawn from"""
    n = rng.randint(2, 4) if depth > 0 else rng.randint(1, 3)
    names = rng.sample(NAME_POOL, n)
    out = []
    for name in names:
        r = rng.random()
        if depth > 0 and r < 0.45:
            out.append([name, {"t": "obj", "cls": rng.sample(list(CLASSES), 2), "kids": gen_template(rng, depth - 1, exact_stream)}])
        elif depth > 0 and r < 0.52:
            out.append([name, {"t": "dict", "kids": gen_template(rng, 0, exact_stream)}])
        elif depth >= 0 and r < 0.60:
            out.append([name, {"t": rng.choice(["list", "tuple"]), "items": [s for _, s in gen_template(rng, -1, exact_stream)]}])
        elif r < 0.85:
            out.append([name, {"t": "num", "pool": gen_num_pool(rng, exact_stream)}])
        elif r < 0.95:
            out.append([name, {"t": "str", "pool": rng.sample(STR_POOL, rng.randint(2, 3))}])
        else:
            out.append([name, {"t": "none"}])
    return out


def inst_of_spec(rng, spec):
    t = spec["t"]
    r = rng.random()
    # mutations: another kind at this place
    if r < 0.06:
        return {"t": "none"}
    if r < 0.09 and t != "str":
        return {"t": "str", "v": rng.choice(STR_POOL)}
    if r < 0.12 and t != "num":
        return {"t": "num", "v": float(rng.randint(0, 3))}
    if t == "num":
        return {"t": "num", "v": rng.choice(spec["pool"])}
    if t == "str":
        return {"t": "str", "v": rng.choice(spec["pool"])}
    if t == "none":
        return {"t": "none"}
    if t == "obj":
        cls = spec["cls"][0] if rng.random() < 0.7 else spec["cls"][1]
        kids = inst_kids(rng, spec["kids"])
        if not kids:  # an object without attributes cannot be stored (object.__getstate__() is None)
            kids = [["z", {"t": "num", "v": 0.0}]]
        return {"t": "obj", "cls": cls, "kids": kids}
    if t == "dict":
        return {"t": "dict", "kids": inst_kids(rng, spec["kids"])}
    if t in ("list", "tuple"):
        return {"t": t, "items": [inst_of_spec(rng, s) for s in spec["items"]]}
    raise ValueError(t)


def inst_kids(rng, kids):
    out = []
    for name, spec in kids:
        if rng.random() < 0.1:
            continue  # attribute missing in this fit
        out.append([name, inst_of_spec(rng, spec)])
    if rng.random() < 0.5:
        rng.shuffle(out)  # attribute order differs between fits
    return out


def gen_db(rng, exact_stream=False):
    # path length <= depth + 2; SQLite needs ~12x longer per extra nesting level of the generated
    # IN-subqueries (13 s for a 6-component path on 6 fits), so deep paths are kept rare
    depth = rng.choice([0, 1, 1, 1, 1, 1, 1, 1, 1, 2]) if rng.random() < 0.5 else 1
    template = gen_template(rng, depth, exact_stream)
    root_cls = rng.sample(list(CLASSES), 2)
    n = rng.randint(2, 12) if depth < 2 else rng.randint(2, 5)
    tags = rng.sample(STR_POOL, 3)
    names = rng.sample(["s1", "s2", "phase", "phase2", "fit"], 3)
    info_keys = rng.sample(["run", "set", "tag"], 2)
    fits = []
    for i in range(n):
        kids = inst_kids(rng, template)
        if not kids:
            kids = [["z", {"t": "num", "v": 0.0}]]
        inst = {"t": "obj", "cls": root_cls[0] if rng.random() < 0.8 else root_cls[1], "kids": kids}
        rec = {
            "id": f"f{i:02d}" if rng.random() < 0.7 else f"x{rng.randint(0, 999):03d}q{i}",
            "inst": inst,
            "name": rng.choice(names + [None]),
            "unique_tag": rng.choice(tags + [None, ""]),
            "path_prefix": rng.choice(["out/a", "out/b", "other", None]),
            "is_complete": rng.choice([True, False, None, True]),
            "is_grid_search": rng.choice([True, False, False, None]),
            "max_log_likelihood": rng.choice([None, float(rng.randint(-5, 5)), round(rng.uniform(-100, 0), 2) + 0.0, round(rng.uniform(-100, 0), 2) + 0.0]),
            "info": {k: rng.choice(STR_POOL[:4]) for k in info_keys if rng.random() < 0.7},
        }
        fits.append(rec)
    return {"fits": fits, "deep": depth >= 2}


# ---------------------------------------------------------------------------------------------
# generator: predicates
#
# pred := {"k":"path","names":[..],"op":..,"c":const,"ne":bool?} | {"k":"attr_eq","attr":a,"v":x|None}
#       | {"k":"contains"|"in","attr":a,"s":s} | {"k":"bool","attr":a} | {"k":"info","key":k,"value":v}
#       | {"k":"and"|"or","x":..,"y":..} | {"k":"not","x":..}
# const := {"k":"num","v":x} | {"k":"str","v":s} | {"k":"none"} | {"k":"cls","name":n}


def places(d, prefix=()):
    """every (path, desc) below the root of an instance description"""
    out = []
    kids = []
    if d["t"] == "obj" or d["t"] == "dict":
        kids = d["kids"]
    elif d["t"] in ("list", "tuple"):
        kids = [[str(i), v] for i, v in enumerate(d["items"])]
    for name, v in kids:
        p = prefix + (name,)
        out.append((p, v))
        out.extend(places(v, p))
    return out


def gen_const_for(rng, path, seen, exact_stream):
    """a comparison (op, const) for a path, biased to values stored there in some fit"""
    vals = seen.get(path, [])
    r = rng.random()
    v = rng.choice(vals) if vals and r < 0.85 else None
    if v is None:
        kind = rng.choice(["num", "str", "none", "cls"])
    else:
        kind = {"num": "num", "str": "str", "none": "none"}.get(v["t"], "cls")
        if rng.random() < 0.12:
            kind = rng.choice(["num", "str", "none", "cls"])
    if kind == "num":
        if v is not None and v["t"] == "num" and rng.random() < 0.8:
            c = v["v"]
            if rng.random() < 0.15:
                c = c + rng.choice([-1, 1, 0.5, -0.1])
            if rng.random() < 0.1 and float(c).is_integer():
                c = int(c)
        else:
            c = rng.choice([0, 1, 2.5, -1.0, round(rng.uniform(-10, 10), 2)])
        return rng.choice(["eq", "eq", "lt", "le", "gt", "ge"]), {"k": "num", "v": c}
    if kind == "str":
        s = v["v"] if v is not None and v["t"] == "str" and rng.random() < 0.8 else rng.choice(STR_POOL)
        return rng.choice(["eq", "eq", "eq", "lt", "le", "gt", "ge"]), {"k": "str", "v": s}
    if kind == "none":
        return "eq", {"k": "none"}
    if v is not None and v["t"] == "obj" and rng.random() < 0.7:
        name = v["cls"]
    elif v is not None and v["t"] in ("list", "tuple", "dict") and rng.random() < 0.7:
        name = v["t"]
    else:
        name = rng.choice(list(CLASSES) + ["list", "dict"])
    return "eq", {"k": "cls", "name": name}


def gen_leaf(rng, dbd, seen, pool, exact_stream, like_stream):
    r = rng.random()
    if r < 0.68 and pool:
        path = rng.choice(pool)
        if rng.random() < 0.06:
            path = path[:-1] + (rng.choice(NAME_POOL),)  # a path no fit has
        if rng.random() < 0.07:
            # the bare path as a predicate (`agg.model.g.centre`): the attribute exists
            k = rng.randint(1, len(path))
            return {"k": "path", "names": list(path[:k]), "op": "eq", "c": {"k": "any"}}
        op, c = gen_const_for(rng, path, seen, exact_stream)
        leaf = {"k": "path", "names": list(path), "op": op, "c": c}
        if op == "eq" and rng.random() < 0.15:
            leaf["ne"] = True  # written with != : the same as ~(==)
            return {"k": "not", "x": leaf}
        return leaf
    fits = dbd["fits"]
    f = rng.choice(fits)
    r = rng.random()
    if r < 0.25:
        a = rng.choice(["name", "unique_tag", "path_prefix", "id"])
        v = f[a] if rng.random() < 0.8 else rng.choice([None, "zz", "a"])
        return {"k": "attr_eq", "attr": a, "v": v}
    if r < 0.33:
        q = rng.random()
        if q < 0.3:
            # equality with a falsy right-hand side is an ordinary comparison, not a test for NULL
            return {"k": "attr_eq", "attr": rng.choice(["is_complete", "is_grid_search"]), "v": rng.choice([False, False, True])}
        if q < 0.4:
            return {"k": "attr_eq", "attr": "max_log_likelihood", "v": 0.0}
        if q < 0.5:
            return {"k": "attr_eq", "attr": rng.choice(["unique_tag", "name"]), "v": ""}
        v = f["max_log_likelihood"] if rng.random() < 0.8 else None
        return {"k": "attr_eq", "attr": "max_log_likelihood", "v": v}
    if r < 0.55:
        a = rng.choice(["name", "unique_tag", "path_prefix", "id"])
        src = f[a] or rng.choice(STR_POOL)
        i = rng.randint(0, len(src))
        j = rng.randint(i, len(src))
        s = src[i:j] if rng.random() < 0.85 else rng.choice(["q", "zz", ""])
        if like_stream and rng.random() < 0.5:
            s = rng.choice([s.upper() or "A", "_", "%", s[:1] + "_"])
        return {"k": "contains", "attr": a, "s": s}
    if r < 0.68:
        a = rng.choice(["name", "unique_tag", "path_prefix"])
        src = f[a] or rng.choice(STR_POOL)
        s = rng.choice(["", "pre "]) + src + rng.choice(["", " post", "x"]) if rng.random() < 0.8 else rng.choice(STR_POOL)
        if like_stream and rng.random() < 0.5:
            s = s.upper()
        return {"k": "in", "attr": a, "s": s}
    if r < 0.85:
        return {"k": "bool", "attr": rng.choice(["is_complete", "is_complete", "is_grid_search"])}
    if f["info"] and rng.random() < 0.8:
        k = rng.choice(list(f["info"]))
        return {"k": "info", "key": k, "value": f["info"][k] if rng.random() < 0.8 else rng.choice(STR_POOL[:4])}
    return {"k": "info", "key": rng.choice(["run", "set", "tag", "nokey"]), "value": rng.choice(STR_POOL[:4])}


def gen_pred(rng, dbd, seen, pool, depth, exact_stream=False, like_stream=False):
    if depth == 0 or rng.random() < 0.22:
        return gen_leaf(rng, dbd, seen, pool, exact_stream, like_stream)
    r = rng.random()
    if r < 0.22:
        return {"k": "not", "x": gen_pred(rng, dbd, seen, pool, depth - 1, exact_stream, like_stream)}
    k = "and" if r < 0.62 else "or"
    return {"k": k, "x": gen_pred(rng, dbd, seen, pool, depth - 1, exact_stream, like_stream),
            "y": gen_pred(rng, dbd, seen, pool, depth - 1, exact_stream, like_stream)}


def path_pool(rng, dbd):
    """a small pool of paths sharing component names, so that junctions merge named queries"""
    seen = {}
    for f in dbd["fits"]:
        for p, v in places(f["inst"]):
            if any(n in FORBIDDEN_NAMES or n.startswith("_") for n in p):
                continue
            seen.setdefault(p, []).append(v)
    paths = sorted(seen)
    if not paths:
        return seen, []
    pool = []
    # cluster around one or two first components
    firsts = sorted({p[0] for p in paths})
    chosen = rng.sample(firsts, min(len(firsts), rng.choice([1, 1, 2, 3])))
    cand = [p for p in paths if p[0] in chosen]
    k = min(len(cand), rng.randint(2, 6))
    pool = rng.sample(cand, k)
    return seen, pool


def gen_orders(rng):
    r = rng.random()
    if r < 0.35:
        return []
    cols = ["id", "name", "unique_tag", "path_prefix", "is_complete", "is_grid_search", "max_log_likelihood"]
    k = rng.choice([1, 1, 2, 2, 3])
    return [{"attr": a, "reverse": rng.random() < 0.4} for a in rng.sample(cols, k)]


def gen_slices(rng, n):
    if rng.random() < 0.4:
        return []
    out = []
    for _ in range(rng.choice([1, 1, 1, 2, 2, 3])):
        def bound():
            r = rng.random()
            if r < 0.25:
                return None
            if r < 0.75:
                return rng.randint(0, n + 1)
            return -rng.randint(1, n + 2)
        out.append([bound(), bound()])
    if rng.random() < 0.25:
        # a last slice with a step (answered from the loaded list): backwards, every other fit, ...
        out = out[:2] + [[bound(), bound(), rng.choice([-1, -1, -2, 2, 3, -3])]]
    return out


# ---------------------------------------------------------------------------------------------
# real code


class RealDb:
    def __init__(self, dbd, path=None):
        url = "sqlite://" if path is None else f"sqlite:///{path}"
        self.engine = sa.create_engine(url)
        self.session = sa.orm.sessionmaker(bind=self.engine)()
        db.Base.metadata.create_all(self.engine)
        self.objects = {}
        fits = []
        for rec in dbd["fits"]:
            inst = py_of(rec["inst"])
            self.objects[rec["id"]] = inst
            kw = {a: rec[a] for a in ATTRS if a != "id" and rec.get(a) is not None}
            fits.append(db.Fit(id=rec["id"], instance=inst, info=dict(rec["info"]), **kw))
        self.session.add_all(fits)
        self.session.commit()
        self.agg = db.Aggregator(self.session)
        # the tables as they really are (sent to the model, which evaluates the SQL's meaning on them)
        self.rows = []
        for oid, parent, name, typ, cp, v, sv in self.session.execute(text(
                "SELECT o.id, o.parent_id, o.name, o.type, o.class_path, v.value, sv.value FROM object o "
                "LEFT JOIN value v ON v.id = o.id LEFT JOIN string_value sv ON sv.id = o.id ORDER BY o.id")):
            if typ == "value":
                pl = {"k": "num", "v": f2h(float(v))}
            elif typ == "string_value":
                pl = {"k": "str", "v": sv}
            elif typ == "none":
                pl = {"k": "none"}
            else:
                pl = {"k": "inst", "cls": cp or ""}
            self.rows.append([oid, parent, name or "", pl])
        self.instance_ids = {fid: iid for fid, iid in self.session.execute(text("SELECT id, instance_id FROM fit"))}
        self.storage_checked = False

    def close(self):
        self.session.close()
        self.engine.dispose()


def const_py(c):
    k = c["k"]
    if k == "num":
        return c["v"]
    if k == "str":
        return c["v"]
    if k == "none":
        return None
    return class_of(c["name"])


LEAVES = {}
NOT_COUNT = [0]


def build(agg, p):
    """the predicate written with the aggregator's query objects, as a user would; a condition that occurs
    again (in this or a later query on the same aggregator) is the *same object*, as when a user names it
    (`bright = agg.model.x > 1; agg.query(~bright); agg.query(bright)`): query objects are values"""
    if p["k"] not in ("and", "or", "not"):
        key = (id(agg), json.dumps(p, sort_keys=True, default=str))
        if key not in LEAVES:
            if len(LEAVES) > 4000:
                LEAVES.clear()
            LEAVES[key] = _build(agg, p)
        return LEAVES[key]
    return _build(agg, p)


def _build(agg, p):
    k = p["k"]
    if k == "path":
        q = agg.model
        for n in p["names"]:
            q = getattr(q, n)
        if p["c"]["k"] == "any":
            return q
        c = const_py(p["c"])
        op = p["op"]
        if op == "eq":
            return q == c
        if op == "lt":
            return q < c
        if op == "le":
            return q <= c
        if op == "gt":
            return q > c
        return q >= c
    if k == "attr_eq":
        return getattr(agg.search, p["attr"]) == p["v"]
    if k == "contains":
        return getattr(agg.search, p["attr"]).contains(p["s"])
    if k == "in":
        return getattr(agg.search, p["attr"]).in_(p["s"])
    if k == "bool":
        return getattr(agg.search, p["attr"])
    if k == "info":
        return agg.info[p["key"]] == p["value"]
    if k == "not":
        x = p["x"]
        if x.get("k") == "path" and x.get("ne"):
            q = agg.model
            for n in x["names"]:
                q = getattr(q, n)
            return q != const_py(x["c"])
        inner = build(agg, x)
        NOT_COUNT[0] += 1
        if NOT_COUNT[0] % 2 == 0:
            # the condition was used in a query of its own before it is negated (query objects are values: what
            # ~p means does not depend on whether p was executed)
            try:
                len(agg.query(inner).fits)
            except Exception:  # noqa: what the positive query does is examined where it is the case
                pass
        return ~inner
    if k == "and":
        return build(agg, p["x"]) & build(agg, p["y"])
    if k == "or":
        return build(agg, p["x"]) | build(agg, p["y"])
    raise ValueError(k)


def failing_first_access(real, a):
    import sqlite3
    state = {"armed": True}

    def boom(conn, cursor, statement, parameters, context, executemany):
        if state["armed"] and statement.lstrip().upper().startswith("SELECT"):
            state["armed"] = False
            raise sqlite3.OperationalError("database is locked")

    sa.event.listen(real.engine, "before_cursor_execute", boom)
    try:
        try:
            len(a.fits)
        except Exception:  # noqa - the fault reaches the caller; nothing may be remembered from the failed attempt
            real.faulted = getattr(real, "faulted", 0) + 1
    finally:
        sa.event.remove(real.engine, "before_cursor_execute", boom)


def run_real(real, pred, orders, slices, chain_query):
    """-> dict(full=[ids], result=[ids]) or {"err": ..}"""
    agg = real.agg
    real.last_predicate = None
    try:
        a = agg
        # what a derived aggregator answers does not depend on whether its parents were already read
        real.touch = getattr(real, "touch", 0) + 1
        touch = real.touch % 3 == 0
        if touch:
            len(agg.fits)
        if pred is not None:
            if chain_query and pred["k"] == "and":
                a = a.query(build(agg, pred["x"])).query(build(agg, pred["y"]))
            elif chain_query:
                a = a(build(agg, pred))
            else:
                a = a.query(build(agg, pred))
        real.last_predicate = a._predicate  # the predicate object the aggregator holds (read by check_sql)
        if touch:
            len(a.fits)
        elif real.touch % 4 == 1:
            # a transient fault (the database locked by another writer) while the aggregator is read for the first
            # time: what the same aggregator answers afterwards is what it answers without the fault
            failing_first_access(real, a)
        for o in orders:
            a = a.order_by(getattr(agg.search, o["attr"]), reverse=o["reverse"])
        full = [f.id for f in a.fits]
        res = full
        if slices:
            b = a
            for sl in slices:
                b = b[sl[0]:sl[1]] if len(sl) == 2 else b[sl[0]:sl[1]:sl[2]]
            res = [f.id for f in (b if isinstance(b, list) else b.fits)]
        else:
            b = a
        out = {"full": full, "result": res}
        if not isinstance(b, list):
            out["views"] = aggregator_views(b)
        return out
    except Exception as e:  # the kind of exception is the observable
        return {"err": f"{type(e).__name__}: {str(e)[:200]}"}


def aggregator_views(b):
    """the other ways the API hands out the fits of an aggregator: len(), iteration, map(), comparison with a list"""
    return {"len": len(b), "iter": [f.id for f in b], "map": list(b.map(lambda f: f.id)), "eq_list": bool(b == list(b.fits))}


def check_views(ctx, case, impl):
    """`len(agg)`, `for fit in agg`, `agg.map(f)`, `agg == [fits]` present exactly the fits of `.fits`, each once, in
    the same order (the property through the rest of the aggregator's API)"""
    v = impl.get("views")
    if v is None:
        return
    res = impl["result"]
    ctx.hit("aggregator-views-compared")
    if v["len"] != len(res) or v["iter"] != res or v["map"] != res or not v["eq_list"]:
        ctx.fail("C10-aggregator-views", "len() / iteration / map() / == of an aggregator do not present exactly its fits",
                 case, {"fits": res, "views": v})


# ---------------------------------------------------------------------------------------------
# oracle: the predicate evaluated directly on the stored python objects


def follow(obj, names):
    for n in names:
        if isinstance(obj, dict):
            if n not in obj:
                return False, None
            obj = obj[n]
        elif isinstance(obj, (list, tuple)):
            if not n.isdigit() or int(n) >= len(obj):
                return False, None
            obj = obj[int(n)]
        elif obj is None or isinstance(obj, (int, float, str)):
            return False, None
        else:
            if n not in vars(obj):
                return False, None
            obj = getattr(obj, n)
    return True, obj


def direct(p, rec, inst):
    k = p["k"]
    if k == "path":
        ok, v = follow(inst, p["names"])
        if not ok:
            return False
        c = p["c"]
        if c["k"] == "any":
            return True
        if c["k"] == "num":
            return isinstance(v, (int, float)) and not isinstance(v, bool) and bool(OPS[p["op"]](v, c["v"]))
        if c["k"] == "str":
            return isinstance(v, str) and bool(OPS[p["op"]](v, c["v"]))
        if c["k"] == "none":
            return v is None
        return type(v) is class_of(c["name"])
    if k == "attr_eq":
        v = rec.get(p["attr"])
        if p["v"] is None:
            return v is None
        return v is not None and v == p["v"]
    if k == "contains":
        v = rec.get(p["attr"])
        return isinstance(v, str) and p["s"] in v
    if k == "in":
        v = rec.get(p["attr"])
        return isinstance(v, str) and v in p["s"]
    if k == "bool":
        return rec.get(p["attr"]) is True
    if k == "info":
        return rec["info"].get(p["key"]) == p["value"]
    if k == "not":
        return not direct(p["x"], rec, inst)
    if k == "and":
        return direct(p["x"], rec, inst) and direct(p["y"], rec, inst)
    if k == "or":
        return direct(p["x"], rec, inst) or direct(p["y"], rec, inst)
    raise ValueError(k)


def key_cmp(orders):
    def one(a, b):
        # NULL first, then by value
        if a is None and b is None:
            return 0
        if a is None:
            return -1
        if b is None:
            return 1
        return (a > b) - (a < b)

    def cmp(r1, r2):
        for o in orders:
            c = one(r1.get(o["attr"]), r2.get(o["attr"]))
            if o["reverse"]:
                c = -c
            if c:
                return c
        return 0

    return cmp


def total_order(orders, recs):
    if any(o["attr"] == "id" for o in orders):
        return True
    cmp = key_cmp(orders)
    s = sorted(recs, key=functools.cmp_to_key(cmp))
    return all(cmp(a, b) != 0 for a, b in zip(s, s[1:]))


# ---------------------------------------------------------------------------------------------
# classification of failing inputs

_sqlite = sqlite3.connect(":memory:")


def sqlite_misparses(x) -> bool:
    if isinstance(x, int):
        return False
    try:
        return _sqlite.execute(f"SELECT {x!r}").fetchone()[0] != x
    except Exception:
        return True


def walk_pred(p):
    yield p
    for k in ("x", "y"):
        if k in p and isinstance(p[k], dict):
            yield from walk_pred(p[k])


def has_misparsed_literal(pred):
    for q in walk_pred(pred or {}):
        if q.get("k") == "path" and q["c"]["k"] == "num" and sqlite_misparses(q["c"]["v"]):
            return True
        if q.get("k") == "attr_eq" and isinstance(q.get("v"), float) and sqlite_misparses(q["v"]):
            return True
    return False


def like_sensitive(pred, dbd):
    """LIKE is case-insensitive for ASCII and treats _ and % as wildcards: contains()/in_() on such text"""
    def odd(s):
        return isinstance(s, str) and (s != s.lower() or "_" in s or "%" in s)

    for q in walk_pred(pred or {}):
        if q.get("k") in ("contains", "in"):
            if odd(q["s"]) or any(odd(f.get(q["attr"])) for f in dbd["fits"]):
                return True
    return False


def negated_named_in_junction(pred):
    """a junction with a directly negated path condition beside another condition on the same first name"""
    for q in walk_pred(pred or {}):
        if q.get("k") in ("and", "or"):
            leaves = [l for l in walk_pred(q) if l.get("k") == "path"]
            firsts = [l["names"][0] for l in leaves]
            if any(n.get("k") == "not" for n in walk_pred(q)) and len(firsts) != len(set(firsts)):
                return True
    return False


def is_bare(p):
    return p.get("k") == "path" and p["c"]["k"] == "any"


def bare_path_in_or(pred):
    """an `|` with a bare path (`agg.model.g`, no comparison) among its alternatives"""
    def alternatives(q):
        if q.get("k") == "or":
            return alternatives(q["x"]) + alternatives(q["y"])
        return [q]

    for q in walk_pred(pred or {}):
        if q.get("k") == "or" and any(is_bare(a) for a in alternatives(q)):
            return True
    return False


def classify(pred, dbd, real, want_full):
    # (the recorded findings first: a predicate that also holds a bare path is judged by its LIKE / literal part)
    if has_misparsed_literal(pred):
        return "C10-sqlite-float-literal", "a float literal in the generated SQL is parsed by SQLite one ulp off, so the comparison misses"
    if like_sensitive(pred, dbd):
        return "C10-like-semantics", "contains()/in_() use SQL LIKE: case-insensitive, _ and % are wildcards"
    if bare_path_in_or(pred) and ("err" in real or sorted(real["full"]) != sorted(want_full)):
        return "C10-bare-path-in-or", "a bare path (the attribute exists) as an alternative of | raises or loses the alternative"
    if "err" in real:
        if real["err"].startswith("TypeError") and "unary ~" in real["err"]:
            return "C10-not-of-junction", "~ applied to an and/or combination raises TypeError"
        if "maximum of 2 tables" in real["err"]:
            return "C10-three-tables", "combining a number and a string comparison on one attribute raises AssertionError"
        return "C10-query-raises", "building or running the query raises"
    if sorted(real["full"]) != sorted(want_full):
        if negated_named_in_junction(pred):
            return "C10-negated-named-merge", "a negated path condition combined with another condition on the same component loses or misplaces its NOT"
        return "C10-wrong-fits", "the query does not return exactly the fits satisfying the predicate"
    return "C10-order-or-slice", "ordering or slicing is not honoured"


# ---------------------------------------------------------------------------------------------
# one case


def judge(dbd, real, pred, orders, slices, impl):
    """the property sentence evaluated on the real outputs -> (problems, ids that must be selected)"""
    recs = dbd["fits"]
    sel = [r for r in recs if pred is None or direct(pred, r, real.objects[r["id"]])]
    want_ids = [r["id"] for r in sel]
    total = total_order(orders, sel)
    cmp = key_cmp(orders)
    want_sorted = [r["id"] for r in sorted(sel, key=functools.cmp_to_key(cmp))] if orders else want_ids
    want_res = want_sorted
    for sl in slices:
        want_res = want_res[sl[0]:sl[1]] if len(sl) == 2 else want_res[sl[0]:sl[1]:sl[2]]
    by_id = {r["id"]: r for r in recs}
    problems = []
    if "err" in impl:
        problems.append(("raises", impl["err"]))
        return problems, want_ids
    full, res = impl["full"], impl["result"]
    if len(set(full)) != len(full):
        problems.append(("duplicate", full))
    if sorted(full) != sorted(want_ids):
        problems.append(("wrong-set", {"got": sorted(full), "want": sorted(want_ids)}))
    elif orders:
        rr = [by_id[i] for i in full]
        if any(cmp(a, b) > 0 for a, b in zip(rr, rr[1:])):
            problems.append(("not-sorted", full))
        if total and full != want_sorted:
            problems.append(("order", {"got": full, "want": want_sorted}))
    if slices and not any(p[0] in ("wrong-set", "duplicate") for p in problems):
        if total and orders:
            if res != want_res:
                problems.append(("slice", {"got": res, "want": want_res, "of": want_sorted}))
        else:
            # order not determined by the request: the window must have the right size and content
            if len(res) != len(want_res) or len(set(res)) != len(res) or not set(res) <= set(want_ids):
                problems.append(("slice-size", {"got": res, "want_len": len(want_res)}))
    return problems, want_ids


def still_fails(case, classifier):
    try:
        real = RealDb(case["db"])
    except Exception:
        return None
    try:
        impl = run_real(real, case["pred"], case["orders"], case["slices"], case.get("chain_query", False))
        problems, want = judge(case["db"], real, case["pred"], case["orders"], case["slices"], impl)
        if problems and classify(case["pred"], case["db"], impl, want)[0] == classifier:
            return problems
        return None
    finally:
        real.close()


def shrink(case, classifier, problems, budget=120):
    """structural delta debugging: drop fits, replace the predicate by sub-predicates, drop order keys / slices,
    drop attributes of the root objects - as long as the same kind of failure remains"""
    cur = json.loads(json.dumps(case))
    cur_problems = problems
    changed = True
    while changed and budget > 0:
        changed = False
        cands = []
        fits = cur["db"]["fits"]
        for i in range(len(fits)):
            if len(fits) > 1:
                cands.append(("db", {"fits": fits[:i] + fits[i + 1:]}))
        p = cur["pred"]
        if p is not None:
            for sub in sub_preds(p):
                cands.append(("pred", sub))
        for i in range(len(cur["orders"])):
            cands.append(("orders", cur["orders"][:i] + cur["orders"][i + 1:]))
        for i in range(len(cur["slices"])):
            cands.append(("slices", cur["slices"][:i] + cur["slices"][i + 1:]))
        for i, f in enumerate(fits):
            kids = f["inst"].get("kids", [])
            for j in range(len(kids)):
                if len(kids) > 1:
                    g = json.loads(json.dumps(f))
                    g["inst"]["kids"] = kids[:j] + kids[j + 1:]
                    cands.append(("db", {"fits": fits[:i] + [g] + fits[i + 1:]}))
        for key, val in cands:
            if budget <= 0:
                break
            budget -= 1
            trial = dict(cur)
            trial[key] = val
            pr = still_fails(trial, classifier)
            if pr:
                cur, cur_problems, changed = trial, pr, True
                break
    cur["label"] = str(case.get("label")) + "+shrunk"
    return cur, cur_problems


def sub_preds(p):
    """smaller predicates: a child in place of a node (at any depth)"""
    out = []
    k = p.get("k")
    if k in ("and", "or"):
        out += [p["x"], p["y"]]
        out += [dict(p, x=s) for s in sub_preds(p["x"])]
        out += [dict(p, y=s) for s in sub_preds(p["y"])]
    elif k == "not":
        if p["x"].get("k") in ("and", "or", "not"):
            out.append(p["x"])
        out += [dict(p, x=s) for s in sub_preds(p["x"])]
    return out


def pred_features(p):
    n = {"and": 0, "or": 0, "not": 0, "leaf": 0}
    for q in walk_pred(p or {}):
        k = q.get("k")
        if k in n:
            n[k] += 1
        elif k:
            n["leaf"] += 1
    return n


def probe_flags(ctx):
    """replay the two witnesses of the repaired defects on the real code -> observed Cfg"""
    dbd = {"fits": [
        {"id": f"w{i}", "inst": {"t": "obj", "cls": "Galaxy", "kids": [["g", {"t": "obj", "cls": "Gaussian", "kids": [
            ["centre", {"t": "num", "v": c}], ["sigma", {"t": "num", "v": s}]]}]]},
         "name": None, "unique_tag": None, "path_prefix": None, "is_complete": None, "is_grid_search": None,
         "max_log_likelihood": None, "info": {}}
        for i, (c, s) in enumerate([(1.0, 2.0), (3.0, 2.0), (1.0, 5.0), (4.0, 4.0), (0.0, 2.0)])]}
    real = RealDb(dbd)
    try:
        pred = {"k": "and", "x": {"k": "not", "x": {"k": "path", "names": ["g", "centre"], "op": "eq", "c": {"k": "num", "v": 1}}},
                "y": {"k": "path", "names": ["g", "sigma"], "op": "eq", "c": {"k": "num", "v": 2}}}
        r = run_real(real, pred, [], [], False)
        keeps = sorted(r.get("full", [])) == ["w1", "w4"]
        r = run_real(real, None, [{"attr": "id", "reverse": False}], [[1, 3]], False)
        window = r.get("result") == ["w1", "w2"]
        pred = {"k": "or", "x": {"k": "path", "names": ["g"], "op": "eq", "c": {"k": "any"}},
                "y": {"k": "path", "names": ["g", "centre"], "op": "eq", "c": {"k": "num", "v": 1}}}
        r = run_real(real, pred, [], [], False)
        bare = len(r.get("full", [])) == 5
    finally:
        real.close()
    return {"junctionKeepsNot": bool(keeps), "sliceWindow": bool(window), "bareNotMerged": bool(bare)}


def one_case(ctx, dbd, real, pred, orders, slices, chain_query=False, label="gen", cfg=None):
    cfg = cfg or ctx.notes.get("flags_observed") or {"junctionKeepsNot": True, "sliceWindow": True, "bareNotMerged": True}
    recs = dbd["fits"]
    case = {"db": dbd, "pred": pred, "orders": orders, "slices": slices, "chain_query": chain_query, "label": label}

    # ---- implementation
    impl = run_real(real, pred, orders, slices, chain_query)

    # ---- model
    req = {"p": "C10", "cfg": cfg, "db": [wire_fit(r, real.objects[r["id"]], real.instance_ids.get(r["id"])) for r in recs],
           "rows": real.rows, "pred": wire_pred(pred), "orders": orders, "slices": [sl for sl in slices if len(sl) == 2]}
    if slices and len(slices[-1]) == 3:
        req["step_slice"] = slices[-1]
    ans = ctx.lean.ask(req)
    if "driver_error" in ans:
        ctx.disagree("driver", case, None, ans)
        return

    check_sql(ctx, case, real, pred, ans, cfg)
    check_views(ctx, case, impl)

    # ---- oracle (independent of the model): the property sentence on the real outputs
    problems, want_ids = judge(dbd, real, pred, orders, slices, impl)
    total = total_order(orders, [r for r in recs if r["id"] in set(want_ids)])

    feats = pred_features(pred)
    nontrivial = (feats["and"] + feats["or"] + feats["not"] >= 1) and 0 < len(want_ids) < len(recs)
    ctx.case({"db": dbd, "pred": pred, "orders": orders, "slices": slices}, nontrivial=nontrivial,
             sample={"n_fits": len(recs), "first_instance": json.dumps(recs[0]["inst"])[:300], "predicate": pred_text(pred),
                     "orders": orders, "slices": slices, "selected": want_ids, "sql_shape": ans.get("render")})
    hits(ctx, ans.get("render", ""), feats, orders, slices, want_ids, recs)

    classified = None
    if problems:
        classified = classify(pred, dbd, impl, want_ids)
        status_known = any(k.get("status") == "known" and k.get("classifier") == classified[0] for k in ctx.known)
        shrunk = ctx.notes.setdefault("shrunk_failures", [])
        fail_case = case
        if not status_known and classified[0] not in shrunk and label != "replay":
            shrunk.append(classified[0])
            fail_case, problems = shrink(case, classified[0], problems)
        ctx.fail(classified[0], classified[1], fail_case,
                 {"problems": problems[:3], "predicate": pred_text(fail_case["pred"])})

    # ---- correspondence: model vs implementation
    known = classified is not None and classified[0] in ("C10-sqlite-float-literal", "C10-like-semantics", "C10-bare-path-in-or")
    if ans.get("fuel_ok") is False:
        ctx.disagree("C10.model-merge-depth", case, None, ans.get("render"))
    if ans.get("match") != ans.get("direct") and ans.get("wf") and cfg.get("junctionKeepsNot"):
        ctx.disagree("C10.model-compile-vs-direct", case, ans.get("match"), ans.get("direct"))
    if "err" in impl:
        if not known:
            ctx.disagree("C10.raises", case, impl, {"match": ans.get("match")})
        return
    if known:
        return
    if not all(ans.get("stored", [])) and not real.storage_checked:
        # the object table does not hold the objects that were stored: look for a query that shows it
        real.storage_checked = True
        bad = [r["id"] for r, ok in zip(recs, ans["stored"]) if not ok]
        ctx.disagree("C10.storage", {"db": dbd, "label": label}, {"fits_not_stored_as_given": bad}, None)
        if label != "storage-probe":
            probe_storage(ctx, dbd, real, bad)
    if sorted(impl["full"]) != sorted(ans["rows_match"]):
        ctx.disagree("C10.fits-on-real-rows", case, sorted(impl["full"]), sorted(ans["rows_match"]))
        return
    if sorted(impl["full"]) != sorted(ans["match"]):
        ctx.disagree("C10.fits", case, sorted(impl["full"]), sorted(ans["match"]))
        return
    if orders and total and impl["full"] != ans["full"]:
        ctx.disagree("C10.order", case, impl["full"], ans["full"])
        return
    if slices:
        if total and orders:
            if impl["result"] != ans["result"]:
                ctx.disagree("C10.slice", case, impl["result"], ans["result"])
        elif len(impl["result"]) != len(ans["result"]):
            ctx.disagree("C10.slice-size", case, impl["result"], ans["result"])


def check_sql(ctx, case, real, pred, ans, cfg):
    """the junctions as sets + the printed SQL: the text the real predicate object prints (`fit_query`, what
    `Aggregator.fits` executes, and `str()`, what `__eq__/__hash__/sorted` use) against the text the model prints
    from the query it compiled (`fitSql` / `sqlStr` of `compileSTop`), white space normalised, the conjuncts of a
    junction's fit_query (python set order) sorted on both sides"""
    if ans.get("fuel_ok_set") is False:
        ctx.disagree("C10.model-set-merge-depth", case, None, ans.get("render_set"))
    if ans.get("match_set") != ans.get("direct") and ans.get("wf") and cfg.get("junctionKeepsNot") and cfg.get("bareNotMerged", True):
        ctx.disagree("C10.model-set-compile-vs-direct", case, ans.get("match_set"), ans.get("direct"))
    if ans.get("dedup_agree") is False:
        # two different conditions print the same SQL: the code keeps one of them, the theorems keep both
        ctx.disagree("C10.dedup-by-text-vs-structure", case, None, ans.get("render_set"))
    q = getattr(real, "last_predicate", None)
    if q is None:
        return  # building the query raised: judged (and classified) from the run itself
    try:
        texts = {"sql": c10_sql.canon_sql(q.fit_query)}
        raw_str = str(q)
    except Exception:
        return
    try:
        texts["sql_str"] = c10_sql.canon_sql(raw_str)
    except c10_sql.Ambiguous:
        ctx.hit("sql-str-has-bare-junction-fit-query")
    ctx.hit("sql-text-compared")
    for k, clause in (("sql", "C10.sql-text"), ("sql_str", "C10.sql-str")):
        if k not in texts:
            continue
        model = c10_sql.canon_sql(ans.get(k, ""))
        if texts[k] != model:
            ctx.disagree(clause, case, texts[k], model)
            return


def probe_storage(ctx, dbd, real, bad_ids, limit=40):
    """failing-input search after a storage disagreement: one equality query per stored place of the bad fits"""
    n = 0
    for rec in dbd["fits"]:
        if rec["id"] not in bad_ids:
            continue
        for path, v in places(rec["inst"]):
            if n >= limit:
                return
            if any(x in FORBIDDEN_NAMES for x in path):
                continue
            t = v["t"]
            if t == "num":
                c = {"k": "num", "v": v["v"]}
            elif t == "str":
                c = {"k": "str", "v": v["v"]}
            elif t == "none":
                c = {"k": "none"}
            elif t == "obj":
                c = {"k": "cls", "name": v["cls"]}
            else:
                c = {"k": "cls", "name": t}
            n += 1
            one_case(ctx, dbd, real, {"k": "path", "names": list(path), "op": "eq", "c": c}, [], [], label="storage-probe")


def hits(ctx, render, feats, orders, slices, want_ids, recs):
    for tag, pat in (("merge-and", "(&["), ("merge-or", "(|["), ("named-not", "!"), ("complement-query", "~("),
                     ("junction-and", "&["), ("junction-or", "|["), ("leaf-value", "(V)"), ("leaf-string", "(S)"),
                     ("leaf-none", "(0)"), ("leaf-type", "(T)"), ("leaf-fit-or-info", "F")):
        if pat in render:
            ctx.hit(tag)
    ctx.hit(f"pred-nodes:{min(feats['and'] + feats['or'] + feats['not'], 9)}")
    ctx.hit(f"order-keys:{len(orders)}")
    if any(o["reverse"] for o in orders):
        ctx.hit("order-reverse")
    ctx.hit(f"slices:{len(slices)}")
    if any(len(sl) == 3 for sl in slices):
        ctx.hit("slice:stepped")
    if "(&[])" in render:
        ctx.hit("leaf-bare-path")
    if any((sl[0] is not None and sl[0] < 0) or (sl[1] is not None and sl[1] < 0) for sl in slices):
        ctx.hit("slice-negative")
    if not want_ids:
        ctx.hit("selects-none")
    elif len(want_ids) == len(recs):
        ctx.hit("selects-all")
    else:
        ctx.hit("selects-some")


def wire_pred(p):
    if p is None:
        return None
    k = p["k"]
    if k == "path":
        c = p["c"]
        if c["k"] == "num":
            wc = {"k": "num", "v": f2h(float(c["v"])), "t": c10_sql.num_text(c["v"])}
        elif c["k"] == "cls":
            wc = {"k": "cls", "path": class_path(class_of(c["name"]))}
        else:
            wc = c
        return {"k": "path", "names": p["names"], "op": p["op"], "c": wc}
    if k == "attr_eq":
        return {"k": "attr_eq", "attr": p["attr"], "v": wire_aval(p["v"])}
    if k in ("and", "or"):
        return {"k": k, "x": wire_pred(p["x"]), "y": wire_pred(p["y"])}
    if k == "not":
        return {"k": "not", "x": wire_pred(p["x"])}
    return p


def pred_text(p):
    if p is None:
        return "(all)"
    k = p["k"]
    if k == "path":
        c = p["c"]
        if c["k"] == "any":
            return f"has {'.'.join(p['names'])}"
        cs = {"num": lambda: repr(c["v"]), "str": lambda: repr(c["v"]), "none": lambda: "None", "cls": lambda: c["name"]}[c["k"]]()
        sym = {"eq": "==", "lt": "<", "le": "<=", "gt": ">", "ge": ">="}[p["op"]]
        return f"{'.'.join(p['names'])} {sym} {cs}"
    if k == "attr_eq":
        return f"search.{p['attr']} == {p['v']!r}"
    if k == "contains":
        return f"search.{p['attr']}.contains({p['s']!r})"
    if k == "in":
        return f"search.{p['attr']}.in_({p['s']!r})"
    if k == "bool":
        return f"search.{p['attr']}"
    if k == "info":
        return f"info[{p['key']!r}] == {p['value']!r}"
    if k == "not":
        return f"~({pred_text(p['x'])})"
    return f"({pred_text(p['x'])} {'&' if k == 'and' else '|'} {pred_text(p['y'])})"


# ---------------------------------------------------------------------------------------------


def run(ctx):
    ctx.rule = RULE
    ctx.assumptions = [
        "stored instances are built from floats, ints, strings, None, lists, tuples, dicts with string keys and instances "
        "of plain classes with at least one attribute; attribute names do not collide with NamedQuery's own attributes "
        "(name, condition, query, tables, fit_query, other_condition)",
        "strings contain no quote characters; info values are strings; every fit has an instance; no fit has a parent "
        "(top_level_only filtering happens after offset/limit and is not part of this check)",
        "a comparison of a stored value with a constant of another kind (number / string / None / class) counts as false; "
        "type tests mean `type(x) is cls`; NULL sorts first (SQLite)",
        "ties under order_by and the order without order_by are unspecified: compared as sets / by sortedness, "
        "slices are then compared by size and membership only",
    ]
    flags = probe_flags(ctx)
    ctx.notes["flags_observed"] = flags

    # corpus first
    for f in sorted((VERIF / "corpus" / "C10").glob("*.json")):
        c = json.loads(f.read_text())
        replay_case(ctx, c, label=f.name)

    n_db = ctx.n(34, 480)
    per_db = 9 if ctx.tier == "quick" else 10
    for i in range(n_db):
        r = ctx.rng.random()
        exact_stream = r < 0.12
        like_stream = 0.12 <= r < 0.17
        dbd = gen_db(ctx.rng, exact_stream)
        path = None
        if i % 12 == 5:
            from common import scratch_dir
            path = scratch_dir() / f"c10_{i}.sqlite"
        real = RealDb(dbd, path)
        try:
            seen, pool = path_pool(ctx.rng, dbd)
            for j in range(per_db):
                if j and ctx.rng.random() < 0.3:
                    seen, pool = path_pool(ctx.rng, dbd)
                depth = ctx.rng.choice([1, 2, 2, 3, 3, 4])
                if dbd.get("deep"):
                    depth = min(depth, 2)  # many long paths in one query take SQLite seconds to plan
                pred = gen_pred(ctx.rng, dbd, seen, pool, depth, exact_stream, like_stream)
                if ctx.rng.random() < 0.04:
                    pred = None
                orders = gen_orders(ctx.rng)
                slices = gen_slices(ctx.rng, len(dbd["fits"]))
                if slices and ctx.rng.random() < 0.75 and not any(o["attr"] == "id" for o in orders):
                    orders = orders + [{"attr": "id", "reverse": ctx.rng.random() < 0.3}]
                one_case(ctx, dbd, real, pred, orders, slices, chain_query=ctx.rng.random() < 0.2)
        finally:
            real.close()


def replay_case(ctx, c, label="replay"):
    dbd = c["db"]
    real = RealDb(dbd)
    try:
        one_case(ctx, dbd, real, c.get("pred"), c.get("orders", []), [list(s) for s in c.get("slices", [])],
                 chain_query=c.get("chain_query", False), label=label)
    finally:
        real.close()


def replay(ctx, payload):
    ctx.rule = RULE
    ctx.notes["flags_observed"] = probe_flags(ctx)
    case = payload.get("case") or payload.get("disagreements", [{}])[0].get("case")
    replay_case(ctx, case)
