"""C16 — grid searches tile the space and report results cell by cell.

case -> real `GridSearch.fit` / `Sensitivity.run` / `ResultBuilder` (mock search without sampling, completion
order chosen by the harness) vs Lean `Grid` model (float layer bit-exact, exact `Rat` layer within rounding);
oracle = the property sentence evaluated on the real results with exact rational cell edges."""
import bisect
import csv
import json
import math
import random
import tempfile
from fractions import Fraction

from common import f2h, h2f, VERIF, scratch_dir

import autofit as af
from autofit import Sample
from autofit.non_linear.mock.mock_samples_summary import MockSamplesSummary
from autofit.non_linear.result import Placeholder
import autofit.non_linear.grid.grid_search as gs_mod
import autofit.non_linear.grid.sensitivity as sens_mod
from autofit.non_linear.grid.grid_search.result import GridSearchResult
from autofit.non_linear.grid.grid_search.result_builder import ResultBuilder
from autofit.non_linear.grid.grid_search.job import JobResult

import vlib

RULE = (
    "GridSearch.fit over d in 1..4 grid priors (random uniform ranges incl. negative, tiny, huge, offset; other "
    "priors of mixed kinds, tied priors, constants; grid priors passed in random order / duplicated), "
    "Sensitivity.run with int or per-dimension step tuples and perturb models whose id order differs from the "
    "attribute order, ResultBuilder fed in arbitrary orders with gaps and repeats; completion order = random "
    "permutation executed through a stand-in for Process.run_jobs (or Sequential); non-trivial = at least 4 "
    "cells and (d >= 2 or a permuted completion order or a non-grid prior present); distinct = hash of the case"
)

CLASSES = {1: vlib.P1, 2: vlib.P2, 3: vlib.P3}
ATTRS = ["a", "b", "c"]
COMP_NAMES = ["g", "alpha", "zeta", "m1", "beta"]

_SEARCH_CFG = {
    "initialize": {"method": "prior"},
    "printing": {"silence": True},
    "search": {},
    "updates": {"iterations_per_update": 2500, "remove_state_files_at_end": True},
}

CALLS = []  # every fit performed by CellSearch: (model, tag)


class CellSearch(af.m.MockSearch):
    """A search that does no sampling: it reports the model it was asked to fit and a unique tag as
    log likelihood, so that every per-cell entry of the grid result can be traced to the fit that made it."""

    def __init__(self, **kwargs):
        super().__init__(fit_fast=False, **kwargs)

    @property
    def config_type(self):
        return {"CellSearch": _SEARCH_CFG}

    def fit(self, model, analysis, info=None, bypass_nuclear_if_on=False):
        tag = float(len(CALLS))
        CALLS.append((model, tag))
        summary = MockSamplesSummary(
            model=model,
            max_log_likelihood_sample=Sample(log_likelihood=tag, log_prior=0.0, weight=1.0, kwargs={}),
        )
        return analysis.make_result(samples_summary=summary, paths=self.paths)


class NullAnalysis(af.Analysis):
    def log_likelihood_function(self, instance):
        return 0.0


class FakePool:
    """Stand-in for `autofit.non_linear.parallel.Process`: performs the jobs in-process in a completion
    order chosen by the harness (the `schedules` quantifier of the property)."""

    perm_seed = None
    last_order = None

    @classmethod
    def run_jobs(cls, jobs, *args, **kwargs):
        jobs = list(jobs)
        order = list(range(len(jobs)))
        if cls.perm_seed is not None:
            random.Random(cls.perm_seed).shuffle(order)
        cls.last_order = [int(jobs[i].number) for i in order]
        for i in order:
            yield jobs[i].perform()


def install_pool():
    ok = True
    for mod in (gs_mod, sens_mod):
        if hasattr(mod, "Process"):
            mod.Process = FakePool
        else:
            ok = False
    return ok


# ---------------------------------------------------------------------------------------------
# helpers


def F(x) -> Fraction:
    return Fraction(float(x))


def parse_rat(s: str) -> Fraction:
    a, b = s.split("/")
    return Fraction(int(a), int(b))


def scale_of(lo, hi) -> Fraction:
    return max(abs(F(lo)), abs(F(hi)))


def grid_tol(lo, hi) -> Fraction:
    """`up to floating-point rounding`: a few units in the last place of the larger limit"""
    return scale_of(lo, hi) * Fraction(8, 2 ** 52)


def phys_tol(lo, hi) -> Fraction:
    """values that went through Prior.value_for (normal cdf round trip, rounded to 14 places)"""
    return scale_of(lo, hi) * Fraction(1, 10 ** 11) + Fraction(1, 10 ** 13)


def moderate(lo, hi) -> bool:
    s = float(scale_of(lo, hi))
    return 1e-3 <= s <= 1e6 and (hi - lo) >= 1e-6 * s


def unravel(k, shape):
    out = []
    for n in reversed(shape):
        out.append(k % n)
        k //= n
    return list(reversed(out))


def ravel(idx, shape):
    k = 0
    for i, n in zip(idx, shape):
        k = k * n + i
    return k


def new_paths(ctx, label):
    ctx._c16_n = getattr(ctx, "_c16_n", 0) + 1
    return af.DirectoryPaths(name=f"c16_{label}_{ctx._c16_n}")


def make_prior(spec):
    t = spec["t"]
    if t == "U":
        return af.UniformPrior(lower_limit=spec["lo"], upper_limit=spec["hi"])
    if t == "LU":
        return af.LogUniformPrior(lower_limit=spec["lo"], upper_limit=spec["hi"])
    if t == "G":
        return af.GaussianPrior(mean=spec["mean"], sigma=spec["sigma"])
    raise ValueError(t)


def unit_end_defect(priors):
    """a prior whose own value_for(0.0) / value_for(1.0) is rejected by its limit check (lo + 1.0*(hi-lo) rounds
    past hi): a defect of Prior.value_for (property C02) that surfaces here"""
    for p in priors:
        for u in (0.0, 1.0):
            try:
                p.value_for(u)
            except Exception:
                return (float(p.lower_limit), float(p.upper_limit), u)
    return None


def prior_desc(p):
    return (type(p).__name__, int(p.id), f2h(p.lower_limit), f2h(p.upper_limit))


def build_model(spec):
    priors = {}
    for ps in spec["priors"]:  # creation order = id order
        priors[ps["key"]] = make_prior(ps)
    comps = {}
    for c in spec["comps"]:
        m = af.Model(CLASSES[len(c["attrs"])])
        for attr, v in c["attrs"]:
            setattr(m, attr, priors[v] if isinstance(v, str) else float(v))
        comps[c["name"]] = m
    return af.Collection(**comps), priors


def path_str(path):
    return ".".join(str(x) for x in path)


def prior_at(model, path):
    obj = model
    for name in path:
        obj = getattr(obj, name)
    return obj


# ---------------------------------------------------------------------------------------------
# probes of the finding flags (witnesses replayed on the real code on every run)


def probe_cfg(ctx):
    cfg = {}
    try:
        search = CellSearch()
        search.paths = new_paths(ctx, "probe")
        p = af.UniformPrior(0.0, 1.0)
        m = af.Collection(g=af.Model(vlib.P1))
        m.g.a = p
        cfg["integerSteps"] = len(list(af.SearchGridSearch(search=search, number_of_steps=93).model_mappers(m, [p]))) == 93
    except Exception:
        cfg["integerSteps"] = False
    try:
        lists = [[0.0, 0.0, 0.0]] * 125
        cfg["shapeExact"] = tuple(GridSearchResult(None, lists, []).shape) == (5, 5, 5)
    except Exception:
        cfg["shapeExact"] = False
    try:
        lists = [[(1 / 182) * k] for k in range(182)]
        r = GridSearchResult(None, lists, [af.UniformPrior(0.0, 1.0)])
        cfg["upperClamp"] = all(u[0] <= 1.0 for u in r.upper_limits_lists)
    except Exception:
        cfg["upperClamp"] = False
    try:
        y = af.UniformPrior(10.0, 20.0)
        x = af.UniformPrior(0.0, 1.0)
        pm = af.Model(vlib.P2)
        pm.a = x
        pm.b = y
        s = sens_mod.Sensitivity(
            base_model=af.Collection(g=af.Model(vlib.P1)), perturb_model=pm, simulation_instance=af.ModelInstance(),
            paths=new_paths(ctx, "probe"), simulate_cls=simulate, base_fit_cls=base_fit, perturb_fit_cls=perturb_fit,
            number_of_steps=1, number_of_cores=1,
        )
        s.run()
        with open(s.results_path) as f:
            header = [c.strip() for c in next(csv.reader(f))]
        cfg["labelsById"] = header[1:3] == ["b", "a"]
    except Exception:
        cfg["labelsById"] = False
    return cfg


# ---------------------------------------------------------------------------------------------
# generators


def gen_range(rng):
    """(lo, hi) of a uniform prior: negative, tiny, huge, offset and ordinary ranges"""
    kind = rng.choices(["plain", "unit", "neg", "tiny", "huge", "offset", "int"], [4, 2, 2, 1, 1, 2, 2])[0]
    if kind == "unit":
        return 0.0, 1.0
    if kind == "int":
        lo = float(rng.randint(-20, 20))
        return lo, lo + float(rng.randint(1, 40))
    if kind == "plain":
        lo = rng.uniform(-100, 100)
        return lo, lo + rng.uniform(0.01, 200)
    if kind == "neg":
        hi = -rng.uniform(0.001, 1000)
        return hi - rng.uniform(0.01, 1000), hi
    if kind == "tiny":
        e = rng.randint(-30, -6)
        lo = rng.uniform(-1, 1) * 10.0 ** e
        return lo, lo + rng.uniform(0.1, 1) * 10.0 ** e
    if kind == "huge":
        e = rng.randint(8, 150)
        lo = rng.uniform(-1, 1) * 10.0 ** e
        return lo, lo + rng.uniform(0.1, 1) * 10.0 ** e
    # offset: width small against the magnitude (>= 1e-7 relative)
    lo = rng.choice([-1, 1]) * rng.uniform(1, 1e6)
    return lo, lo + abs(lo) * 10.0 ** rng.uniform(-7, -1)


def gen_other_prior(rng, key):
    t = rng.choice(["U", "G", "LU"])
    if t == "U":
        lo, hi = gen_range(rng)
        return {"key": key, "t": "U", "lo": lo, "hi": hi}
    if t == "G":
        return {"key": key, "t": "G", "mean": rng.uniform(-5, 5), "sigma": rng.uniform(0.1, 3)}
    lo = 10.0 ** rng.uniform(-6, 2)
    return {"key": key, "t": "LU", "lo": lo, "hi": lo * 10.0 ** rng.uniform(0.5, 4)}


TRICKY_1D = [93, 99, 105, 117, 123, 182, 186, 198, 210, 221, 234, 243, 246]


def gen_grid_case(rng, cap):
    d = rng.choices([1, 2, 3, 4], [3, 4, 3, 1])[0]
    nmax = max(1, int(round(cap ** (1.0 / d))))
    while nmax ** d > cap:
        nmax -= 1
    if d == 1 and rng.random() < 0.3:
        n = rng.choice([t for t in TRICKY_1D if t <= max(cap, 93)])
    else:
        n = rng.randint(1, nmax) if rng.random() < 0.85 else nmax
    n_other = rng.choice([0, 1, 1, 2, 3])
    keys = [f"p{i}" for i in range(d + n_other)]
    order = keys[:]
    rng.shuffle(order)  # creation (= id) order is independent of the role
    grid_keys = keys[:d]
    specs = {}
    for k in keys:
        if k in grid_keys:
            if rng.random() < 0.08:
                lo = 10.0 ** rng.uniform(-2, 2)
                specs[k] = {"key": k, "t": "LU", "lo": lo, "hi": lo * 10.0 ** rng.uniform(0.5, 3)}
            else:
                lo, hi = gen_range(rng)
                specs[k] = {"key": k, "t": "U", "lo": lo, "hi": hi}
        else:
            specs[k] = gen_other_prior(rng, k)
    # places: every key at least once; some keys tied at a second place; some constants
    slots = keys[:]
    for k in keys:
        if rng.random() < 0.2:
            slots.append(k)
    for _ in range(rng.choice([0, 0, 1, 2])):
        slots.append(round(rng.uniform(-3, 3), 3))
    rng.shuffle(slots)
    comps = []
    names = COMP_NAMES[:]
    rng.shuffle(names)
    i = 0
    while i < len(slots):
        k = min(rng.randint(1, 3), len(slots) - i)
        if not names:
            names = [f"x{len(comps)}"]
        comps.append({"name": names.pop(), "attrs": [[ATTRS[j], slots[i + j]] for j in range(k)]})
        i += k
    passed = grid_keys[:]
    rng.shuffle(passed)
    if rng.random() < 0.2:
        passed.append(rng.choice(grid_keys))
    cores = rng.choice([1, 2, 2])
    return {
        "kind": "grid", "n": n, "priors": [specs[k] for k in order], "comps": comps, "grid": passed,
        "cores": cores, "perm_seed": rng.randrange(1 << 30) if cores > 1 else None,
        # the same GridSearch object was used before on a problem of another dimension (0 = fresh object)
        # (-1: a problem of the same dimension with another number of steps, the number changed afterwards)
        "earlier_use": rng.choice([0, 0, 1, 2, 3, -1, -1]),
    }


def gen_sens_case(rng, cap):
    d = rng.choices([1, 2, 3], [2, 4, 2])[0]
    keys = [f"p{i}" for i in range(d)]
    order = keys[:]
    rng.shuffle(order)
    specs = {}
    for k in keys:
        lo = rng.choice([-1, 1]) * rng.uniform(0.01, 1000) if rng.random() < 0.8 else 0.0
        specs[k] = {"key": k, "t": "U", "lo": lo, "hi": lo + rng.uniform(0.01, 1000)}
    slots = keys[:]
    if d < 3 and rng.random() < 0.3:
        slots.append(round(rng.uniform(-3, 3), 3))
    rng.shuffle(slots)
    attrs = [[ATTRS[j], slots[j]] for j in range(len(slots))]
    if rng.random() < 0.5:
        nmax = max(1, int(cap ** (1.0 / d)))
        steps = rng.randint(1, max(1, min(nmax, 7)))
    else:
        while True:
            steps = [rng.randint(1, 6) for _ in range(d)]
            if math.prod(steps) <= cap:
                break
    cores = rng.choice([1, 2, 2])
    return {
        "kind": "sens", "priors": [specs[k] for k in order], "attrs": attrs, "steps": steps,
        "scale": rng.choices([1, 1.0, 0.5, 2.0], [5, 2, 1, 1])[0], "cores": cores,
        "perm_seed": rng.randrange(1 << 30) if cores > 1 else None,
    }


def gen_builder_case(rng):
    total = rng.randint(1, 30)
    m = rng.randint(0, total + 5)
    arrivals = [[rng.randrange(total), 1000 + i] for i in range(m)]
    if rng.random() < 0.4:
        perm = list(range(total))
        rng.shuffle(perm)
        arrivals = [[k, 1000 + i] for i, k in enumerate(perm)]
    return {"kind": "builder", "total": total, "arrivals": arrivals}


# ---------------------------------------------------------------------------------------------
# grid search


def run_grid(ctx, cfg, case, label="gen"):
    n = case["n"]
    model, priors = build_model(case)
    grid_priors = [priors[k] for k in case["grid"]]
    distinct_grid = []
    for p in grid_priors:
        if p not in distinct_grid:
            distinct_grid.append(p)
    d = len(distinct_grid)
    search = CellSearch()
    search.paths = new_paths(ctx, "grid")
    FakePool.perm_seed = case.get("perm_seed")
    FakePool.last_order = None
    grid_search = af.SearchGridSearch(search=search, number_of_steps=n, number_of_cores=case["cores"])
    if case.get("earlier_use") == -1:
        n0 = n + 1 if (n + 1) ** d <= 2000 else max(1, n - 1)
        if n0 != n:
            ctx.hit("grid:object-used-before-with-other-steps")
            try:
                grid_search = af.SearchGridSearch(search=search, number_of_steps=n0, number_of_cores=case["cores"])
                warm_m = af.Collection(**{f"w{i}": af.UniformPrior(0.0, 1.0 + i) for i in range(d)})
                list(grid_search.model_mappers(warm_m, [getattr(warm_m, f"w{i}") for i in range(d)]))
                grid_search.number_of_steps = n
            except Exception as e:  # noqa
                ctx.hit("grid:earlier-use-raised:" + type(e).__name__)
                grid_search = af.SearchGridSearch(search=search, number_of_steps=n, number_of_cores=case["cores"])
    elif case.get("earlier_use"):
        # what a grid search answers does not depend on what the same object was asked before
        ctx.hit("grid:object-used-before")
        try:
            k = case["earlier_use"]
            while k > 1 and n ** k > 2000:
                k -= 1
            if k == d:
                k = k + 1 if n ** (k + 1) <= 2000 else max(1, k - 1)
            warm_m = af.Collection(**{f"w{i}": af.UniformPrior(0.0, 1.0 + i) for i in range(k)})
            list(grid_search.model_mappers(warm_m, [getattr(warm_m, f"w{i}") for i in range(k)]))
        except Exception as e:  # noqa
            ctx.hit("grid:earlier-use-raised:" + type(e).__name__)
    del CALLS[:]
    try:
        result = grid_search.fit(model=model, analysis=NullAnalysis(), grid_priors=grid_priors)
    except Exception as e:
        ctx.fail("C16-fit-raises", f"GridSearch.fit raised {type(e).__name__}", case, str(e)[:300])
        return
    calls = list(CALLS)
    arrivals = FakePool.last_order if (case["cores"] > 1 and FakePool.last_order is not None) else list(range(len(calls)))
    permuted = arrivals != sorted(arrivals)

    # ---- what the result says about itself (dimension order is read from the result)
    try:
        res_priors = list(result.grid_priors)
        shape = [int(s) for s in result.shape]
        samples = list(result.samples)
        unit_lower = [[float(v) for v in row] for row in result.lower_limits_lists]
    except Exception as e:
        ctx.fail("C16-result-unreadable", f"GridSearchResult accessors raised {type(e).__name__}", case, str(e)[:300])
        return
    if sorted(int(p.id) for p in res_priors) != sorted(int(p.id) for p in distinct_grid):
        ctx.fail("C16-grid-priors", "result.grid_priors is not the set of grid priors searched", case)
        return
    dims = [(float(p.lower_limit), float(p.upper_limit)) for p in res_priors]
    grid_ids = [int(p.id) for p in res_priors]
    places = [(tuple(path), prior) for path, prior in model.path_priors_tuples]
    key_path = {}
    for path, prior in places:
        key_path[int(prior.id)] = path  # any place of the prior (tied places hold the same object)

    def cell_limits(m):
        out = []
        for pid in grid_ids:
            p = prior_at(m, key_path[pid])
            out.append((float(p.lower_limit), float(p.upper_limit)))
        return out

    # ---- model
    req = {
        "p": "C16", "q": "grid", "cfg": cfg, "n": n, "dims": [[f2h(lo), f2h(hi)] for lo, hi in dims],
        "rat": True, "arrivals": arrivals, "places": [[path_str(path), int(prior.id)] for path, prior in places],
        "grid_ids": grid_ids,
    }
    ans = ctx.lean.ask(req)
    if "driver_error" in ans:
        ctx.disagree("C16.driver", case, None, ans)
        return
    total = len(samples)
    nontrivial = total >= 4 and (d >= 2 or permuted or len(places) > d)
    ctx.case(case, nontrivial=nontrivial,
             sample={"kind": "grid", "n": n, "d": d, "dims": dims, "cells": total, "completion_order": arrivals[:12]})
    ctx.hit(f"grid:d={d}")
    ctx.hit("grid:permuted" if permuted else "grid:in-order")
    ctx.hit("grid:cells<=16" if total <= 16 else "grid:cells<=128" if total <= 128 else "grid:cells>128")
    if len(places) > len(set(int(p.id) for _, p in places)):
        ctx.hit("grid:tied-prior")

    # ---- correspondence
    def cmp(clause, impl, model_value):
        if impl != model_value:
            ctx.disagree(f"C16.{clause}", case, _short(impl), _short(model_value))
            return False
        return True

    cmp("grid.count", [len(calls), total], [ans["count"], ans["count"]])
    cmp("grid.shape", shape, ans["shape"])
    unit_tol = [Fraction(8, 2 ** 52)] * d
    tols = [grid_tol(lo, hi) for lo, hi in dims]

    def cmp_floats(clause, impl_rows, model_rows, tol):
        """rows of per-dimension floats: identical bits expected; differences within rounding are tolerated
        (a float-equivalent rewrite of the arithmetic is not a change of behaviour under this property)"""
        if [[f2h(v) for v in row] for row in impl_rows] == model_rows:
            ctx.hit(f"{clause}:bit-exact")
            return True
        if len(impl_rows) == len(model_rows) and all(
            len(a) == len(b) and all(abs(F(x) - F(h2f(y))) <= tol[i] for i, (x, y) in enumerate(zip(a, b)))
            for a, b in zip(impl_rows, model_rows)
        ):
            ctx.hit(f"{clause}:within-rounding")
            return True
        ctx.disagree(f"C16.{clause}", case, _short(impl_rows), _short([[h2f(y) for y in row] for row in model_rows]))
        return False

    cmp_floats("grid.unit_lower", unit_lower, ans["unit"], unit_tol)
    impl_limits = [cell_limits(s.model) for s in samples]
    cells_ok = cmp_floats("grid.cell_lower", [[lo for lo, _ in c] for c in impl_limits], [[c[0] for c in row] for row in ans["cells"]], tols)
    cells_ok = cmp_floats("grid.cell_upper", [[hi for _, hi in c] for c in impl_limits], [[c[1] for c in row] for row in ans["cells"]], tols) and cells_ok
    upper_exc = None
    try:
        unit_upper = [[float(v) for v in row] for row in result.upper_limits_lists]
        unit_centre = [[float(v) for v in row] for row in result.centres_lists]
        cmp_floats("grid.unit_upper", unit_upper, ans["upper_unit"], unit_tol)
        cmp_floats("grid.unit_centre", unit_centre, ans["centre_unit"], unit_tol)
    except Exception as e:
        upper_exc = e
        ctx.disagree("C16.grid.unit_upper", case, f"raised {type(e).__name__}", "model has values")
    # reported physical limits (through Prior.value_for: tolerance), uniform grid priors only in the model
    kinds = [type(p).__name__ for p in res_priors]
    phys, phys_exc = None, None
    if upper_exc is None and all(moderate(lo, hi) for lo, hi in dims):
        try:
            phys = tuple([[float(v) for v in row] for row in lst] for lst in (
                result.physical_lower_limits_lists, result.physical_upper_limits_lists, result.physical_centres_lists))
        except Exception as e:
            phys_exc = e
        if phys is not None and all(k == "UniformPrior" for k in kinds):
            ptols = [phys_tol(lo, hi) for lo, hi in dims]
            for name, rows in zip(("phys_lower", "phys_upper", "phys_centre"), phys):
                cmp_floats(f"grid.{name}", rows, ans[name], ptols)
    float_physical_grid(ctx, case, req, ans, result, res_priors, upper_exc, phys)  # phys: the lists read above, if they were
    # exact layer: the cells the theorems are about, against the floats of the implementation
    if cells_ok and "rat_cells" in ans and len(ans["rat_cells"]) == total:
        bad = None
        for k, s in enumerate(samples):
            for i, (lo, hi) in enumerate(cell_limits(s.model)):
                rlo, rhi = (parse_rat(x) for x in ans["rat_cells"][k][i])
                if abs(F(lo) - rlo) > tols[i] or abs(F(hi) - rhi) > tols[i]:
                    bad = (k, i, lo, hi, float(rlo), float(rhi))
                    break
            if bad:
                break
        if bad:
            ctx.disagree("C16.grid.rat_cells", case, bad[:4], bad[4:])
    # which fit does each entry of the result come from
    tag_of_call = {id(m): tag for m, tag in calls}
    # the job number behind each entry: position of the fit in the model's cell list (= enumerate(lists))
    if len(calls) == ans["count"] == total:
        per_dim = [sorted({h2f(row[i][0]) for row in ans["cells"]}) for i in range(d)]

        def place(lowers):
            out = []
            for i, x in enumerate(lowers):
                vals = per_dim[i]
                j = bisect.bisect_left(vals, x)
                cands = [c for c in (j - 1, j) if 0 <= c < len(vals)]
                best = min(cands, key=lambda c: abs(vals[c] - x))
                if abs(F(vals[best]) - F(x)) > tols[i]:
                    return None
                out.append(best)
            return tuple(out)

        model_index = {}
        for k, row in enumerate(ans["cells"]):
            model_index.setdefault(place([h2f(c[0]) for c in row]), k)
        number_of_model = {id(m): model_index.get(place([lo for lo, _ in cell_limits(m)]), -1) for m, _ in calls}
        impl_order = [number_of_model.get(id(s.model), -1) for s in samples]
        cmp("grid.order", impl_order, ans["order"])
    # places
    pm = {p: (kind, i) for p, kind, i in ans.get("place_map", [])}
    for s in samples[:: max(1, total // 7)]:
        for path, prior in places:
            got = prior_at(s.model, path)
            kind, i = pm[path_str(path)]
            if kind == "keep":
                if int(got.id) != i or prior_desc(got) != prior_desc(prior):
                    ctx.disagree("C16.grid.place_keep", case, prior_desc(got), ["keep", i])
            else:
                want = grid_ids.index(int(prior.id))
                if i != want or type(got).__name__ != "UniformPrior":
                    ctx.disagree("C16.grid.place_dim", case, [type(got).__name__, want], ["dim", i])

    if len(samples) == len(calls) == ans["count"]:
        cell_compositions(ctx, case, model, grid_ids, key_path, samples)
    # ---- oracle: the property sentence on the real outputs
    if any(k != "UniformPrior" for k in kinds):
        ctx.hit("grid:non-uniform-grid-prior")
    grid_oracle(ctx, cfg, case, n, d, model, places, grid_ids, dims, calls, result, samples, shape, unit_lower,
                cell_limits, tag_of_call, upper_exc, search, kinds, phys, phys_exc)


def _short(x, limit=600):
    s = json.dumps(x, default=str)
    return s if len(s) <= limit else s[:limit] + "…"


def grid_oracle(ctx, cfg, case, n, d, model, places, grid_ids, dims, calls, result, samples, shape, unit_lower,
                cell_limits, tag_of_call, upper_exc, search, kinds, phys, phys_exc):
    total = n ** d
    uniform = [k == "UniformPrior" for k in kinds]
    float_steps = int(1 / (1 / n)) != n
    # (1) exactly n^d cells are fitted
    if len(calls) != total or len(samples) != total:
        cls = "C16-float-steps" if (float_steps and len(calls) == int(1 / (1 / n)) ** d) else "C16-cell-count"
        ctx.fail(cls, f"GridSearch(number_of_steps={n}) over {d} parameter(s) fitted {len(calls)} cells and reports "
                      f"{len(samples)}, not {n}^{d} = {total}", case, {"fitted": len(calls), "reported": len(samples)})
        return
    # (2) the cells tile the original ranges: every fitted cell is one box of the exact n^d partition
    edges = [[F(lo) + (F(hi) - F(lo)) * Fraction(j, n) for j in range(n + 1)] for lo, hi in dims]
    tols = [grid_tol(lo, hi) for lo, hi in dims]

    def digits_of(m):
        out = []
        for i, (lo, hi) in enumerate(cell_limits(m)):
            w = dims[i][1] - dims[i][0]
            j0 = int(round((lo - dims[i][0]) / w * n)) if w else 0
            js = [j for j in range(max(0, j0 - 1), min(n, j0 + 2))
                  if abs(F(lo) - edges[i][j]) <= tols[i] and abs(F(hi) - edges[i][j + 1]) <= tols[i]]
            if len(js) != 1:
                return None, (i, lo, hi)
            out.append(js[0])
        return out, None

    fitted = {}
    for m, tag in calls:
        dg, why = digits_of(m)
        if dg is None:
            i, lo, hi = why
            ctx.fail("C16-cell-limits", f"a fitted cell has limits ({lo!r}, {hi!r}) in dimension {i} which are not an "
                                        f"n-th of the prior range {dims[i]}", case, {"dimension": i, "limits": [lo, hi], "range": dims[i], "n": n})
            return
        fitted.setdefault(tuple(dg), []).append(tag)
    if len(fitted) != total or any(len(v) != 1 for v in fitted.values()):
        ctx.fail("C16-cells-not-a-partition", "the fitted cells do not cover every box of the partition exactly once",
                 case, {"distinct_boxes": len(fitted), "expected": total})
        return
    # float-level adjacency as the sentence states it (contiguous, non overlapping, covering)
    for i in range(d):
        ivs = sorted({cell_limits(m)[i] for m, _ in calls})
        ok = len(ivs) == n
        ok = ok and abs(F(ivs[0][0]) - F(dims[i][0])) <= tols[i] and abs(F(ivs[-1][1]) - F(dims[i][1])) <= tols[i]
        ok = ok and all(a[0] < a[1] for a in ivs)
        ok = ok and all(abs(F(a[1]) - F(b[0])) <= tols[i] for a, b in zip(ivs, ivs[1:]))
        if not ok:
            ctx.fail("C16-cells-not-contiguous", f"the {len(ivs)} cell ranges of dimension {i} are not contiguous, "
                                                 f"non-overlapping and covering {dims[i]}", case, {"intervals": ivs[:6]})
            return
    # (3) all other parameters keep their priors; the grid parameters are uniform on the cell
    for m, _ in calls[:: max(1, total // 9)]:
        for path, prior in places:
            got = prior_at(m, path)
            if int(prior.id) in grid_ids:
                i = grid_ids.index(int(prior.id))
                if type(got).__name__ != "UniformPrior" or (float(got.lower_limit), float(got.upper_limit)) != cell_limits(m)[i]:
                    ctx.fail("C16-tied-place", f"place {path_str(path)} of a grid prior does not hold the cell's prior", case)
                    return
            elif got is not prior and prior_desc(got) != prior_desc(prior):
                ctx.fail("C16-other-prior-changed", f"non-grid parameter {path_str(path)} did not keep its prior", case,
                         {"was": prior_desc(prior), "is": prior_desc(got)})
                return
    # (4) shape (n,...,n)
    if shape != [n] * d:
        wrong_root = int(total ** (1 / d)) != n
        ctx.fail("C16-shape-root" if (wrong_root and shape == [int(total ** (1 / d))] * d) else "C16-shape",
                 f"{d}-dimensional grid search with {n} steps reports shape {tuple(shape)}", case, {"shape": shape})
        return
    else:
        try:
            native = result.log_likelihoods().native
            for k in sorted({0, total - 1, total // 2, total // 3}):
                idx = tuple(unravel(k, shape))
                if float(native[idx]) != fitted[idx][0]:
                    ctx.fail("C16-native-entry", f"native[{idx}] is not the result of the cell with those indices", case)
                    break
        except Exception as e:
            ctx.fail("C16-native-raises", f"GridList.native raised {type(e).__name__}", case, str(e)[:200])
    # (5) k-th entry of every per-cell list belongs to the k-th cell in row-major order
    lls = [float(x) for x in result.log_likelihoods()]
    for k, s in enumerate(samples):
        idx = tuple(unravel(k, [n] * d))
        dg, _ = digits_of(s.model)
        if dg is None or tuple(dg) != idx or lls[k] != fitted[idx][0] or tag_of_call.get(id(s.model)) != lls[k]:
            ctx.fail("C16-result-order", f"entry {k} of the result lists does not belong to cell {idx} (row-major)", case,
                     {"entry": k, "cell_of_entry": dg, "completion_order": FakePool.last_order[:20] if FakePool.last_order else None})
            return
        # reported unit lower limits are the cell's
        for i in range(d):
            if abs(F(dims[i][0]) + F(unit_lower[k][i]) * (F(dims[i][1]) - F(dims[i][0])) - edges[i][idx[i]]) > tols[i]:
                ctx.fail("C16-reported-lower", f"lower_limits_lists[{k}] is not the lower corner of cell {idx}", case)
                return
    # (6) reported physical limits consistent with the cells fitted
    def check_physical():
        if upper_exc is not None:
            ctx.fail("C16-result-unreadable", f"upper_limits_lists raised {type(upper_exc).__name__}", case, str(upper_exc)[:200])
        elif phys_exc is not None:
            over = any(v > 1.0 for row in result.upper_limits_lists for v in row)
            end = unit_end_defect(list(result.grid_priors))
            if over:
                cls = "C16-upper-unit-overflow"
            elif end is not None:
                cls = "C16-prior-unit-end-outside-limits"
            else:
                cls = "C16-physical-limits-raise"
            ctx.fail(cls, f"physical limits of the result raise {type(phys_exc).__name__} (n={n})"
                     + (f": the grid prior's own value_for({end[2]}) is outside its limits {end[:2]}" if end and not over else ""),
                     case, str(phys_exc)[:200])
            return
        elif phys is not None:
            ctx.hit("grid:physical-limits-checked")
            plo, pup, pce = phys
            ptol = [phys_tol(lo, hi) for lo, hi in dims]
            for k, s in enumerate(samples):
                for i, (lo, hi) in enumerate(cell_limits(s.model)):
                    if abs(F(plo[k][i]) - F(lo)) > ptol[i] or abs(F(pup[k][i]) - F(hi)) > ptol[i] or abs(F(pce[k][i]) - (F(lo) + F(hi)) / 2) > ptol[i]:
                        if not uniform[i]:
                            ctx.fail("C16-nonuniform-grid-prior-limits",
                                     f"grid prior {i} is a {kinds[i]}: the cells fitted are linear n-ths of its range but the result reports "
                                     f"limits through the prior's own unit map (entry {k}: reported {plo[k][i]!r}..{pup[k][i]!r}, fitted {lo!r}..{hi!r})",
                                     case, {"entry": k, "dimension": i, "reported": [plo[k][i], pce[k][i], pup[k][i]], "fitted": [lo, hi]})
                            return
                        ctx.fail("C16-reported-limits", f"physical limits reported for entry {k} are not those of the cell fitted", case,
                                 {"entry": k, "dimension": i, "reported": [plo[k][i], pce[k][i], pup[k][i]], "fitted": [lo, hi]})
                        return
    check_physical()
    # (7) results.csv: every row names a cell and carries that cell's lower limits
    try:
        with open(search.paths.output_path / "results.csv") as f:
            rows = [[c.strip() for c in row] for row in csv.reader(f)]
        header, body = rows[0], rows[1:]
        if len(body) != total or sorted(int(r[0]) for r in body) != list(range(total)):
            ctx.fail("C16-csv-rows", "results.csv does not have one row per cell", case, {"rows": len(body)})
        else:
            by_index = {int(r[0]): r for r in body}
            for k, s in enumerate(samples):
                lows = [float(x) for x in by_index[k][1:1 + d]]
                if lows != [lo for lo, _ in cell_limits(s.model)] or float(by_index[k][1 + d]) != lls[k]:
                    ctx.fail("C16-csv-row", f"results.csv row {k} does not describe cell {k}", case, {"row": by_index[k]})
                    break
    except FileNotFoundError:
        ctx.hit("grid:no-results-csv")


# ---------------------------------------------------------------------------------------------
# the composition of a cell (model growth): mapper_from_partial_prior_arguments on the Comp model


def cell_compositions(ctx, case, model, grid_ids, key_path, samples):
    """every sampled cell's model against `cellComp` (the original tree with the grid priors' ids renamed to the
    cell's new priors): places and ids in parameter order, prior count, the instance built from a vector; the
    hypotheses of the theorems (new ids distinct, not ids of the model, not shared between cells) on the real ids"""
    import extract_comp as X
    total = len(samples)
    picks = sorted({0, total - 1, total // 2, total // 3, (2 * total) // 3} & set(range(total)))
    try:
        comp = X.node_of(model)
        own_ids = sorted({int(p.id) for _, p in model.path_priors_tuples})
        cells, impl = [], []
        fresh_of = {}
        for k in range(total):
            fresh_of[k] = [int(prior_at(samples[k].model, key_path[pid]).id) for pid in grid_ids]
        for k in picks:
            m = samples[k].model
            n_par = int(m.prior_count)
            v = [float(3 * j + 1) + 0.25 for j in range(n_par)]
            inst = m.instance_from_vector(v, ignore_prior_limits=True)
            impl.append({
                "paths": [[str(x) for x in path] for path, _ in m.path_priors_tuples],
                "path_ids": [int(p.id) for _, p in m.path_priors_tuples],
                "ids": [int(p.id) for p in m.priors_ordered_by_id],
                "count": n_par,
                "inst": X.canon_inst(X.inst_of(inst)),
            })
            cells.append({"job": k, "fresh": fresh_of[k], "v": [f2h(x) for x in v]})
    except Exception as e:  # noqa
        ctx.disagree("C16.cellcomp.unreadable", case, f"{type(e).__name__}: {str(e)[:200]}", None)
        return
    all_fresh = [i for k in range(total) for i in fresh_of[k]]
    if len(set(all_fresh)) != len(all_fresh) or set(all_fresh) & set(own_ids):
        ctx.disagree("C16.cellcomp.fresh_ids", case, {"model_ids": own_ids, "cell_ids": all_fresh[:24]},
                     "new priors of the cells have ids of their own")
        return
    ans = ctx.lean.ask({"p": "C16", "q": "cellcomp", "comp": comp, "grid_ids": grid_ids, "cells": cells,
                        "base": fresh_of[0][0] if fresh_of.get(0) else 0})
    if "driver_error" in ans:
        ctx.disagree("C16.driver", case, None, _short(ans))
        return
    if ans["count"] != int(model.prior_count):
        ctx.disagree("C16.cellcomp.model_count", case, int(model.prior_count), ans["count"])
    sequential = True
    for k, im, mo in zip(picks, impl, ans["cells"]):
        for key in ("paths", "path_ids", "ids", "count"):
            if im[key] != mo[key]:
                ctx.disagree(f"C16.cellcomp.{key}", case, {"job": k, "impl": _short(im[key])}, _short(mo[key]))
                return
        diff = X.inst_diff(im["inst"], X.canon_inst(mo["inst"]), 0)
        if diff:
            ctx.disagree("C16.cellcomp.instance", case, {"job": k, "diff": _short(diff)}, _short(mo["inst"]))
            return
        sequential = sequential and mo["sequential"] == fresh_of[k]
    ctx.hit("comp:cells-compared")
    # the allocation of the new ids (pinned commit: base + job * d + dimension) is an implementation detail
    ctx.hit("comp:fresh-ids-sequential" if sequential else "comp:fresh-ids-not-sequential")
    if any(len(set(im["path_ids"])) < len(im["path_ids"]) for im in impl):
        ctx.hit("comp:tied-places")
    if any(im["path_ids"] != sorted(im["path_ids"]) for im in impl):
        ctx.hit("comp:unsorted?")


# ---------------------------------------------------------------------------------------------
# float-level physical limits (model growth): Prior.value_for as property C02 models it, bit for bit


_UNIT_PRIOR = []


def quantile_trip(u):
    """q = ndtr(ndtri(u)) as the real code performs it: for UniformPrior(0, 1) message.value_for(u) = q * 1 + 0"""
    if not _UNIT_PRIOR:
        _UNIT_PRIOR.append(af.UniformPrior(lower_limit=0.0, upper_limit=1.0))
    return float(_UNIT_PRIOR[0].message.value_for(float(u)))


def trip_table(ctx, case, units):
    """[[u, q]] for the given unit values (hex); the libm part of value_for, measured, within 4 * 2**-52 of u"""
    table = []
    for h in sorted(set(units)):
        u = h2f(h)
        try:
            q = quantile_trip(u)
        except Exception as e:  # noqa
            ctx.hit("phys:quantile-trip-raised:" + type(e).__name__)
            continue
        if not abs(q - u) <= 4 * 2.0 ** -52:  # measured: <= 2**-52 for every k/n, (k+1/2)/n with n <= 4000
            ctx.disagree("C16.phys.quantile_trip", case, {"u": u, "q": q}, "ndtr(ndtri(u)) within 4 * 2**-52 of u")
        table.append([h, f2h(q)])
    return table


def _is_limit_exc(e):
    return type(e).__name__ == "PriorLimitException"


def fphys_tol(lo, hi) -> Fraction:
    """a float-equivalent rewrite of value_for (other rounding mode / no rounding, other operation order, exact
    quantile round trip) stays within: one unit of the decimal place value_for rounds to + the measured round-trip
    error times the width + a few ulp of the larger limit. (1000 times tighter than `phys_tol`, which it replaces
    wherever the float-level model has a value.)"""
    w = float(hi) - float(lo)
    places = 14
    while w < 1.0 and places < 323:
        w *= 10.0
        places += 1
    return Fraction(1, 10 ** places) + (F(hi) - F(lo)) * Fraction(4, 2 ** 52) + grid_tol(lo, hi)


def _same_or_close(impl, model_value, tols):
    """'bit-exact' | 'within-rounding' | None for rows of per-dimension hex floats"""
    if impl == model_value:
        return "bit-exact"
    if isinstance(impl, list) and isinstance(model_value, list) and len(impl) == len(model_value) and all(
            len(a) == len(b) and all(abs(F(h2f(x)) - F(h2f(y))) <= tols[i] for i, (x, y) in enumerate(zip(a, b)))
            for a, b in zip(impl, model_value)):
        return "within-rounding"
    return None


def float_physical_grid(ctx, case, req, ans, result, res_priors, upper_exc, phys=None):
    """GridSearchResult.physical_{lower_limits,upper_limits,centres}_lists against the float-level model
    (gate, exact rounding, clamp of UniformPrior.value_for on the measured quantile round trip): identical bits"""
    if upper_exc is not None or any(type(p).__name__ != "UniformPrior" for p in res_priors):
        return
    keys = (("lower", "lower_limits_lists", "unit"), ("upper", "upper_limits_lists", "upper_unit"),
            ("centre", "centres_lists", "centre_unit"))
    try:
        for _, attr, mk in keys:
            if [[f2h(float(v)) for v in row] for row in getattr(result, attr)] != ans[mk]:
                ctx.hit("phys:grid-skipped-unit-lists-differ-within-rounding")
                return
    except Exception:  # noqa
        return
    table = trip_table(ctx, case, [h for _, _, mk in keys for row in ans[mk] for h in row])
    tols = [fphys_tol(float(p.lower_limit), float(p.upper_limit)) for p in res_priors]
    req2 = dict(req, trip=table, rat=False)
    req2.pop("places", None)
    ans2 = ctx.lean.ask(req2)
    if "driver_error" in ans2 or "fphys_lower" not in ans2:
        ctx.disagree("C16.driver", case, None, _short(ans2))
        return
    for name, _, _ in keys:
        model_rows = ans2["fphys_" + name]
        model_value = "limit" if any(v == "limit" for row in model_rows for v in row) else model_rows
        attr = {"lower": "physical_lower_limits_lists", "upper": "physical_upper_limits_lists",
                "centre": "physical_centres_lists"}[name]
        try:
            rows = phys[("lower", "upper", "centre").index(name)] if phys is not None else getattr(result, attr)
            impl = [[f2h(float(v)) for v in row] for row in rows]
        except Exception as e:  # noqa
            impl = "limit" if _is_limit_exc(e) else "raised " + type(e).__name__
        how = _same_or_close(impl, model_value, tols)
        if how is not None:
            ctx.hit(f"phys:grid-{how}" if impl != "limit" else "phys:grid-limit-exception-predicted")
        else:
            ctx.disagree(f"C16.grid.fphys_{name}", case, _short(impl), _short(model_value))


def float_physical_sens(ctx, case, req, ans, entries, d, raised=None):
    """Sensitivity: value of every perturbation and limits of every cell prior (value_for of the clamped unit
    limits, then with_limits) against the float-level model: identical bits; `raised` = the exception of run()"""
    table = trip_table(ctx, case, [h for row in ans["cells"] for c in row for h in c[:3]])
    ans2 = ctx.lean.ask(dict(req, trip=table, rat=False))
    if "driver_error" in ans2 or "fphys_cells" not in ans2:
        ctx.disagree("C16.driver", case, None, _short(ans2))
        return
    cells = ans2["fphys_cells"]
    model_raises = any(c[0] == "limit" or c[1] is None for row in cells for c in row)
    if raised is not None:
        if _is_limit_exc(raised) and model_raises:
            ctx.hit("phys:sens-limit-exception-predicted")
        else:
            ctx.disagree("C16.sens.fphys_raises", case, "raised " + type(raised).__name__,
                         "limit" if model_raises else "model has values")
        return
    if model_raises:
        ctx.disagree("C16.sens.fphys_raises", case, "ran", "limit")
        return
    if len(cells) != len(entries):
        return  # count clause reports it
    tols = [fphys_tol(h2f(lo), h2f(hi)) for lo, hi in req["dims"]]
    worst = "bit-exact"
    for k, (rec, centre, lims) in enumerate(entries):
        impl = [[f2h(centre[i]), f2h(lims[i][0]), f2h(lims[i][1])] for i in range(d)]
        how = _same_or_close(list(zip(*impl)), list(zip(*[[c[0], c[1][0], c[1][1]] for c in cells[k]])), tols) \
            if len(cells[k]) == d else None
        if how is None:
            ctx.disagree("C16.sens.fphys_cells", case, {"entry": k, "impl": _short(impl)}, _short(cells[k]))
            return
        if how != "bit-exact":
            worst = how
    ctx.hit("phys:sens-" + worst)
    return ans2


def sens_generation(ctx, case, sens, ans, ans2, dims_hex):
    """the generators of Sensitivity read directly: `_lists` (unit vectors), `_physical_values`, `_labels` of every
    job in job order against the model (unit centres, value_for of them, label = name_value pairs in id order with
    Python's repr of the model's doubles)"""
    try:
        lists = [[f2h(float(v)) for v in row] for row in sens._lists]
        values = [[f2h(float(v)) for v in row] for row in sens._physical_values]
        labels = list(sens._labels)
    except AttributeError:
        ctx.hit("sens:generators-not-readable")
        return
    except Exception as e:  # noqa
        ctx.disagree("C16.sens.generators", case, f"raised {type(e).__name__}", "model has values")
        return
    m_lists = [[c[0] for c in row] for row in ans["cells"]]
    m_values = [[c[0] for c in row] for row in ans2["fphys_cells"]]
    m_labels = ["_".join(f"{name}_{h2f(v)!r}" for name, v in row) for row in ans2["labels"]]
    tols = [fphys_tol(h2f(lo), h2f(hi)) for lo, hi in dims_hex]
    if lists != m_lists:
        ctx.disagree("C16.sens.unit_lists", case, _short(lists), _short(m_lists))
    elif values == m_values and labels == m_labels:
        ctx.hit("sens:lists-values-labels-bit-exact")
    elif _same_or_close(values, m_values, tols) is None:
        ctx.disagree("C16.sens.physical_values", case, _short(values), _short(m_values))
    elif values == m_values:
        ctx.disagree("C16.sens.labels", case, _short(labels), _short(m_labels))
    else:
        # a float-equivalent rewrite of value_for: the labels are compared as names + values within that rounding
        ok = len(labels) == len(m_labels)
        for lab, row, vrow in zip(labels, ans2["labels"], values):
            ok = ok and lab == "_".join(f"{name}_{h2f(v)!r}" for (name, _), v in zip(row, vrow))
        if ok:
            ctx.hit("sens:lists-values-labels-within-rounding")
        else:
            ctx.disagree("C16.sens.labels", case, _short(labels), _short(m_labels))


# ---------------------------------------------------------------------------------------------
# sensitivity mapping

SIM = []


class Res:
    def __init__(self, model, tag):
        self.samples_summary = MockSamplesSummary(
            model=model, max_log_likelihood_sample=Sample(log_likelihood=tag, log_prior=0.0, weight=1.0, kwargs={}))
        self.log_likelihood = tag
        self.samples = None


def simulate(instance, simulate_path):
    rec = {"seq": len(SIM), "perturb": {k: float(v) for k, v in vars(instance.perturb).items() if isinstance(v, float)}}
    SIM.append(rec)
    return rec


def base_fit(model, dataset, paths):
    try:
        dataset["path"] = str(paths.output_path)
    except Exception:
        dataset["path"] = None
    return Res(model, float(dataset["seq"]))


def perturb_fit(model, dataset, paths):
    dataset["perturb_model"] = model
    return Res(model, float(dataset["seq"]))


def run_sens(ctx, cfg, case, label="gen"):
    priors = {ps["key"]: make_prior(ps) for ps in case["priors"]}
    pm = af.Model(CLASSES[len(case["attrs"])])
    for attr, v in case["attrs"]:
        setattr(pm, attr, priors[v] if isinstance(v, str) else float(v))
    steps = case["steps"]
    number_of_steps = tuple(steps) if isinstance(steps, list) else int(steps)
    by_id = sorted(priors.values(), key=lambda p: p.id)
    d = len(by_id)
    name_of = {int(priors[v].id): attr for attr, v in case["attrs"] if isinstance(v, str)}
    names_id = [name_of[int(p.id)] for p in by_id]
    names_attr = [attr for attr, v in case["attrs"] if isinstance(v, str)]
    per_dim = list(steps) if isinstance(steps, list) else [int(steps)] * d
    dims = [(float(p.lower_limit), float(p.upper_limit)) for p in by_id]
    scale = case["scale"]
    inst = af.ModelInstance()
    sens = sens_mod.Sensitivity(
        base_model=af.Collection(g=af.Model(vlib.P1)), perturb_model=pm, simulation_instance=inst,
        paths=new_paths(ctx, "sens"), simulate_cls=simulate, base_fit_cls=base_fit, perturb_fit_cls=perturb_fit,
        number_of_steps=number_of_steps, number_of_cores=case["cores"], limit_scale=scale,
    )
    FakePool.perm_seed = case.get("perm_seed")
    FakePool.last_order = None
    del SIM[:]
    try:
        result = sens.run()
    except Exception as e:
        # the float-level model predicts the limit exception (value_for of a unit limit outside the prior's limits)
        req0 = {"p": "C16", "q": "sens", "cfg": cfg, "steps": per_dim, "dims": [[f2h(lo), f2h(hi)] for lo, hi in dims],
                "scale": f2h(float(scale)), "arrivals": [], "names_id": names_id, "names_attr": names_attr}
        ans0 = ctx.lean.ask(req0)
        if "driver_error" not in ans0:
            float_physical_sens(ctx, case, req0, ans0, [], d, raised=e)
        end = unit_end_defect(by_id)
        if end is not None and type(e).__name__ == "PriorLimitException":
            ctx.fail("C16-prior-unit-end-outside-limits", f"Sensitivity.run raised {type(e).__name__}: "
                     f"the perturb prior's own value_for({end[2]}) is outside its limits {end[:2]}", case, str(e)[:300])
        else:
            ctx.fail("C16-sens-raises", f"Sensitivity.run raised {type(e).__name__}", case, str(e)[:300])
        return
    sims = list(SIM)
    arrivals = FakePool.last_order if (case["cores"] > 1 and FakePool.last_order is not None) else list(range(len(sims)))
    permuted = arrivals != sorted(arrivals)
    shape = [int(s) for s in result.shape]
    samples = list(result.samples)
    psamples = list(result.perturb_samples)
    total = len(samples)
    req = {
        "p": "C16", "q": "sens", "cfg": cfg, "steps": per_dim, "dims": [[f2h(lo), f2h(hi)] for lo, hi in dims],
        "scale": f2h(float(scale)), "arrivals": arrivals, "names_id": names_id, "names_attr": names_attr, "rat": True,
    }
    ans = ctx.lean.ask(req)
    if "driver_error" in ans:
        ctx.disagree("C16.driver", case, None, ans)
        return
    ctx.case(case, nontrivial=total >= 4 and (d >= 2 or permuted),
             sample={"kind": "sens", "steps": per_dim, "dims": dims, "cells": total, "completion_order": arrivals[:12]})
    ctx.hit(f"sens:d={d}")
    ctx.hit("sens:tuple-steps" if isinstance(steps, list) else "sens:int-steps")
    ctx.hit("sens:permuted" if permuted else "sens:in-order")
    if names_id != names_attr:
        ctx.hit("sens:id-order!=attribute-order")
    if float(scale) != 1.0:
        ctx.hit("sens:limit_scale!=1")

    def cmp(clause, impl, model_value):
        if impl != model_value:
            ctx.disagree(f"C16.{clause}", case, _short(impl), _short(model_value))
            return False
        return True

    cmp("sens.count", [len(sims), total, len(psamples)], [ans["count"]] * 3)
    cmp("sens.shape", shape, ans["shape"])
    ptol = [phys_tol(lo, hi) for lo, hi in dims]

    def entry(k):
        """(centre values, limits) in id order of the k-th entry of the result"""
        rec = sims[int(samples[k].log_likelihood)]
        cm = psamples[k].model.perturb
        cell_priors = sorted({p for _, p in cm.path_priors_tuples}, key=lambda p: p.id)
        return rec, [rec["perturb"][nm] for nm in names_id], [(float(p.lower_limit), float(p.upper_limit)) for p in cell_priors]

    entries = []
    try:
        entries = [entry(k) for k in range(total)]
    except Exception as e:
        ctx.fail("C16-sens-entry", f"an entry of the sensitivity result cannot be traced to its fit ({type(e).__name__})", case, str(e)[:200])
        return
    if total == ans["count"]:
        # implementation values passed through Prior.value_for: tolerance, see phys_tol
        bad = None
        for k, (rec, centre, lims) in enumerate(entries):
            for i in range(d):
                mc = ans["cells"][k][i]
                rc, rlo, rhi = (parse_rat(x) for x in ans["rat_cells"][k][i])
                if (abs(F(centre[i]) - F(h2f(mc[3]))) > ptol[i] or abs(F(lims[i][0]) - F(h2f(mc[4]))) > ptol[i]
                        or abs(F(lims[i][1]) - F(h2f(mc[5]))) > ptol[i]):
                    bad = ("float", k, i, centre[i], lims[i], [h2f(x) for x in mc[3:]])
                elif abs(F(centre[i]) - rc) > ptol[i] or abs(F(lims[i][0]) - rlo) > ptol[i] or abs(F(lims[i][1]) - rhi) > ptol[i]:
                    bad = ("rat", k, i, centre[i], lims[i], [float(rc), float(rlo), float(rhi)])
                if bad:
                    break
            if bad:
                break
        if bad:
            ctx.disagree("C16.sens.cells", case, bad[:5], bad[5])
        ans2 = float_physical_sens(ctx, case, req, ans, entries, d)
        if ans2 is not None:
            sens_generation(ctx, case, sens, ans, ans2, req["dims"])
        # job number of the fit behind each entry (the s-th performed job has number arrivals[s])
        cmp("sens.order", [arrivals[int(rec["seq"])] for rec, _, _ in entries], ans["order"])
    # results.csv
    header, body = None, None
    try:
        with open(sens.results_path) as f:
            rows = [[c.strip() for c in row] for row in csv.reader(f)]
        header, body = rows[0], rows[1:]
        cmp("sens.headers", header[1:1 + d], ans["headers"])
    except FileNotFoundError:
        ctx.hit("sens:no-results-csv")

    # ---- oracle
    want_total = math.prod(per_dim)
    float_steps = any(int(1 / (1 / m)) != m for m in per_dim)
    if len(sims) != want_total or total != want_total or len(psamples) != want_total:
        ctx.fail("C16-float-steps" if float_steps else "C16-sens-cell-count",
                 f"sensitivity mapping with steps {per_dim} ran {len(sims)} cells and reports {total}, not {want_total}", case)
        return
    if shape != per_dim:
        ctx.fail("C16-sens-shape", f"sensitivity result reports shape {shape} for steps {per_dim}", case)
        return
    s_frac = Fraction(float(scale))
    seen = set()
    for k, (rec, centre, lims) in enumerate(entries):
        idx = unravel(k, per_dim)
        for i, (lo, hi) in enumerate(dims):
            w = F(hi) - F(lo)
            m = per_dim[i]
            c_exact = F(lo) + w * Fraction(2 * idx[i] + 1, 2 * m)
            lo_u = max(Fraction(0), Fraction(2 * idx[i] + 1, 2 * m) - s_frac / (2 * m))
            hi_u = min(Fraction(1), Fraction(2 * idx[i] + 1, 2 * m) + s_frac / (2 * m))
            if abs(F(centre[i]) - c_exact) > ptol[i]:
                ctx.fail("C16-sens-order" if permuted else "C16-sens-centre",
                         f"entry {k} of the sensitivity result is not the perturbation at cell {idx} (row-major)", case,
                         {"entry": k, "dimension": i, "value": centre[i], "expected": float(c_exact)})
                return
            if abs(F(lims[i][0]) - (F(lo) + w * lo_u)) > ptol[i] or abs(F(lims[i][1]) - (F(lo) + w * hi_u)) > ptol[i]:
                ctx.fail("C16-sens-limits", f"perturb model of entry {k} does not have the limits of cell {idx}", case,
                         {"entry": k, "dimension": i, "limits": lims[i], "expected": [float(F(lo) + w * lo_u), float(F(lo) + w * hi_u)]})
                return
        seen.add(tuple(idx))
    if body is not None:
        if len(body) != want_total or [int(r[0]) for r in body] != list(range(want_total)):
            ctx.fail("C16-sens-csv-rows", "results.csv of the sensitivity run does not list the cells in order", case)
            return
        names = header[1:1 + d]
        for k, (rec, centre, lims) in enumerate(entries):
            for col, nm in enumerate(names):
                v = float(body[k][1 + col])
                want = rec["perturb"].get(nm)
                if want is None or abs(F(v) - F(want)) > phys_tol(v, want):
                    ctx.fail("C16-sensitivity-label-order" if sorted(names) == sorted(names_id) and names != names_id else "C16-sens-csv-row",
                             f"results.csv column '{nm}' of row {k} holds {v!r} but the perturbation fitted there has {nm}={want!r}", case,
                             {"header": names, "row": body[k], "perturbation": rec["perturb"]})
                    return
        # directory labels name the perturbation of the cell (tolerant of float formatting)
        for k, (rec, centre, lims) in enumerate(entries[:: max(1, want_total // 5)]):
            path = rec.get("path") or ""
            # only the cell's own label component (the scratch directory name may contain "a_1")
            comps = [c for c in path.replace("\\", "/").split("/") if c]
            label = next((c for c in reversed(comps) if not c.startswith("[")), "")
            for nm in names_id:
                key = f"{nm}_"
                pos = 0 if label.startswith(key) else label.find("_" + key)
                if pos < 0:
                    continue
                tail = label[pos + len(key) + (0 if label.startswith(key) else 1):]
                num = ""
                for ch in tail:
                    if ch in "0123456789.-+e":
                        num += ch
                    else:
                        break
                try:
                    v = float(num.rstrip("e-+."))
                except ValueError:
                    continue
                if abs(v - rec["perturb"][nm]) > 1e-6 * max(1.0, abs(v)):
                    ctx.fail("C16-sensitivity-label-order" if names_attr != names_id else "C16-sens-label",
                             f"output directory of a cell is labelled {nm}={v!r} but the perturbation fitted there has {nm}={rec['perturb'][nm]!r}",
                             case, {"path": path[-120:], "perturbation": rec["perturb"]})
                    return


# ---------------------------------------------------------------------------------------------
# ResultBuilder fed directly


class _R:
    def __init__(self, tag):
        self.samples_summary = tag


def run_builder(ctx, cfg, case, label="gen"):
    total, arrivals = case["total"], case["arrivals"]
    builder = ResultBuilder(lists=[[0.0]] * total, grid_priors=[], paths=[None] * total)
    for number, tag in arrivals:
        builder.add(JobResult(_R(tag), [], number))
    out = [-1 if isinstance(s, Placeholder) else int(s) for s in builder.sample_summaries]
    ans = ctx.lean.ask({"p": "C16", "q": "builder", "total": total, "arrivals": arrivals})
    if "driver_error" in ans:
        ctx.disagree("C16.driver", case, None, ans)
        return
    ctx.case(case, nontrivial=len(arrivals) >= 3, sample=None)
    ctx.hit("builder:complete" if -1 not in out else "builder:with-placeholders")
    if out != ans["out"]:
        ctx.disagree("C16.builder", case, out, ans["out"])
    last = {}
    for number, tag in arrivals:
        last[number] = tag
    want = [last.get(k, -1) for k in range(total)]
    if out != want:
        ctx.fail("C16-builder-order", "ResultBuilder does not report result k at position k", case, {"got": out, "want": want})


# ---------------------------------------------------------------------------------------------
# sweeps: the float effects the property is about


def sweep_steps(ctx, cfg, nmax):
    """number of lattice points for every n <= nmax (one dimension), through GridSearch.make_lists"""
    search = CellSearch()
    search.paths = new_paths(ctx, "steps")
    p = af.UniformPrior(0.0, 1.0)
    ns = list(range(1, nmax + 1))
    got = []
    overflow = []
    for n in ns:
        lists = af.SearchGridSearch(search=search, number_of_steps=n).make_lists([p])
        got.append(len(lists))
        if len(lists) == n and n > 1:
            r = GridSearchResult(None, lists, [p])
            try:
                if r.upper_limits_lists[-1][0] > 1.0:
                    overflow.append(n)
            except Exception:
                overflow.append(n)
    ans = ctx.lean.ask({"p": "C16", "q": "steps", "cfg": cfg, "ns": ns})
    ctx.case({"sweep": "steps", "nmax": nmax}, nontrivial=True)
    if ans.get("counts") != got:
        bad = [n for n, a, b in zip(ns, got, ans.get("counts", [])) if a != b][:5]
        ctx.disagree("C16.sweep.steps", {"kind": "steps", "ns": bad}, [got[n - 1] for n in bad], [ans["counts"][n - 1] for n in bad])
    wrong = [n for n, c in zip(ns, got) if c != n]
    ctx.notes["step_counts_checked_up_to_n"] = nmax
    ctx.notes["n_with_wrong_cell_count"] = len(wrong)
    if wrong:
        n = wrong[0]
        ctx.fail("C16-float-steps" if got[n - 1] == int(1 / (1 / n)) else "C16-cell-count",
                 f"GridSearch(number_of_steps={n}) makes {got[n - 1]} steps ({len(wrong)} such n <= {nmax})",
                 {"kind": "steps", "ns": wrong[:10]}, {"first": wrong[:10]})
    ctx.notes["n_with_unit_upper_limit_above_1"] = len(overflow)
    if overflow:
        n = overflow[0]
        ctx.fail("C16-upper-unit-overflow", f"GridSearchResult.upper_limits_lists exceeds 1 for n={n} ({len(overflow)} such n <= {nmax}); "
                 "physical_upper_limits_lists then raises", {"kind": "steps", "ns": overflow[:10]}, {"first": overflow[:10]})


def sweep_shape(ctx, cfg, cap):
    pairs = []
    for d in range(1, 7):
        n = 1
        while n ** d <= (cap if d > 1 else 400):
            pairs.append((n, d))
            n += 1
    got = []
    for n, d in pairs:
        r = GridSearchResult(None, [[0.0] * d] * (n ** d), [])
        got.append([int(s) for s in r.shape])
    ans = ctx.lean.ask({"p": "C16", "q": "shape", "cfg": cfg, "pairs": [[n ** d, d] for n, d in pairs]})
    ctx.case({"sweep": "shape", "cap": cap}, nontrivial=True)
    model = [[s] * d for s, (n, d) in zip(ans.get("sides", []), pairs)]
    if model != got:
        bad = [i for i in range(len(pairs)) if i >= len(model) or model[i] != got[i]][:5]
        ctx.disagree("C16.sweep.shape", {"kind": "shape", "pairs": [pairs[i] for i in bad]}, [got[i] for i in bad], [model[i] for i in bad if i < len(model)])
    wrong = [(n, d) for (n, d), s in zip(pairs, got) if s != [n] * d]
    ctx.notes["shapes_checked"] = len(pairs)
    ctx.notes["shapes_wrong"] = len(wrong)
    if wrong:
        n, d = wrong[0]
        ctx.fail("C16-shape-root", f"a result of {n}^{d} cells reports shape {tuple(got[pairs.index((n, d))])} ({len(wrong)} of {len(pairs)} (n,d) pairs wrong)",
                 {"kind": "shape", "pairs": wrong[:10]}, {"first": wrong[:10]})


def sweep_shape_any(ctx, cfg, cap, big):
    """GridSearchResult built from ANY number of unit lists (not only full grids), d = 1..6: shape, side_length,
    whether GridList.native can reshape a per-cell list, first reported upper unit limit - against sideRound /
    nativeOk / upperUnit; near-power totals n^d - 1, n^d, n^d + 1 up to `big`"""
    from autofit.non_linear.grid.grid_list import GridList
    pairs = [(total, d) for d in range(1, 7) for total in range(1, cap + 1)]
    for d in range(2, 7):
        n = 2
        while n ** d <= big:
            if n ** d > cap and (n % 7 == 3 or (n + 1) ** d > big):
                pairs += [(n ** d - 1, d), (n ** d, d), (n ** d + 1, d)]
            n += 1
    got_side, got_native, got_upper = [], [], []
    for total, d in pairs:
        r = GridSearchResult(None, [[0.0] * d] * total, [])
        shape = [int(x) for x in r.shape]
        got_side.append(shape[0] if shape == [int(r.side_length)] * d else -1)
        try:
            GridList(list(range(total)), r.shape).native
            got_native.append(True)
        except ValueError:
            got_native.append(False)
        got_upper.append(f2h(float(r.upper_limits_lists[0][0])) if total <= 2000 else None)
    ans = ctx.lean.ask({"p": "C16", "q": "shape", "cfg": cfg, "pairs": [[t, d] for t, d in pairs]})
    ctx.case({"sweep": "shape_any", "cap": cap, "big": big}, nontrivial=True)
    if "driver_error" in ans:
        ctx.disagree("C16.driver", {"kind": "shape_any", "cap": cap, "big": big}, None, _short(ans))
        return
    for name, got, model in (("side", got_side, ans.get("sides")), ("native_ok", got_native, ans.get("native_ok")),
                             ("upper_first", got_upper, [u if g is not None else None for u, g in zip(ans.get("upper_first", []), got_upper)])):
        if got != model:
            bad = [i for i in range(len(pairs)) if model is None or i >= len(model) or got[i] != model[i]][:5]
            ctx.disagree(f"C16.sweep.shape_any.{name}", {"kind": "shape_any", "cap": cap, "big": big, "pairs": [pairs[i] for i in bad]},
                         [got[i] for i in bad], [model[i] for i in bad] if model else None)
    ctx.notes["shapes_of_arbitrary_totals_checked"] = len(pairs)
    # the property speaks about full grids only: n^d results report (n,)*d and can be reshaped
    for (total, d), side, ok in zip(pairs, got_side, got_native):
        n = round(total ** (1.0 / d))
        n = next((m for m in (n - 1, n, n + 1) if m >= 1 and m ** d == total), None)
        if n is not None and (side != n or not ok):
            ctx.fail("C16-shape-root", f"a result of {n}^{d} cells reports side {side}" + ("" if ok else " and native cannot reshape it"),
                     {"kind": "shape_any", "cap": cap, "big": big, "pairs": [[total, d]]}, {"total": total, "d": d})
            break
    ctx.hit("shape-any:non-powers-compared")


# ---------------------------------------------------------------------------------------------


def one_case(ctx, cfg, case, label="gen"):
    kind = case.get("kind")
    if kind == "grid":
        run_grid(ctx, cfg, case, label)
    elif kind == "sens":
        run_sens(ctx, cfg, case, label)
    elif kind == "builder":
        run_builder(ctx, cfg, case, label)
    elif kind == "steps":
        sweep_steps(ctx, cfg, max(case["ns"]))
    elif kind == "shape":
        sweep_shape(ctx, cfg, max(n ** d for n, d in case["pairs"]))
    elif kind == "shape_any":
        sweep_shape_any(ctx, cfg, case.get("cap", 300), case.get("big", 200000))


def setup(ctx):
    tempfile.tempdir = str(scratch_dir())
    ctx.rule = RULE
    ctx.assumptions = [
        "the per-cell search is a mock that does no sampling and bypasses NonLinearSearch.fit's file output; "
        "GridSearch / Sensitivity / ResultBuilder / GridSearchResult / GridList run unmodified",
        "completion orders are produced by a stand-in for Process.run_jobs that performs the jobs in a permuted "
        "order in-process (real multiprocessing is C14's subject)",
        "cell limits of GridSearch compared bit-exactly with the Float layer of the model and within 8 ulp of the "
        "larger prior limit with the exact Rat layer; values that pass through Prior.value_for (physical_* lists, "
        "all Sensitivity limits) within 1e-11 relative + 1e-13 (rounding of value_for is property C02)",
    ]
    if not install_pool():
        ctx.hit("no-Process-name-to-replace")
    cfg = probe_cfg(ctx)
    ctx.notes["cfg_probed_on_real_code"] = cfg
    return cfg


def run(ctx):
    cfg = setup(ctx)
    for f in sorted((VERIF / "corpus" / "C16").glob("*.json")):
        one_case(ctx, cfg, json.loads(f.read_text())["case"], label=f.name)
    quick = ctx.tier == "quick"
    import time
    t = time.time()

    def lap(name):
        nonlocal t
        ctx.notes.setdefault("seconds_per_phase", {})[name] = round(time.time() - t, 1)
        t = time.time()

    lap("setup+corpus")
    sweep_steps(ctx, cfg, 2000 if quick else 4000)
    lap("sweep_steps")
    sweep_shape(ctx, cfg, 20000 if quick else 200000)
    lap("sweep_shape")
    sweep_shape_any(ctx, cfg, 300 if quick else 800, 200000 if quick else 1000000)
    lap("sweep_shape_any")
    for _ in range(ctx.n(300, 3000)):
        run_builder(ctx, cfg, gen_builder_case(ctx.rng))
    lap("builder")
    for i in range(ctx.n(50, 230)):
        cap = 200 if quick else (1400 if i % 40 == 0 else 400)
        run_grid(ctx, cfg, gen_grid_case(ctx.rng, cap))
    lap("grid")
    for _ in range(ctx.n(80, 600)):
        run_sens(ctx, cfg, gen_sens_case(ctx.rng, 60 if quick else 150))
    lap("sens")


def replay(ctx, payload):
    cfg = setup(ctx)
    case = payload.get("case") or payload.get("disagreements", [{}])[0].get("case")
    one_case(ctx, cfg, case, label="replay")
