"""C08 — models survive every persistence round trip (dict/JSON, pickle/dill, database rows).

oracle: equivalence of the real model before/after (paths, prior descriptors, constants, sharing
partition, count, outcome for path-valued vectors incl. assertions; order for pickle and database);
correspondence: parameter order after a dictionary reload vs Lean `reloadDict` (fresh ids in order
of first occurrence), after pickle/database vs `reloadKeepingIds`."""
import json
import pickle

import dill
import numpy as np

from common import f2h, VERIF
import gen_comp
import extract_comp as X
import c01
import c03

import autofit as af
from autofit import database as db
from autofit.database.sqlalchemy_ import sa
from autofit import exc

RULE = (
    "C03 programs (nested models/collections, shared priors, constants, tuples incl. 12-tuples, arithmetic and "
    "modified priors, arrays, assertions at any depth) x {dict->json->dict x1..3, pickle, dill, database commit + "
    "fresh-session reload}; non-trivial = >=2 parameters and (sharing or arithmetic or tuple or array or assertion)"
)


def paths_of(m):
    return [q for q in (canon_path(m, p) for p in m.paths) if q is not None]


def raw_paths_of(m):
    return sorted(tuple(map(str, p)) for p in m.paths)


def descriptor(p):
    d = X.prior_node(p)
    d["lo"], d["hi"] = f2h(p.lower_limit + 0.0), f2h(p.upper_limit + 0.0)  # -0.0 == 0.0
    for k in ("mean", "sigma"):
        if d.get(k) is not None:
            from common import h2f
            d[k] = f2h(h2f(d[k]) + 0.0)
    return tuple((k, d.get(k)) for k in ("kind", "lo", "hi", "mean", "sigma"))


def canon_path(m, path):
    """operand attribute names of arithmetic priors (caller variable names / left_ / right_, a known
    finding) are replaced by the operand position"""
    from autofit.mapper.prior.arithmetic.compound import CompoundPrior, ModifiedPrior

    out, o = [], m
    for name in path:
        nxt = getattr(o, name) if not isinstance(name, int) else o[name]
        if isinstance(o, (CompoundPrior, ModifiedPrior)):
            # places inside arithmetic nodes are derived: not addressable in the instance, and their
            # names are unstable (known finding C08-arith-names); they are covered by count + values
            return None
        else:
            out.append(str(name))
        o = nxt
    return tuple(out)


def arith_key(m, path, prior):
    """key of a place inside an arithmetic node: the path down to the outermost arithmetic node and
    the prior's descriptor (operand names are unstable)"""
    from autofit.mapper.prior.arithmetic.compound import CompoundPrior, ModifiedPrior

    out, o = ["~arith"], m
    for name in path:
        if isinstance(o, (CompoundPrior, ModifiedPrior)):
            break
        out.append(str(name))
        o = getattr(o, name) if not isinstance(name, int) else o[name]
    return tuple(out) + (str(descriptor(prior)),)


def shape_of(m):
    """everything the property lists, id-free"""
    pp = [(canon_path(m, path), prior) for path, prior in m.path_priors_tuples]
    pp = [(p, pr) for p, pr in pp if p is not None]
    by_id = {}
    for path, prior in pp:
        by_id.setdefault(prior.id, []).append(path)
    partition = sorted(tuple(sorted(v)) for v in by_id.values())
    return {
        "paths": sorted(p for p, _ in pp),
        "descr": sorted((p, descriptor(pr)) for p, pr in pp),
        "consts": sorted((canon_path(m, p), f2h(v + 0.0)) for p, v in m.path_float_tuples if str(p[-1]) != "id" and canon_path(m, p) is not None),
        "id_consts": sorted(tuple(map(str, p)) for p, v in m.path_float_tuples if str(p[-1]) == "id"),
        "partition": partition,
        "count": m.prior_count,
    }


def value_key(m):
    """for each unique prior (in m's parameter order): the smallest of its paths (id-free key)"""
    pp = [(canon_path(m, path) or arith_key(m, path, prior), prior) for path, prior in m.path_priors_tuples]
    by_id = {}
    for path, prior in pp:
        by_id.setdefault(prior.id, []).append(path)
    return [min(by_id[p.id]) for p in m.priors_ordered_by_id]


def outcome(m, values_by_key, ignore=False):
    try:
        v = [values_by_key[k] for k in value_key(m)]
    except KeyError as e:
        return ("keys", str(e)[:120])
    try:
        i = m.instance_from_vector(v, ignore_prior_limits=ignore)
        # the sign of a zero is not kept by the database's float column: -0.0 == 0.0
        return ("ok", json.loads(json.dumps(X.canon_inst(X.inst_of(i))).replace("8000000000000000", "0000000000000000")))
    except exc.FitException as e:
        return ("fit", None)
    except Exception as e:
        return ("err", type(e).__name__ + ":" + str(e)[:80])


def dict_rt(m):
    return af.AbstractPriorModel.from_dict(json.loads(json.dumps(m.dict())))


_engine = None


def db_rt(m):
    global _engine
    if _engine is None:
        _engine = sa.create_engine("sqlite://")
        db.Base.metadata.create_all(_engine)
    s = sa.orm.sessionmaker(bind=_engine)()
    obj = db.Object.from_object(m)
    s.add(obj)
    s.commit()
    oid = obj.id
    s.close()
    s2 = sa.orm.sessionmaker(bind=_engine)()
    obj2 = s2.query(db.Object).filter(db.Object.id == oid).one()
    r = obj2()
    s2.close()
    return r


ROUTES = {
    "dict": (dict_rt, False),
    "dict-x3": (lambda m: dict_rt(dict_rt(dict_rt(m))), False),
    "pickle": (lambda m: pickle.loads(pickle.dumps(m)), True),
    "dill": (lambda m: dill.loads(dill.dumps(m)), True),
    "database": (db_rt, True),
    "database-x2": (lambda m: db_rt(db_rt(m)), True),
}


def nested_assertions(model):
    return any(getattr(m, "_assertions", None) for m in c03.reachable_models(model)[1:])


def holds_model_instance(model):
    from autofit.mapper.model import ModelInstance

    def walk(o, depth=0):
        if isinstance(o, ModelInstance):
            return True
        if depth > 6 or not hasattr(o, "__dict__"):
            return False
        return any(walk(v, depth + 1) for k, v in vars(o).items() if not str(k).startswith("_"))

    return walk(model)


def classify(comp, model, route, what):
    if holds_model_instance(model) and not route.startswith("pickle"):
        return "C08-modelinstance-member"
    has_extra_on_fixed = any(
        isinstance(m, af.Model) and m.prior_count == 0 and any(k not in m.constructor_argument_names for k, _ in X.public_items(m))
        for m in c03.reachable_models(model)
    )
    if route.startswith("dict") and has_extra_on_fixed:
        return "C08-instance-extra-attr"
    from autofit.mapper.prior.tuple_prior import TuplePrior

    has_tuple_on_fixed = any(
        isinstance(m, af.Model) and m.prior_count == 0 and any(isinstance(v, TuplePrior) for _, v in X.public_items(m))
        for m in c03.reachable_models(model)
    )
    if route.startswith("dict") and has_tuple_on_fixed and what in ("instance", "raises", "unusable"):
        return "C08-instance-tuple"
    if route.startswith("database") and X.all_priors(comp) is not None and c01.features(comp)["kinds"] & {"array"}:
        return "C08-database-array"
    return f"C08-{route.split('-')[0]}-{what}"


def one_case(ctx, prog, label="gen"):
    rng = ctx.rng
    try:
        H = gen_comp.run_program(prog)
    except Exception as e:
        ctx.hit("program-rejected:" + type(e).__name__)
        return
    model = H["root"]
    comp = X.node_of(model)
    feats = c01.features(comp)
    n_ids = len(feats["ids"])
    try:
        base_shape = shape_of(model)
    except Exception as e:
        ctx.hit("shape-raised:" + type(e).__name__)
        return
    keys = value_key(model)
    if len(set(keys)) != len(keys):
        ctx.hit("ambiguous-arith-only-priors")
        return
    priors = list(model.priors_ordered_by_id)
    tests = []
    for _ in range(3):
        v = c01.test_vector(rng, model)
        tests.append(dict(zip(keys, v)))
    has_asserts = any(s["op"] == "assert" for s in prog)
    nontrivial = n_ids >= 2 and (feats["places"] > n_ids or bool(feats["kinds"] & {"tuple", "arith", "modif", "array"}) or has_asserts)
    case = {"program": prog, "label": label}
    for route, (fn, keeps_order) in ROUTES.items():
        if route.startswith("dict") and model.prior_count == 0:
            continue  # a model without free parameters is written as a plain instance
        if ctx.tier == "quick" and route in ("dict-x3", "database-x2", "dill") and rng.random() < 0.6:
            continue
        ctx.case({"comp": comp, "route": route}, nontrivial=nontrivial,
                 sample={"program": gen_comp.program_text(prog)[-400:], "route": route, "paths": [".".join(p) for p in base_shape["paths"]][:8]})
        ctx.hit("route:" + route)
        c = dict(case, route=route)
        try:
            r = fn(model)
        except Exception as e:
            ctx.fail(classify(comp, model, route, "raises"), f"{route} round trip raised {type(e).__name__}", c, str(e)[:200])
            continue
        try:
            new_shape = shape_of(r)
        except Exception as e:
            ctx.fail(classify(comp, model, route, "unusable"), f"model reloaded through {route} cannot be queried", c, f"{type(e).__name__}: {e}"[:200])
            continue
        if new_shape["id_consts"] != base_shape["id_consts"]:
            ctx.fail("C08-database-id-const" if route.startswith("database") else f"C08-{route}-id-const",
                     f"{route} round trip turns the id of a component into a float attribute (listed among the fixed values)", c, new_shape["id_consts"][:3])
        bad = [k for k in ("paths", "descr", "consts", "partition", "count") if base_shape[k] != new_shape[k]]
        if bad:
            k = bad[0]
            what = {"paths": "paths", "descr": "prior", "consts": "consts", "partition": "merge-split", "count": "count"}[k]
            ctx.fail(classify(comp, model, route, what),
                     f"{route} round trip changed the model's {k}", c,
                     {"before": str([x for x in base_shape[k] if x not in new_shape[k]][:3]) if isinstance(base_shape[k], list) else base_shape[k],
                      "after": str([x for x in new_shape[k] if x not in base_shape[k]][:3]) if isinstance(new_shape[k], list) else new_shape[k]})
            continue
        # same value for each path -> equal outcome (instance or fit exception from an assertion)
        for vals in tests:
            for ignore in (True, False):
                a, b = outcome(model, vals, ignore), outcome(r, vals, ignore)
                same = a[0] == b[0] and (a[0] != "ok" or X.inst_diff(a[1], b[1], 2 if c01.has_loose(comp) else 0) is None)
                if a[0] == "err" and b[0] == "err":
                    same = True
                if not same:
                    ctx.fail(classify(comp, model, route, "assertions" if not ignore and a[0] != b[0] else "instance"),
                             f"{route} round trip: supplying the same value for each path gives a different outcome", c,
                             {"before": a[0], "after": b[0], "diff": X.inst_diff(a[1], b[1]) if a[0] == b[0] == "ok" else None})
                    break
        if raw_paths_of(model) != raw_paths_of(r):
            ctx.fail("C08-arith-names", f"{route} round trip renames the paths of parameters inside arithmetic priors", c,
                     {"before": [x for x in raw_paths_of(model) if x not in raw_paths_of(r)][:3], "after": [x for x in raw_paths_of(r) if x not in raw_paths_of(model)][:3]})
        if keeps_order and paths_of(model) != paths_of(r):
            ctx.fail(classify(comp, model, route, "order"), f"{route} round trip changed the parameter order", c,
                     {"before": paths_of(model)[:6], "after": paths_of(r)[:6]})
        # ---- correspondence: predicted parameter order
        if route in ("dict", "pickle", "database") and not (route == "dict" and nested_assertions(model)):
            ans = ctx.lean.ask({"p": "C08", "comp": comp, "keep_ids": keeps_order, "route": route})
            if "driver_error" in ans:
                ctx.disagree("driver", c, None, ans)
                continue
            # the model predicts the advertised paths exactly, operand names of arithmetic priors
            # after a reload (left_/right_) included
            impl_paths = [list(map(str, p)) for p in r.paths]
            if impl_paths != ans["paths"]:
                ctx.disagree(f"C08.order.{route}", c, impl_paths[:8], ans["paths"][:8])
            if r.prior_count != ans["count"]:
                ctx.disagree(f"C08.count.{route}", c, r.prior_count, ans["count"])


def fit_rewrite(ctx, prog1, prog2):
    """the model of a database fit that is read, replaced by another model, committed and read again - on the same Fit
    object, in the same session and in a new one - is the model that was written last"""
    try:
        m1 = gen_comp.run_program(prog1)["root"]
        m2 = gen_comp.run_program(prog2)["root"]
        want1, want2 = shape_of(db_rt(m1)), shape_of(db_rt(m2))
    except Exception:  # noqa: the plain routes are examined by one_case
        return
    if want1 == want2 or m1.prior_count == 0 or m2.prior_count == 0:
        return
    case = {"program": prog1, "program2": prog2, "label": "fit-rewrite"}
    engine = sa.create_engine("sqlite://")
    db.Base.metadata.create_all(engine)
    s = sa.orm.sessionmaker(bind=engine)()
    try:
        fit = db.Fit(id="fit-rewrite", is_complete=False)
        fit.model = m1
        s.add(fit)
        s.commit()
        first = shape_of(fit.model)
        fit.model = m2
        s.commit()
        second = shape_of(fit.model)
        s.close()
        s2 = sa.orm.sessionmaker(bind=engine)()
        third = shape_of(s2.query(db.Fit).filter(db.Fit.id == "fit-rewrite").one().model)
        s2.close()
    except Exception as e:  # noqa
        ctx.hit("fit-rewrite-raised:" + type(e).__name__)
        return
    finally:
        engine.dispose()
    ctx.hit("fit-rewrite")
    for got, want, when in ((first, want1, "read after the first write"), (second, want2, "read on the same Fit object after another model was assigned and committed"),
                            (third, want2, "read in a new session after another model was assigned and committed")):
        if got != want:
            bad = [k for k in ("paths", "descr", "consts", "partition", "count") if got[k] != want[k]]
            ctx.fail("C08-fit-model-not-last-written", f"Fit.model {when} is not the model that was written", case,
                     {"differs_in": bad, "got_paths": got["paths"][:5], "want_paths": want["paths"][:5]})
            return


def run(ctx):
    ctx.rule = RULE
    ctx.assumptions = [
        "pickle/dill/SQLite/SQLAlchemy object-graph fidelity is trusted; the database is an in-memory SQLite engine with commit and a fresh session for the reload",
        "user classes importable at load time (harness/vlib.py); reference= substitution not exercised",
    ]
    for f in sorted((VERIF / "corpus" / "C08").glob("*.json")):
        c = json.loads(f.read_text())
        one_case(ctx, c["program"], label=f.name)
    for _ in range(ctx.n(110, 2000)):
        prog = gen_comp.gen_program(ctx.rng, allow_pow=False)
        prog = c03.add_assertions(ctx.rng, prog, n_max=2)
        # a literal False assertion has no dictionary form (and silently removes the node's other
        # assertions from it); a component without free parameters is written as a plain instance
        # and cannot carry assertions: neither is generated here (recorded in DESIGN §6)
        try:
            H = gen_comp.run_program(prog)
            prog = [s for s in prog if not (s["op"] == "assert" and ("lit" in s["expr"] or H[s["h"]].prior_count == 0))]
        except Exception:
            pass
        one_case(ctx, prog)
        if ctx.rng.random() < 0.25:
            simple = dict(allow_pow=False, allow_arith=False, allow_array=False, allow_fixed_obj=False, allow_copy=False)
            fit_rewrite(ctx, gen_comp.gen_program(ctx.rng, **simple), gen_comp.gen_program(ctx.rng, **simple))


def replay(ctx, payload):
    case = payload.get("case") or payload.get("disagreements", [{}])[0].get("case")
    if case.get("label") == "fit-rewrite":
        return fit_rewrite(ctx, case["program"], case["program2"])
    one_case(ctx, case["program"], label="replay")
