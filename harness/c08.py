"""C08 — models survive every persistence round trip (dict/JSON, pickle/dill, database rows).

oracle: equivalence of the real model before/after (paths, prior descriptors, constants, sharing
partition, count, outcome for path-valued vectors incl. assertions; order for pickle and database);
correspondence: parameter order after a dictionary reload vs Lean `reloadDict` (fresh ids in order
of first occurrence), after pickle/database vs `reloadKeepingIds`."""
import json
import pickle

import dill
import numpy as np

from common import f2h, VERIF
import gen_comp
import extract_comp as X
import c01
import c03

import autofit as af
from autofit import database as db
from autofit.database.sqlalchemy_ import sa
from autofit import exc

RULE = (
    "C03 programs (nested models/collections, shared priors, constants, tuples incl. 12-tuples, arithmetic and "
    "modified priors, arrays, assertions at any depth) x {dict->json->dict x1..3, pickle, dill, database commit + "
    "fresh-session reload}; non-trivial = >=2 parameters and (sharing or arithmetic or tuple or array or assertion)"
)


def paths_of(m):
    return [q for q in (canon_path(m, p) for p in m.paths) if q is not None]


def raw_paths_of(m):
    return sorted(tuple(map(str, p)) for p in m.paths)


def descriptor(p):
    d = X.prior_node(p)
    d["lo"], d["hi"] = f2h(p.lower_limit + 0.0), f2h(p.upper_limit + 0.0)  # -0.0 == 0.0
    for k in ("mean", "sigma"):
        if d.get(k) is not None:
            from common import h2f
            d[k] = f2h(h2f(d[k]) + 0.0)
    return tuple((k, d.get(k)) for k in ("kind", "lo", "hi", "mean", "sigma"))


def canon_path(m, path):
    """operand attribute names of arithmetic priors (caller variable names / left_ / right_, a known
    finding) are replaced by the operand position"""
    from autofit.mapper.prior.arithmetic.compound import CompoundPrior, ModifiedPrior

    out, o = [], m
    for name in path:
        nxt = getattr(o, name) if not isinstance(name, int) else o[name]
        if isinstance(o, (CompoundPrior, ModifiedPrior)):
            # places inside arithmetic nodes are derived: not addressable in the instance, and their
            # names are unstable (known finding C08-arith-names); they are covered by count + values
            return None
        else:
            out.append(str(name))
        o = nxt
    return tuple(out)


def arith_key(m, path, prior):
    """key of a place inside an arithmetic node: the path down to the outermost arithmetic node and
    the prior's descriptor (operand names are unstable)"""
    from autofit.mapper.prior.arithmetic.compound import CompoundPrior, ModifiedPrior

    out, o = ["~arith"], m
    for name in path:
        if isinstance(o, (CompoundPrior, ModifiedPrior)):
            break
        out.append(str(name))
        o = getattr(o, name) if not isinstance(name, int) else o[name]
    return tuple(out) + (str(descriptor(prior)),)


def shape_of(m):
    """everything the property lists, id-free"""
    pp = [(canon_path(m, path), prior) for path, prior in m.path_priors_tuples]
    pp = [(p, pr) for p, pr in pp if p is not None]
    by_id = {}
    for path, prior in pp:
        by_id.setdefault(prior.id, []).append(path)
    partition = sorted(tuple(sorted(v)) for v in by_id.values())
    return {
        "paths": sorted(p for p, _ in pp),
        "descr": sorted((p, descriptor(pr)) for p, pr in pp),
        "consts": sorted((canon_path(m, p), f2h(v + 0.0)) for p, v in m.path_float_tuples if str(p[-1]) != "id" and canon_path(m, p) is not None),
        "id_consts": sorted(tuple(map(str, p)) for p, v in m.path_float_tuples if str(p[-1]) == "id"),
        "partition": partition,
        "count": m.prior_count,
    }


def value_key(m):
    """for each unique prior (in m's parameter order): the smallest of its paths (id-free key)"""
    pp = [(canon_path(m, path) or arith_key(m, path, prior), prior) for path, prior in m.path_priors_tuples]
    by_id = {}
    for path, prior in pp:
        by_id.setdefault(prior.id, []).append(path)
    return [min(by_id[p.id]) for p in m.priors_ordered_by_id]


def outcome(m, values_by_key, ignore=False):
    try:
        v = [values_by_key[k] for k in value_key(m)]
    except KeyError as e:
        return ("keys", str(e)[:120])
    try:
        i = m.instance_from_vector(v, ignore_prior_limits=ignore)
        # the sign of a zero is not kept by the database's float column: -0.0 == 0.0
        return ("ok", json.loads(json.dumps(X.canon_inst(X.inst_of(i))).replace("8000000000000000", "0000000000000000")))
    except exc.FitException as e:
        return ("fit", None)
    except Exception as e:
        return ("err", type(e).__name__ + ":" + str(e)[:80])


def dict_rt(m):
    return af.AbstractPriorModel.from_dict(json.loads(json.dumps(m.dict())))


_engine = None


def db_rt(m):
    global _engine
    if _engine is None:
        _engine = sa.create_engine("sqlite://")
        db.Base.metadata.create_all(_engine)
    s = sa.orm.sessionmaker(bind=_engine)()
    obj = db.Object.from_object(m)
    s.add(obj)
    s.commit()
    oid = obj.id
    s.close()
    s2 = sa.orm.sessionmaker(bind=_engine)()
    obj2 = s2.query(db.Object).filter(db.Object.id == oid).one()
    r = obj2()
    s2.close()
    return r


ROUTES = {
    "dict": (dict_rt, False),
    "dict-x3": (lambda m: dict_rt(dict_rt(dict_rt(m))), False),
    "pickle": (lambda m: pickle.loads(pickle.dumps(m)), True),
    "dill": (lambda m: dill.loads(dill.dumps(m)), True),
    "database": (db_rt, True),
    "database-x2": (lambda m: db_rt(db_rt(m)), True),
    # repeated round trips across forms: what was loaded from the database is written to its dictionary form
    "database-then-dict": (lambda m: dict_rt(db_rt(m)), False),
}


def nested_assertions(model):
    return any(getattr(m, "_assertions", None) for m in c03.reachable_models(model)[1:])


def holds_model_instance(model):
    from autofit.mapper.model import ModelInstance

    def walk(o, depth=0):
        if isinstance(o, ModelInstance):
            return True
        if depth > 6 or not hasattr(o, "__dict__"):
            return False
        return any(walk(v, depth + 1) for k, v in vars(o).items() if not str(k).startswith("_"))

    return walk(model)


def classify(comp, model, route, what):
    if holds_model_instance(model) and not route.startswith("pickle"):
        return "C08-modelinstance-member"
    has_extra_on_fixed = any(
        isinstance(m, af.Model) and m.prior_count == 0 and any(k not in m.constructor_argument_names for k, _ in X.public_items(m))
        for m in c03.reachable_models(model)
    )
    dict_leg = route.startswith("dict") or route.endswith("-dict")
    if dict_leg and has_extra_on_fixed:
        return "C08-instance-extra-attr"
    from autofit.mapper.prior.tuple_prior import TuplePrior

    has_tuple_on_fixed = any(
        isinstance(m, af.Model) and m.prior_count == 0 and any(isinstance(v, TuplePrior) for _, v in X.public_items(m))
        for m in c03.reachable_models(model)
    )
    if dict_leg and has_tuple_on_fixed and what in ("instance", "raises", "unusable"):
        return "C08-instance-tuple"
    if route.startswith("database") and X.all_priors(comp) is not None and c01.features(comp)["kinds"] & {"array"}:
        return "C08-database-array"
    return f"C08-{route.split('-')[0]}-{what}"


# ---------------------------------------------------------------------------------------------
# the dictionary form itself (AFModel/DictJson.lean): writer vs `model.dict()`, reader on the REAL dictionary


class Unsupported(Exception):
    """a shape outside the modelled dictionary form (the clause is skipped, the oracle still runs)"""


_PRIOR_TYPES = ("Uniform", "LogUniform", "Gaussian", "LogGaussian")
_DICT_SKIP = ("component_number", "item_number", "id", "cls", "label")


def _dict_items(o):
    """the attributes `dict()` writes: `__dict__` order, private and bookkeeping names dropped"""
    return [(k, v) for k, v in o.__dict__.items() if isinstance(k, str) and k not in _DICT_SKIP and not k.startswith("_")]


def _lit(v):
    if v is None or isinstance(v, bool):
        return {"k": "lit", "v": v}
    if isinstance(v, int):
        return {"k": "lit", "v": {"i": v}}
    if isinstance(v, float):
        return {"k": "lit", "v": {"f": f2h(v)}}
    if isinstance(v, str):
        return {"k": "lit", "v": {"s": v}}
    raise Unsupported(type(v).__name__)


def pn_of(x):
    """the rich wire composition (`PN`) of a model-side object, read from the object graph"""
    import inspect
    from autoconf.class_path import get_class_path
    from autofit.mapper.prior.abstract import Prior
    from autofit.mapper.prior.tuple_prior import TuplePrior
    from autofit.mapper.prior_model.abstract import AbstractPriorModel
    from autofit.mapper.prior_model.array import Array
    from autofit.mapper.prior.arithmetic.compound import CompoundPrior, ModifiedPrior
    from autofit.mapper.prior.arithmetic.assertion import CompoundAssertion
    from autofit.mapper.model import ModelInstance

    if x is None or isinstance(x, (bool, int, float, str)):
        if isinstance(x, (np.floating, np.integer, np.bool_)):
            raise Unsupported("numpy scalar")
        return _lit(x)
    if isinstance(x, Prior):
        kind = X.KIND.get(type(x).__name__)
        if kind is None:
            raise Unsupported(type(x).__name__)
        d = {"k": "prior", "id": int(x.id), "kind": kind, "lo": f2h(x.lower_limit), "hi": f2h(x.upper_limit)}
        if kind in ("Gaussian", "LogGaussian"):
            d["mean"], d["sigma"] = f2h(x.mean), f2h(x.sigma)
        return d
    if isinstance(x, CompoundAssertion):
        return {"k": "both", "x": pn_of(x.assertion_1), "y": pn_of(x.assertion_2)}
    if isinstance(x, CompoundPrior):
        return {"k": "arith", "ct": type(x).__name__, "ln": x._left_name, "rn": x._right_name, "l": pn_of(x._left), "r": pn_of(x._right)}
    if isinstance(x, ModifiedPrior):
        return {"k": "modif", "mt": type(x).__name__, "name": x._prior_name, "x": pn_of(x.prior)}
    asserts = list(getattr(x, "_assertions", None) or [])
    if isinstance(x, af.Collection):
        return {"k": "coll", "n": int(x.item_number), "attrs": [[k, pn_of(v)] for k, v in _dict_items(x)], "asserts": [pn_of(a) for a in asserts]}
    if isinstance(x, AbstractPriorModel) and x.prior_count == 0:
        if not isinstance(x, af.Model) or asserts:
            raise Unsupported("parameter-free " + type(x).__name__)
        return {"k": "inst", "cp": get_class_path(x.cls), "attrs": sorted([k, pn_of(v)] for k, v in _dict_items(x))}
    if isinstance(x, af.Model):
        return {"k": "model", "cp": get_class_path(x.cls), "attrs": [[k, pn_of(v)] for k, v in _dict_items(x)], "asserts": [pn_of(a) for a in asserts]}
    if isinstance(x, TuplePrior):
        return {"k": "tuple", "attrs": [[k, pn_of(v)] for k, v in _dict_items(x)]}
    if isinstance(x, Array):
        items = _dict_items(x)
        if asserts or [k for k, _ in items[:2]] != ["shape", "indices"] or any(not k.startswith("prior") for k, _ in items[2:]):
            raise Unsupported("array with other attributes")
        return {"k": "array", "shape": [int(n) for n in x.shape], "attrs": [[k, pn_of(v)] for k, v in items[2:]]}
    if isinstance(x, (list, tuple)):
        return {"k": "list", "tuple": isinstance(x, tuple), "items": [pn_of(v) for v in x]}
    if isinstance(x, (dict, ModelInstance, np.ndarray, type)) or not hasattr(x, "__dict__"):
        raise Unsupported(type(x).__name__)
    # an instance of a user class: its constructor arguments (autoconf `instance_as_dict`)
    spec = inspect.getfullargspec(type(x).__init__)
    if spec.varkw or hasattr(x, "__identifier_fields__") or hasattr(x, "__exclude_fields__") or hasattr(x, "__nullify_fields__"):
        raise Unsupported("instance with special fields")
    return {"k": "inst", "cp": get_class_path(type(x)), "attrs": sorted([a, pn_of(getattr(x, a))] for a in spec.args[1:] if hasattr(x, a))}


def jv_of(d):
    """canonical wire form of a real dictionary. The entries of an `arguments` dictionary keep their order (it is
    the order in which the reader meets the parameters); the fields of a typed dictionary (`type`, `class_path`,
    `assertions`, `arguments`, limits ...) are read by key: sorted. An `instance` dictionary is built by keyword
    from a set of argument names: its arguments are sorted too."""
    if d is None or isinstance(d, bool):
        return d
    if isinstance(d, (np.floating, np.integer, np.bool_)):
        raise Unsupported("numpy scalar")
    if isinstance(d, int):
        return {"i": d}
    if isinstance(d, float):
        return {"f": f2h(d)}
    if isinstance(d, str):
        return {"s": d}
    if isinstance(d, (list, tuple)):
        return [jv_of(v) for v in d]
    if isinstance(d, dict):
        return canon_fields({"o": [[str(k), jv_of(v)] for k, v in d.items()]})
    raise Unsupported(type(d).__name__)


def canon_fields(j):
    """field order of one typed dictionary in wire form (see `jv_of`)"""
    fields = j["o"]
    keys = [k for k, _ in fields]
    if "type" in keys and isinstance(dict(fields)["type"], dict) and "s" in dict(fields)["type"]:
        if dict(fields)["type"] == {"s": "instance"}:
            fields = [[k, ({"o": sorted(v["o"])} if k == "arguments" and isinstance(v, dict) and "o" in v else v)] for k, v in fields]
        fields = sorted(fields, key=lambda kv: kv[0])
    return {"o": fields}


def canon_answer(j):
    """the same canonical field order for a dictionary answered by the model"""
    if isinstance(j, list):
        return [canon_answer(v) for v in j]
    if isinstance(j, dict) and "o" in j:
        return canon_fields({"o": [[k, canon_answer(v)] for k, v in j["o"]]})
    return j


def _prior_ids(d, out):
    if isinstance(d, dict):
        if d.get("type") in _PRIOR_TYPES and "id" in d:
            out.add(d["id"])
        for v in d.values():
            _prior_ids(v, out)
    elif isinstance(d, list):
        for v in d:
            _prior_ids(v, out)
    return out


def rankify(d, ranks=None):
    """the dictionary with every prior id replaced by its rank among the ids it mentions"""
    if ranks is None:
        ranks = {i: k for k, i in enumerate(sorted(_prior_ids(d, set())))}
    if isinstance(d, dict):
        if d.get("type") in _PRIOR_TYPES and "id" in d:
            return {k: (ranks[v] if k == "id" else v) for k, v in d.items()}
        return {k: rankify(v, ranks) for k, v in d.items()}
    if isinstance(d, list):
        return [rankify(v, ranks) for v in d]
    return d


def first_diff(a, b, path=""):
    if type(a) is not type(b):
        return (path, a if not isinstance(a, (dict, list)) else type(a).__name__, b if not isinstance(b, (dict, list)) else type(b).__name__)
    if isinstance(a, dict):
        if list(a) != list(b):
            return (path, list(a), list(b))
        for k in a:
            d = first_diff(a[k], b[k], path + "/" + str(k))
            if d:
                return d
        return None
    if isinstance(a, list):
        if len(a) != len(b):
            keys = lambda l: [x[0] if isinstance(x, list) and x and isinstance(x[0], str) else "." for x in l]
            return (path, keys(a), keys(b))
        for j, (x, y) in enumerate(zip(a, b)):
            tag = x[0] if isinstance(x, list) and x and isinstance(x[0], str) else str(j)
            d = first_diff(x, y, path + "/" + tag)
            if d:
                return d
        return None
    return None if a == b else (path, a, b)


_defaults = None


def class_defaults():
    """scalar defaults of the constructor arguments of the user classes, by class path (what `cls(**arguments)`
    supplies for an argument the dictionary does not give)"""
    global _defaults
    if _defaults is None:
        import inspect
        import vlib
        from autoconf.class_path import get_class_path

        _defaults = []
        for cls in vlib.CLASSES.values():
            args = []
            for name, prm in inspect.signature(cls.__init__).parameters.items():
                d = prm.default
                if name != "self" and d is not inspect.Parameter.empty and (d is None or isinstance(d, (bool, int, float, str))):
                    args.append([name, _lit(d)["v"]])
            _defaults.append([get_class_path(cls), args])
    return _defaults


def report_of(r):
    ids = sorted({p.id for p in r.priors})
    rank = {i: k for k, i in enumerate(ids)}
    pp = r.path_priors_tuples
    return {"paths": [list(map(str, p)) for p, _ in pp], "path_ranks": [rank[pr.id] for _, pr in pp],
            "count": r.prior_count, "redict": jv_of(rankify(r.dict()))}


def dictform_clauses(ctx, model, case):
    """(1) Lean `render (toDV t)` of the extracted composition == the real `model.dict()`;
    (2) Lean `fromDV` run on the REAL dictionary == the real reloaded model: advertised paths in parameter order,
        identity of the prior at every place (ranks), count, and the reloaded model's own dictionary;
    (3) the model's own round trip(s) `dictRTn` of the extracted composition == the same real reload(s)."""
    try:
        pn = pn_of(model)
        real = model.dict()
        real_jv = jv_of(real)
        text = json.dumps(real)
    except Unsupported as e:
        ctx.hit("dictform-unsupported:" + str(e)[:40])
        return
    times = 2 if ctx.rng.random() < 0.3 else 1
    c = dict(case, route="dict-form")
    ans = ctx.lean.ask({"p": "C08", "q": "todict", "pn": pn, "times": times, "defaults": class_defaults()})
    if "driver_error" in ans:
        ctx.disagree("driver", c, None, ans)
        return
    ctx.hit("dictform:todict")
    if canon_answer(ans["dict"]) != real_jv:
        ctx.disagree("C08.dictform.writer", c, first_diff(real_jv, canon_answer(ans["dict"])), "model.dict() differs from the modelled dictionary")
    pickle_clause(ctx, model, pn, c)
    try:
        r = af.AbstractPriorModel.from_dict(json.loads(text))
        rep = report_of(r)
        rn, repn = r, rep
        for _ in range(times - 1):
            rn = af.AbstractPriorModel.from_dict(json.loads(json.dumps(rn.dict())))
            repn = report_of(rn)
    except Unsupported as e:
        ctx.hit("dictform-unsupported-reload:" + str(e)[:40])
        return
    except Exception as e:
        ctx.hit("dictform-reload-raised:" + type(e).__name__)  # reported by the oracle of the dict route
        return
    ans2 = ctx.lean.ask({"p": "C08", "q": "fromdict", "dict": jv_of(json.loads(text)), "defaults": class_defaults()})
    if "driver_error" in ans2:
        ctx.disagree("driver", c, None, ans2)
        return
    ctx.hit("dictform:fromdict")
    for who, got, want in (("reader", ans2, rep), ("roundtrip", ans["reload"], repn)):
        for k in ("paths", "path_ranks", "count"):
            if got[k] != want[k]:
                ctx.disagree(f"C08.dictform.{who}.{k}", c, want[k][:8] if isinstance(want[k], list) else want[k],
                             got[k][:8] if isinstance(got[k], list) else got[k])
                break
        else:
            if canon_answer(got["redict"]) != want["redict"]:
                ctx.disagree(f"C08.dictform.{who}.redict", c, first_diff(want["redict"], canon_answer(got["redict"])), "dictionary of the reloaded model differs")
    assertion_clause(ctx, r, text, c)


def all_prior_objects(o, out=None, seen=None, depth=0):
    """every Prior object reachable from `o` (private attributes and assertions included), by id"""
    from autofit.mapper.prior.abstract import Prior

    out = {} if out is None else out
    seen = set() if seen is None else seen
    if id(o) in seen or depth > 12:
        return out
    seen.add(id(o))
    if isinstance(o, Prior):
        out.setdefault(o.id, o)
        return out
    if isinstance(o, (list, tuple)):
        for v in o:
            all_prior_objects(v, out, seen, depth + 1)
    elif isinstance(o, dict):
        for v in o.values():
            all_prior_objects(v, out, seen, depth + 1)
    elif hasattr(o, "__dict__") and not isinstance(o, type):
        for k, v in vars(o).items():
            if k != "_frozen_cache":
                all_prior_objects(v, out, seen, depth + 1)
    return out


def real_verdicts(r, arguments):
    """the verdict of every assertion of the real model: a component's own assertions, then its attributes'"""
    out = []

    def visit(m):
        for a in list(getattr(m, "_assertions", None) or []):
            try:
                out.append(bool(a.instance_for_arguments(arguments)))
            except Exception as e:
                out.append("err:" + type(e).__name__)
        for _, v in _dict_items(m):
            if isinstance(v, (af.Collection, af.Model)):
                visit(v)

    visit(r)
    return out


def assertion_clause(ctx, r, text, c):
    """Lean: `fromDV` on the REAL dictionary, then `assertVerdicts` for values given per identity; real: the
    reloaded model's own assertion objects evaluated on the same values"""
    priors = all_prior_objects(r)
    ids = sorted(_prior_ids(r.dict(), set()))
    if not ids or any(i not in priors for i in ids):
        ctx.hit("dictform-asserts-skipped")
        return
    for _ in range(2):
        vals = []
        for i in ids:
            lo, hi = max(float(priors[i].lower_limit), -50.0), min(float(priors[i].upper_limit), 50.0)
            if lo > hi:
                lo, hi = hi, lo
            vals.append(ctx.rng.uniform(lo, hi))
        want = real_verdicts(r, {priors[i]: v for i, v in zip(ids, vals)})
        if not want:
            return
        ans = ctx.lean.ask({"p": "C08", "q": "asserts", "dict": jv_of(json.loads(text)), "vals": [f2h(v) for v in vals],
                            "defaults": class_defaults()})
        if "driver_error" in ans:
            ctx.disagree("driver", c, None, ans)
            return
        ctx.hit("dictform:asserts")
        got = ans["verdicts"]
        if len(got) != len(want) or any(w != g for w, g in zip(want, got) if not isinstance(w, str)):
            ctx.disagree("C08.dictform.assert-verdicts", c, want, got)
            return


def pickle_clause(ctx, model, pn, c):
    """the stated assumption about pickle (same attribute tree, ids verbatim) checked on the real object, and what
    the model derives from it (paths in parameter order, ids, dictionary) compared with the real reloaded model"""
    try:
        rp = pickle.loads(pickle.dumps(model))
        pn2 = pn_of(rp)
        real = jv_of(rp.dict())
    except Unsupported:
        return
    if pn2 != pn:
        ctx.disagree("C08.pickle.assumption", c, first_diff(pn, pn2), "pickle did not restore the same attribute tree with the same ids")
    ans = ctx.lean.ask({"p": "C08", "q": "pickle", "pn": pn})
    if "driver_error" in ans:
        ctx.disagree("driver", c, None, ans)
        return
    ctx.hit("dictform:pickle")
    pp = rp.path_priors_tuples
    if ans["paths"] != [list(map(str, p)) for p, _ in pp] or ans["ids"] != [int(pr.id) for _, pr in pp]:
        ctx.disagree("C08.pickle.order", c, [list(map(str, p)) for p, _ in pp][:8], ans["paths"][:8])
    elif canon_answer(ans["dict"]) != real:
        ctx.disagree("C08.pickle.dict", c, first_diff(real, canon_answer(ans["dict"])), "dictionary of the unpickled model differs")


def dbcounter_clause(ctx, r, c):
    """the counter of appended items of every collection rebuilt from database rows vs Lean `nextPosition` of its
    member names (the rows do not store it)"""
    seen = 0

    def visit(m):
        nonlocal seen
        if isinstance(m, af.Collection) and seen < 2:
            seen += 1
            names = [k for k, _ in _dict_items(m)]
            ans = ctx.lean.ask({"p": "C08", "q": "dbcounter", "names": names})
            if "driver_error" in ans:
                ctx.disagree("driver", c, None, ans)
                return
            ctx.hit("dictform:dbcounter")
            got = getattr(m, "item_number", "missing")
            if got != ans["item_number"] or isinstance(got, bool) or not isinstance(got, int):
                ctx.disagree("C08.database.item_number", c, got, ans["item_number"])
        for _, v in _dict_items(m):
            if isinstance(v, (af.Collection, af.Model)):
                visit(v)

    visit(r)


def one_case(ctx, prog, label="gen"):
    rng = ctx.rng
    try:
        H = gen_comp.run_program(prog)
    except Exception as e:
        ctx.hit("program-rejected:" + type(e).__name__)
        return
    model = H["root"]
    comp = X.node_of(model)
    feats = c01.features(comp)
    n_ids = len(feats["ids"])
    try:
        base_shape = shape_of(model)
    except Exception as e:
        ctx.hit("shape-raised:" + type(e).__name__)
        return
    keys = value_key(model)
    if len(set(keys)) != len(keys):
        ctx.hit("ambiguous-arith-only-priors")
        return
    priors = list(model.priors_ordered_by_id)
    tests = []
    for _ in range(3):
        v = c01.test_vector(rng, model)
        tests.append(dict(zip(keys, v)))
    has_asserts = any(s["op"] == "assert" for s in prog)
    nontrivial = n_ids >= 2 and (feats["places"] > n_ids or bool(feats["kinds"] & {"tuple", "arith", "modif", "array"}) or has_asserts)
    case = {"program": prog, "label": label}
    if model.prior_count > 0 and not holds_model_instance(model) and (ctx.tier == "quick" or label != "gen" or rng.random() < 0.45):
        dictform_clauses(ctx, model, case)
    for route, (fn, keeps_order) in ROUTES.items():
        if route.startswith("dict") and model.prior_count == 0:
            continue  # a model without free parameters is written as a plain instance
        if route == "database-then-dict" and (model.prior_count == 0 or (label == "gen" and rng.random() < (0.5 if ctx.tier == "quick" else 0.7))):
            continue
        if ctx.tier == "quick" and route in ("dict-x3", "database-x2", "dill") and rng.random() < 0.6:
            continue
        ctx.case({"comp": comp, "route": route}, nontrivial=nontrivial,
                 sample={"program": gen_comp.program_text(prog)[-400:], "route": route, "paths": [".".join(p) for p in base_shape["paths"]][:8]})
        ctx.hit("route:" + route)
        c = dict(case, route=route)
        try:
            r = fn(model)
        except Exception as e:
            lost_counter = isinstance(e, AttributeError) and "item_number" in str(e)
            ctx.fail("C08-db-collection-item-number" if lost_counter else classify(comp, model, route, "raises"),
                     f"{route} round trip raised {type(e).__name__}", c, str(e)[:200])
            continue
        try:
            new_shape = shape_of(r)
        except Exception as e:
            ctx.fail(classify(comp, model, route, "unusable"), f"model reloaded through {route} cannot be queried", c, f"{type(e).__name__}: {e}"[:200])
            continue
        if route == "database":
            dbcounter_clause(ctx, r, c)
        if new_shape["id_consts"] != base_shape["id_consts"]:
            ctx.fail("C08-database-id-const" if route.startswith("database") else f"C08-{route}-id-const",
                     f"{route} round trip turns the id of a component into a float attribute (listed among the fixed values)", c, new_shape["id_consts"][:3])
        bad = [k for k in ("paths", "descr", "consts", "partition", "count") if base_shape[k] != new_shape[k]]
        if bad:
            k = bad[0]
            what = {"paths": "paths", "descr": "prior", "consts": "consts", "partition": "merge-split", "count": "count"}[k]
            ctx.fail(classify(comp, model, route, what),
                     f"{route} round trip changed the model's {k}", c,
                     {"before": str([x for x in base_shape[k] if x not in new_shape[k]][:3]) if isinstance(base_shape[k], list) else base_shape[k],
                      "after": str([x for x in new_shape[k] if x not in base_shape[k]][:3]) if isinstance(new_shape[k], list) else new_shape[k]})
            continue
        # same value for each path -> equal outcome (instance or fit exception from an assertion)
        for vals in tests:
            for ignore in (True, False):
                a, b = outcome(model, vals, ignore), outcome(r, vals, ignore)
                same = a[0] == b[0] and (a[0] != "ok" or X.inst_diff(a[1], b[1], 2 if c01.has_loose(comp) else 0) is None)
                if a[0] == "err" and b[0] == "err":
                    same = True
                if not same:
                    ctx.fail(classify(comp, model, route, "assertions" if not ignore and a[0] != b[0] else "instance"),
                             f"{route} round trip: supplying the same value for each path gives a different outcome", c,
                             {"before": a[0], "after": b[0], "diff": X.inst_diff(a[1], b[1]) if a[0] == b[0] == "ok" else None})
                    break
        if raw_paths_of(model) != raw_paths_of(r):
            ctx.fail("C08-arith-names", f"{route} round trip renames the paths of parameters inside arithmetic priors", c,
                     {"before": [x for x in raw_paths_of(model) if x not in raw_paths_of(r)][:3], "after": [x for x in raw_paths_of(r) if x not in raw_paths_of(model)][:3]})
        if keeps_order and paths_of(model) != paths_of(r):
            ctx.fail(classify(comp, model, route, "order"), f"{route} round trip changed the parameter order", c,
                     {"before": paths_of(model)[:6], "after": paths_of(r)[:6]})
        # ---- correspondence: predicted parameter order
        if route in ("dict", "pickle", "database") and not (route == "dict" and nested_assertions(model)):
            ans = ctx.lean.ask({"p": "C08", "comp": comp, "keep_ids": keeps_order, "route": route})
            if "driver_error" in ans:
                ctx.disagree("driver", c, None, ans)
                continue
            # the model predicts the advertised paths exactly, operand names of arithmetic priors
            # after a reload (left_/right_) included
            impl_paths = [list(map(str, p)) for p in r.paths]
            if impl_paths != ans["paths"]:
                ctx.disagree(f"C08.order.{route}", c, impl_paths[:8], ans["paths"][:8])
            if r.prior_count != ans["count"]:
                ctx.disagree(f"C08.count.{route}", c, r.prior_count, ans["count"])


def fit_rewrite(ctx, prog1, prog2):
    """the model of a database fit that is read, replaced by another model, committed and read again - on the same Fit
    object, in the same session and in a new one - is the model that was written last"""
    try:
        m1 = gen_comp.run_program(prog1)["root"]
        m2 = gen_comp.run_program(prog2)["root"]
        want1, want2 = shape_of(db_rt(m1)), shape_of(db_rt(m2))
    except Exception:  # noqa: the plain routes are examined by one_case
        return
    if want1 == want2 or m1.prior_count == 0 or m2.prior_count == 0:
        return
    case = {"program": prog1, "program2": prog2, "label": "fit-rewrite"}
    engine = sa.create_engine("sqlite://")
    db.Base.metadata.create_all(engine)
    s = sa.orm.sessionmaker(bind=engine)()
    try:
        fit = db.Fit(id="fit-rewrite", is_complete=False)
        fit.model = m1
        s.add(fit)
        s.commit()
        first = shape_of(fit.model)
        # what a caller does to the model it was handed does not show in the next read (the rows are what is stored)
        handed = fit.model
        handed.c08_extra_parameter = af.UniformPrior(lower_limit=0.0, upper_limit=1.0)
        reread = shape_of(fit.model)
        if reread != first:
            ctx.fail("C08-fit-model-not-last-written", "Fit.model read again after the caller changed the model object it was handed is not "
                     "the model that was written", case, {"first_paths": first["paths"][:5], "second_paths": reread["paths"][:5]})
            return
        fit.model = m2
        s.commit()
        second = shape_of(fit.model)
        s.close()
        s2 = sa.orm.sessionmaker(bind=engine)()
        third = shape_of(s2.query(db.Fit).filter(db.Fit.id == "fit-rewrite").one().model)
        s2.close()
    except Exception as e:  # noqa
        ctx.hit("fit-rewrite-raised:" + type(e).__name__)
        return
    finally:
        engine.dispose()
    ctx.hit("fit-rewrite")
    for got, want, when in ((first, want1, "read after the first write"), (second, want2, "read on the same Fit object after another model was assigned and committed"),
                            (third, want2, "read in a new session after another model was assigned and committed")):
        if got != want:
            bad = [k for k in ("paths", "descr", "consts", "partition", "count") if got[k] != want[k]]
            ctx.fail("C08-fit-model-not-last-written", f"Fit.model {when} is not the model that was written", case,
                     {"differs_in": bad, "got_paths": got["paths"][:5], "want_paths": want["paths"][:5]})
            return


def run(ctx):
    ctx.rule = RULE
    ctx.assumptions = [
        "pickle/dill/SQLite/SQLAlchemy object-graph fidelity is trusted; the database is an in-memory SQLite engine with commit and a fresh session for the reload",
        "user classes importable at load time (harness/vlib.py); reference= substitution not exercised",
    ]
    for f in sorted((VERIF / "corpus" / "C08").glob("*.json")):
        c = json.loads(f.read_text())
        one_case(ctx, c["program"], label=f.name)
    for _ in range(ctx.n(110, 2000)):
        prog = gen_comp.gen_program(ctx.rng, allow_pow=False)
        prog = c03.add_assertions(ctx.rng, prog, n_max=2)
        # a literal False assertion has no dictionary form (and silently removes the node's other
        # assertions from it); a component without free parameters is written as a plain instance
        # and cannot carry assertions: neither is generated here (recorded in DESIGN §6)
        try:
            H = gen_comp.run_program(prog)
            prog = [s for s in prog if not (s["op"] == "assert" and ("lit" in s["expr"] or H[s["h"]].prior_count == 0))]
        except Exception:
            pass
        one_case(ctx, prog)
        if ctx.rng.random() < 0.25:
            simple = dict(allow_pow=False, allow_arith=False, allow_array=False, allow_fixed_obj=False, allow_copy=False)
            fit_rewrite(ctx, gen_comp.gen_program(ctx.rng, **simple), gen_comp.gen_program(ctx.rng, **simple))


def replay(ctx, payload):
    case = payload.get("case") or payload.get("disagreements", [{}])[0].get("case")
    if case.get("label") == "fit-rewrite":
        return fit_rewrite(ctx, case["program"], case["program2"])
    one_case(ctx, case["program"], label="replay")
