"""C04 — the figure of merit handed to a search is the model's likelihood / posterior.

Models from the C01/C03 generators x vectors (valid, out of limits, violating assertions) x scripted
Analysis outcomes (finite incl. +-inf and -0.0, NaN, FitException, other exception) x 8 flag
combinations x resample values; sequences of calls on one Fitness object (the caller's numpy buffer
is re-used and mutated between calls); compared with the Lean `runCalls` / `pyswarmsBatch`."""
import math

import json

import numpy as np

from common import f2h, h2f, close
import gen_comp
import extract_comp as X
import c01
import c03

import autofit as af
from autofit import exc
from autofit.non_linear.fitness import Fitness
from autofit.non_linear.search.mle.pyswarms.search.abstract import FitnessPySwarms

RULE = (
    "C03 programs (with assertions) x sequences of 1-10 calls; each call: vector (inside / on / outside limits, "
    "violating assertions) and a scripted likelihood outcome (finite, +-inf, -0.0, NaN, FitException, ValueError); "
    "all 8 flag combinations x resample in {-inf,-1e99,1e99}; numpy buffer re-used across calls; "
    "non-trivial = sequence with at least one success and one failure or posterior mode with >=2 priors"
)


class ScriptedAnalysis(af.Analysis):
    def __init__(self):
        self.next = 0.0
        self.calls = 0
        self.wrap = "float"

    by_instance = None  # swarm mode: outcome scripted per particle, looked up by the instance it becomes

    def log_likelihood_function(self, instance):
        self.calls += 1
        o = self.next
        if self.by_instance is not None:
            o = self.by_instance.get(inst_key(instance), 0.0)
        if o == "fit":
            raise exc.FitException("scripted")
        if o == "other":
            raise ValueError("scripted")
        if o == "nan":
            return float("nan")
        # what user likelihoods return in practice: Python floats, numpy scalars, 0-d arrays
        if self.wrap == "np.float64":
            return np.float64(o)
        if self.wrap == "0-d array":
            return np.array(o)
        return o


def inst_key(instance):
    import hashlib
    return hashlib.sha1(json.dumps(X.canon_inst(X.inst_of(instance)), sort_keys=True).encode()).hexdigest()


def gen_outcome(rng):
    r = rng.random()
    if r < 0.62:
        return rng.choice([rng.uniform(-1e3, 10.0), rng.uniform(-5, 5), -0.0, 0.0, 1e300, -1e300])
    if r < 0.70:
        return rng.choice([float("inf"), float("-inf")])
    if r < 0.82:
        return "nan"
    if r < 0.94:
        return "fit"
    return "other"


def wire_outcome(o):
    return o if isinstance(o, str) else f2h(o)


def plain_expected(cfg, model, priors, H, prog_asserts, v, o):
    """the property sentence recomputed directly (oracle)"""
    if len(v) != len(priors):
        return "raises"
    lim_ok = all(p.lower_limit <= x <= p.upper_limit for p, x in zip(priors, v))
    args = {p: x for p, x in zip(priors, v)}
    ok = lim_ok and all(c03.eval_assert_plain(s["expr"], H, args) for s in prog_asserts)
    if not ok:
        return cfg["resample"], False
    if o == "other":
        return "raises"
    if o in ("fit", "nan"):
        return cfg["resample"], False
    fom = o
    if not cfg["fom_is_ll"]:
        fom = o + sum(p.log_prior_from_value(x) for p, x in zip(priors, v))
    if cfg["chi"]:
        fom = fom * -2.0
    return fom, True


def one_case(ctx, prog, spec=None, label="gen"):
    rng = ctx.rng
    try:
        H = gen_comp.run_program(prog)
    except Exception as e:
        ctx.hit("program-rejected:" + type(e).__name__)
        return
    model = H["root"]
    comp = X.node_of(model)
    nodes = c03.reachable_models(model)
    reach = {id(m) for m in nodes}
    wire_asserts = [X.asrt_node(a) for m in nodes for a in (getattr(m, "_assertions", []) or [])]
    prog_asserts = [s for s in prog if s["op"] == "assert" and id(H[s["h"]]) in reach]
    priors = list(model.priors_ordered_by_id)
    if not priors:
        return
    lims = [[f2h(p.lower_limit), f2h(p.upper_limit)] for p in priors]
    pdesc = []
    for p in priors:
        d = X.prior_node(p)
        pdesc.append({k: d[k] for k in ("kind", "mean", "sigma") if k in d})
    has_lg = any(d["kind"] == "LogGaussian" for d in pdesc)

    if spec is None:
        cfg = {
            "fom_is_ll": rng.random() < 0.5,
            "chi": rng.random() < 0.5,
            "history": rng.random() < 0.6,
            "resample": rng.choice([float("-inf"), -1e99, 1e99]),
        }
        pool = c03.vectors(rng, model, prog, H)
        calls = []
        for _ in range(rng.randint(1, 10)):
            kind, v = rng.choice(pool) if rng.random() < 0.35 else ("inside", c01.test_vector(rng, model))
            if any(x != x for x in v):
                v = c01.test_vector(rng, model)
            calls.append({"v": list(v), "o": gen_outcome(rng)})
        pyswarms = rng.random() < 0.2
        reuse_buffer = rng.random() < 0.5
        swarm = pyswarms and rng.random() < 0.6
    else:
        cfg, calls, pyswarms, reuse_buffer = spec["cfg"], spec["calls"], spec.get("pyswarms", False), spec.get("reuse_buffer", True)
        swarm = spec.get("swarm", False)
    by_instance = None
    if swarm:
        # all particles in one call, as pyswarms does: the scripted outcome of a particle is found by the
        # instance it becomes (particles that become the same instance share their outcome; an exception
        # other than the fit exception would end the whole call and is not scripted here)
        by_instance = {}
        try:
            for c in calls:
                if c["o"] == "other":
                    c["o"] = "fit"
                if len(c["v"]) != len(priors):
                    raise ValueError("length")
                k = inst_key(model.instance_from_vector(list(c["v"]), ignore_prior_limits=True))
                c["o"] = by_instance.setdefault(k, c["o"])
        except Exception:
            swarm, by_instance = False, None

    wire_cfg = {"fom_is_ll": cfg["fom_is_ll"], "chi": cfg["chi"], "history": cfg["history"], "resample": f2h(cfg["resample"])}
    import c04_logprior
    req = {"p": "C04", "comp": comp, "lims": lims, "asserts": wire_asserts, "priors": pdesc, "prior_table": c04_logprior.prior_table(comp), "cfg": wire_cfg,
           "calls": [{"v": [f2h(x) for x in c["v"]], "o": wire_outcome(c["o"])} for c in calls], "pyswarms": pyswarms}
    ans = ctx.lean.ask(req)
    case = {"program": prog, "spec": {"cfg": cfg, "calls": calls, "pyswarms": pyswarms, "reuse_buffer": reuse_buffer, "swarm": swarm}, "label": label}
    if "driver_error" in ans:
        ctx.disagree("driver", case, None, ans)
        return

    c04_logprior.logprior_clause(ctx, model, comp, [c["v"] for c in calls], case)
    if not pyswarms:
        import sys
        import c04_resume
        c04_resume.resume_clause(ctx, sys.modules[__name__], model, priors, H, prog_asserts, req, cfg, calls, case, spec=(spec or {}).get("resume"))
    analysis = ScriptedAnalysis()
    analysis.wrap = (spec or {}).get("wrap") or rng.choice(["float", "float", "np.float64", "0-d array"])
    case["spec"]["wrap"] = analysis.wrap
    ctx.hit("likelihood-type:" + analysis.wrap)
    ulps = 8 if has_lg or c01.has_loose(comp) or c01.has_loose(wire_asserts) else 2
    impl_results = []
    kinds = set()
    if pyswarms:
        fit = FitnessPySwarms(model=model, analysis=analysis, fom_is_log_likelihood=False,
                              resample_figure_of_merit=cfg["resample"], convert_to_chi_squared=True)
        if swarm:
            analysis.by_instance = by_instance
            ctx.hit("pyswarms:whole-swarm-in-one-call:%d" % min(len(calls), 4))
            try:
                out = fit(np.array([c["v"] for c in calls]))
                impl_results = [float(x) for x in out]
            except Exception as e:
                impl_results = ["raises" if not isinstance(e, exc.FitException) else "raises-fit"] * len(calls)
        # one particle per call (the scripted outcome is per evaluation)
        for c in ([] if swarm else calls):
            analysis.next = c["o"]
            try:
                out = fit(np.array([c["v"]]))
                impl_results.append(float(out[0]))
            except Exception as e:
                impl_results.append("raises" if not isinstance(e, exc.FitException) else "raises-fit")
    else:
        fit = Fitness(model=model, analysis=analysis, fom_is_log_likelihood=cfg["fom_is_ll"],
                      resample_figure_of_merit=cfg["resample"], convert_to_chi_squared=cfg["chi"],
                      store_history=cfg["history"])
        buf = np.zeros(len(priors))
        for c in calls:
            analysis.next = c["o"]
            if reuse_buffer:
                buf[:] = c["v"]
                arg = buf
            else:
                arg = list(c["v"])
            try:
                impl_results.append(float(fit(arg)))
            except Exception as e:
                impl_results.append("raises" if not isinstance(e, exc.FitException) else "raises-fit")
    n_ok = sum(1 for r in impl_results if not isinstance(r, str))
    ctx.case(req, nontrivial=len(calls) >= 2 or (not cfg["fom_is_ll"] and len(priors) >= 2),
             sample={"cfg": cfg, "calls": [{"v": c["v"], "o": c["o"]} for c in calls[:3]], "results": impl_results[:3], "pyswarms": pyswarms})
    ctx.hit(f"flags:{int(cfg['fom_is_ll'])}{int(cfg['chi'])}{int(cfg['history'])}")
    ctx.hit("pyswarms" if pyswarms else "fitness")

    # ---- correspondence
    # `ll + sum(log priors)` is a float sum: CPython >= 3.12 sums exact floats with compensation and
    # numpy scalars without, so the last bits depend on the argument type; cancellation amplifies
    # this. Values are compared with an absolute tolerance scaled by the size of the terms.
    def scale_of(c):
        try:
            terms = [abs(float(p.log_prior_from_value(x))) for p, x in zip(priors, c["v"])]
            o = abs(c["o"]) if not isinstance(c["o"], str) else 0.0
            sc = o + sum(t for t in terms if t == t and t != float("inf"))
            return sc if sc == sc and sc != float("inf") else 0.0
        except Exception:
            return 0.0

    def same_value(a, b, c):
        if close(a, b, ulps=ulps):
            return True
        return abs(a - b) <= 1e-11 * max(scale_of(c) * 2.0, 1e-300) if cfg_posterior else False

    cfg_posterior = pyswarms or not cfg["fom_is_ll"]
    m_results = [r if r == "raises" else h2f(r) for r in ans["results"]]
    for k, (a, b) in enumerate(zip(impl_results, m_results)):
        same = (a == b) if isinstance(a, str) or isinstance(b, str) else same_value(a, b, calls[k])
        if not same:
            ctx.disagree("C04.result", case | {"call": k}, a if isinstance(a, str) else repr(a), b if isinstance(b, str) else repr(b))
            break
    if not pyswarms:
        ip = [[f2h(float(x)) for x in row] for row in fit.parameters_history_list]
        il = [f2h(float(x)) for x in fit.log_likelihood_history_list]
        if ip != ans["hist_params"] or il != ans["hist_ll"]:
            ctx.disagree("C04.history", case, {"params": ip[:4], "ll": il[:4]}, {"params": ans["hist_params"][:4], "ll": ans["hist_ll"][:4]})

    # ---- oracle
    succ = []
    eff_cfg = dict(cfg)
    if pyswarms:
        eff_cfg.update({"fom_is_ll": False, "chi": True})
    for k, c in enumerate(calls):
        try:
            exp = plain_expected(eff_cfg, model, priors, H, prog_asserts, c["v"], c["o"])
        except Exception:
            ctx.hit("oracle-undefined")
            succ = None
            break
        got = impl_results[k]
        if exp == "raises":
            if got != "raises":
                ctx.fail("C04-swallowed-exception", "a non-fit exception of the likelihood did not propagate", case | {"call": k}, repr(got))
            continue
        want, ok = exp
        if pyswarms and (not ok or (isinstance(want, float) and want != want)):
            want = -2.0 * cfg["resample"]
            ok = False
        if ok and succ is not None:
            succ.append((c["v"], c["o"]))
        if isinstance(got, str):
            ctx.fail("C04-exception-escapes", "an exception escaped from the fitness call where a figure of merit or the resample value is due",
                     case | {"call": k}, got)
        elif not (close(got, want, ulps=max(ulps, 4)) or same_value(got, want, c)):
            ctx.fail("C04-wrong-fom", "figure of merit is not ll (+ sum of log priors) (x -2) / the resample value", case | {"call": k},
                     {"got": got, "want": want})
        ctx.hit("call:" + ("success" if ok else "resample"))
    if not pyswarms and succ is not None:
        want_p = [[f2h(x) for x in v] for v, _ in succ] if cfg["history"] else []
        want_l = [f2h(o) for _, o in succ] if cfg["history"] else []
        got_p = [[f2h(float(x)) for x in row] for row in fit.parameters_history_list]
        got_l = [f2h(float(x)) for x in fit.log_likelihood_history_list]
        if got_p != want_p or got_l != want_l:
            alias = reuse_buffer and got_l == want_l and len(got_p) == len(want_p)
            ctx.fail("C04-history-alias" if alias else "C04-history",
                     "history does not record exactly the successfully evaluated vectors with their likelihoods, in order", case,
                     {"got": got_p[:4], "want": want_p[:4]})
        # repeated evaluation gives the same value
        if calls and not isinstance(impl_results[-1], str):
            analysis.next = calls[-1]["o"]
            # same argument type as the first evaluation (numpy and Python float arithmetic of the
            # log-prior terms may differ in the last bit)
            if reuse_buffer:
                buf[:] = calls[-1]["v"]
                again = float(fit(buf))
            else:
                again = float(fit(list(calls[-1]["v"])))
            if f2h(again) != f2h(impl_results[-1]):
                ctx.fail("C04-repeat", "repeated evaluation of the same vector gave a different value", case, {"first": impl_results[-1], "again": again})


def run(ctx):
    ctx.rule = RULE
    ctx.assumptions = ["the likelihood is scripted (its outcome per call comes from the PRNG); timeout decorator and jax jit wrapper are inactive"]
    import json
    from common import VERIF

    for f in sorted((VERIF / "corpus" / "C04").glob("*.json")):
        c = json.loads(f.read_text())
        one_case(ctx, c["program"], c.get("spec"), label=f.name)
    for _ in range(ctx.n(220, 4000)):
        prog = gen_comp.gen_program(ctx.rng, allow_pow=False)
        prog = c03.add_assertions(ctx.rng, prog, n_max=3)
        one_case(ctx, prog)
    searches_resample_value(ctx)
    import c04_table
    c04_table.run_table(ctx)


class _HalfRejecting(af.Analysis):
    """a likelihood that raises the fit exception on part of the space (valid elsewhere, peaked inside it)"""

    def log_likelihood_function(self, instance):
        if instance.a > 0.62:
            raise exc.FitException("outside the region where the model can be evaluated")
        return -0.5 * ((instance.a - 0.4) ** 2 / 0.01 + (instance.b - 1.0) ** 2 / 0.04)


def searches_resample_value(ctx):
    """the figure of merit each *search* builds (its own choice of resample value and sign): what a search receives
    for a vector that cannot be evaluated is never better, in the direction that search optimises, than what it
    receives for a vector that can - observed on the fitness objects of real, tiny fits"""
    import contextlib
    import io
    import os
    import random as pyrandom
    import vlib
    from common import scratch_dir

    log = []
    originals = {}

    def wrap(cls):
        orig = cls.__call__
        originals[cls] = orig

        def call(self, parameters, *a, **k):
            out = orig(self, parameters, *a, **k)
            try:
                arr = np.asarray(parameters, dtype=float)
                rows = arr if arr.ndim == 2 else arr.reshape(1, -1)
                outs = np.asarray(out, dtype=float).reshape(-1)
                if len(outs) == len(rows):
                    for r_, o_ in zip(rows, outs):
                        log.append((cls.__name__, [float(x) for x in r_], float(o_)))
            except Exception:  # noqa
                pass
            return out

        cls.__call__ = call

    kinds = [("PySwarmsGlobal", dict(n_particles=5, iters=4)), ("LBFGS", dict(maxiter=6)), ("Drawer", dict(total_draws=8)),
             ("DynestyStatic", dict(nlive=12, maxcall=120)), ("Emcee", dict(nwalkers=6, nsteps=8))]
    cwd = os.getcwd()
    wrap(Fitness)
    wrap(FitnessPySwarms)
    try:
        os.chdir(scratch_dir())
        for kind, kw in kinds:
            del log[:]
            model = af.Model(vlib.P2, a=af.UniformPrior(0.0, 1.0), b=af.UniformPrior(0.0, 2.0))
            pyrandom.seed(ctx.seed + 11)
            np.random.seed(ctx.seed + 11)
            try:
                with contextlib.redirect_stdout(io.StringIO()), contextlib.redirect_stderr(io.StringIO()):
                    getattr(af, kind)(**kw).fit(model=model, analysis=_HalfRejecting())
            except Exception as e:  # noqa: what the fit does with these values is not this clause's subject
                ctx.hit(f"search-fom:{kind}:fit-ended-with-{type(e).__name__}")
            valid = [(v, o) for _, v, o in log if 0.0 <= v[0] <= 0.62 and 0.0 <= v[1] <= 2.0 and o == o]
            invalid = [(v, o) for _, v, o in log if v[0] > 0.62 and 0.0 <= v[0] <= 1.0 and 0.0 <= v[1] <= 2.0]
            ctx.hit(f"search-fom:{kind}:{'observed' if valid and invalid else 'not-both-kinds-seen'}")
            ctx.evaluations += 1
            if len(valid) < 2 or not invalid:
                continue
            an = _HalfRejecting()
            lls = [an.log_likelihood_function(vlib.P2(a=v[0], b=v[1])) for v, _ in valid]
            hi, lo = max(range(len(lls)), key=lls.__getitem__), min(range(len(lls)), key=lls.__getitem__)
            if lls[hi] == lls[lo] or valid[hi][1] == valid[lo][1]:
                continue
            maximises = valid[hi][1] > valid[lo][1]
            vals = [o for _, o in valid]
            bad = [(v, o) for v, o in invalid if (o > min(vals) if maximises else o < max(vals)) and not (o != o)]
            if bad:
                ctx.fail("C04-search-resample-looks-good",
                         f"{kind}: a vector whose likelihood raises the fit exception is handed to the search with a figure of merit "
                         f"better than that of vectors that can be evaluated (the search {'maximises' if maximises else 'minimises'})",
                         {"label": "search-resample", "search": kind}, {"invalid": bad[:2], "valid_range": [min(vals), max(vals)]})
    finally:
        os.chdir(cwd)
        for cls, orig in originals.items():
            cls.__call__ = orig


def replay(ctx, payload):
    case = payload.get("case") or payload.get("disagreements", [{}])[0].get("case")
    if case.get("label") == "search-resample":
        return searches_resample_value(ctx)
    if case.get("label") in ("table", "row"):
        import c04_table
        return c04_table.run_table(ctx)
    one_case(ctx, case["program"], case.get("spec"), label="replay")
