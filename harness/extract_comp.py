"""Read a real PyAutoFit model object graph / instance back into the wire description (DESIGN §12)."""
import numpy as np

from common import f2h

import autofit as af
from autofit.mapper.prior.abstract import Prior
from autofit.mapper.prior.tuple_prior import TuplePrior
from autofit.mapper.prior_model.abstract import AbstractPriorModel
from autofit.mapper.prior_model.prior_model import Model
from autofit.mapper.prior_model.collection import Collection
from autofit.mapper.prior_model.array import Array
from autofit.mapper.prior.arithmetic import compound as C
from autofit.mapper.prior.arithmetic import assertion as A
from autofit.mapper.model import ModelInstance

BIN = {
    "SumPrior": "add",
    "MultiplePrior": "mul",
    "DivisionPrior": "div",
    "FloorDivPrior": "floordiv",
    "ModPrior": "mod",
    "PowerPrior": "pow",
}
UN = {"NegativePrior": "neg", "AbsolutePrior": "abs", "Log": "log", "Log10": "log10"}
KIND = {
    "UniformPrior": "Uniform",
    "LogUniformPrior": "LogUniform",
    "GaussianPrior": "Gaussian",
    "LogGaussianPrior": "LogGaussian",
}

INERT = ("id", "cls", "item_number", "component_number")
# `Model.__setattr__` labels whatever it is given, also plain instances of fixed components
INST_INERT = INERT + ("label",)


def prior_node(p):
    d = {
        "k": "prior",
        "id": int(p.id),
        "kind": KIND.get(type(p).__name__, type(p).__name__),
        "lo": f2h(p.lower_limit),
        "hi": f2h(p.upper_limit),
    }
    for name in ("mean", "sigma"):
        try:
            v = p.__dict__.get(name, None)
            if v is None:
                v = getattr(p.message, name) if name in ("mean", "sigma") and hasattr(p.message, name) and d["kind"] in ("Gaussian", "LogGaussian") else None
            if v is not None:
                d[name] = f2h(float(v))
        except Exception:
            pass
    return d


def public_items(obj):
    return [
        (k, v)
        for k, v in obj.__dict__.items()
        if isinstance(k, str) and not k.startswith("_") and k not in INERT
    ]


def asrt_node(a, with_oid=False):
    if isinstance(a, bool) or isinstance(a, np.bool_):
        return {"a": "lit", "v": bool(a)}
    if isinstance(a, A.CompoundAssertion):
        return {"a": "and", "x": asrt_node(a.assertion_1), "y": asrt_node(a.assertion_2)}
    if isinstance(a, A.GreaterThanLessThanEqualAssertion):
        return {"a": "le", "l": node_of(a._left), "g": node_of(a._right)}
    if isinstance(a, A.GreaterThanLessThanAssertion):
        return {"a": "lt", "l": node_of(a._left), "g": node_of(a._right)}
    return {"a": "unknown", "cls": type(a).__name__}


def node_of(x, with_oid=False):
    """wire node of a model-side object"""
    if isinstance(x, Prior):
        return prior_node(x)
    if isinstance(x, bool):
        return {"k": "opaque", "tag": f"bool:{x}"}
    if isinstance(x, float):
        return {"k": "const", "v": f2h(x)}
    if isinstance(x, int):
        return {"k": "opaque", "tag": f"int:{x}"}
    if isinstance(x, C.CompoundPrior):
        d = {
            "k": "arith",
            "op": BIN.get(type(x).__name__, type(x).__name__),
            "attrs": [[k, node_of(v, with_oid)] for k, v in public_items(x)],
            "l": operand(x._left, with_oid),
            "r": operand(x._right, with_oid),
        }
        return _common(d, x, with_oid)
    if isinstance(x, C.ModifiedPrior):
        d = {
            "k": "modif",
            "op": UN.get(type(x).__name__, type(x).__name__),
            "attrs": [[k, node_of(v, with_oid)] for k, v in public_items(x)],
            "x": operand(x.prior, with_oid),
        }
        return _common(d, x, with_oid)
    if isinstance(x, Array):
        items = list(public_items(x))
        # the model's `array` node lists the entries `prior_i_j` in index order (that is where the instance puts them);
        # an array filled entry by entry holds them in assignment order: listed in index order here when no two entries
        # are the same parameter (the order of the places of ONE parameter is the only thing the walk order decides)
        entries = [(k, v) for k, v in items if str(k).startswith("prior_")]
        ids = [v.id for _, v in entries if isinstance(v, Prior)]
        if len(set(ids)) == len(ids):
            def index_of(kv):
                try:
                    return tuple(int(t) for t in str(kv[0]).split("_")[1:])
                except ValueError:
                    return ()
            ordered = iter(sorted(entries, key=index_of))
            items = [next(ordered) if str(k).startswith("prior_") else (k, v) for k, v in items]
        d = {
            "k": "array",
            "shape": [int(s) for s in x.shape],
            "attrs": [[k, node_of(v, with_oid)] for k, v in items],
        }
        return _common(d, x, with_oid)
    if isinstance(x, Collection):
        d = {
            "k": "coll",
            "attrs": [[k, node_of(v, with_oid)] for k, v in public_items(x)],
        }
        return _common(d, x, with_oid)
    if isinstance(x, Model):
        d = {
            "k": "model",
            "cls": x.cls.__name__ if hasattr(x.cls, "__name__") else str(x.cls),
            "ctor": list(x.constructor_argument_names),
            "attrs": [[k, node_of(v, with_oid)] for k, v in public_items(x)],
        }
        defaults = ctor_defaults(x)
        if defaults:
            d["defaults"] = defaults
        return _common(d, x, with_oid)
    if isinstance(x, TuplePrior):
        return {
            "k": "tuple",
            "attrs": [[k, node_of(v, with_oid)] for k, v in public_items(x)],
        }
    if x is None:
        return {"k": "opaque", "tag": "None"}
    if isinstance(x, str):
        return {"k": "opaque", "tag": f"str:{x}"}
    if hasattr(x, "__dict__") and not isinstance(x, type):
        # a component fixed to an instance of a user class: opaque for the model, but the tag carries the
        # whole content so that the instance built from the model can be compared with it (inst_diff)
        return {"k": "opaque", "tag": fixed_tag(inst_of(x))}
    return {"k": "opaque", "tag": f"py:{type(x).__name__}"}


def fixed_tag(inst):
    import hashlib
    import json as _json

    return "py:%s#%s" % (inst.get("cls", ""), hashlib.sha1(_json.dumps(canon_inst(inst), sort_keys=True).encode()).hexdigest()[:16])


def ctor_defaults(model):
    """constructor arguments the model holds no attribute for: the class default reaches the instance"""
    import inspect

    out = []
    try:
        spec = inspect.getfullargspec(model.cls)
    except TypeError:
        return out
    defaults = dict(zip(spec.args[-len(spec.defaults):], spec.defaults)) if spec.defaults else {}
    for a in model.constructor_argument_names:
        if a not in model.__dict__ and a in defaults:
            v = defaults[a]
            out.append([a, inst_default(v)])
    return out


def inst_default(v):
    if isinstance(v, float):
        return {"k": "const", "v": f2h(v)}
    if isinstance(v, str):
        return {"k": "opaque", "tag": f"str:{v}"}
    if v is None:
        return {"k": "opaque", "tag": "None"}
    return {"k": "opaque", "tag": f"py:{type(v).__name__}"}


def operand(v, with_oid):
    if isinstance(v, (int,)) and not isinstance(v, bool):
        # ints are used as numbers by the arithmetic
        return {"k": "const", "v": f2h(float(v))}
    return node_of(v, with_oid)


def _common(d, x, with_oid):
    asserts = getattr(x, "_assertions", None)
    if asserts:
        d["asserts"] = [asrt_node(a) for a in asserts]
    if with_oid:
        d["oid"] = id(x)
        d["frozen"] = bool(getattr(x, "_is_frozen", False))
    return d


def all_priors(node, out=None):
    """descriptor of every prior in a wire node keyed by id (first occurrence)"""
    out = {} if out is None else out
    if isinstance(node, dict):
        if node.get("k") == "prior":
            out.setdefault(node["id"], node)
        for v in node.values():
            all_priors(v, out)
    elif isinstance(node, list):
        for v in node:
            all_priors(v, out)
    return out


# ---------------------------------------------------------------------------------------------
# instances


def inst_of(x):
    """wire description of an *instance* produced by the real code"""
    if isinstance(x, (bool, np.bool_)):
        return {"k": "opaque", "tag": f"bool:{bool(x)}"}
    if isinstance(x, (float, np.floating)):
        return {"k": "num", "v": f2h(float(x))}
    if isinstance(x, (int, np.integer)):
        return {"k": "opaque", "tag": f"int:{int(x)}"}
    if x is None:
        return {"k": "opaque", "tag": "None"}
    if isinstance(x, str):
        return {"k": "opaque", "tag": f"str:{x}"}
    if isinstance(x, tuple):
        return {"k": "tup", "items": [inst_of(v) for v in x]}
    if isinstance(x, list):
        return {"k": "list", "items": [inst_of(v) for v in x]}
    if isinstance(x, np.ndarray):
        return {
            "k": "arr",
            "shape": [int(s) for s in x.shape],
            "items": [inst_of(float(v)) for v in x.reshape(-1)],
        }
    if isinstance(x, (AbstractPriorModel, TuplePrior, Prior)):
        return {"k": "raw"}
    if isinstance(x, complex):
        return {"k": "opaque", "tag": "complex"}
    if isinstance(x, ModelInstance):
        return {
            "k": "obj",
            "cls": "",
            "attrs": [[k, inst_of(v)] for k, v in x.__dict__.items() if isinstance(k, str) and not k.startswith("_") and k not in INERT],
        }
    if hasattr(x, "__dict__"):
        return {
            "k": "obj",
            "cls": type(x).__name__,
            "attrs": [[k, inst_of(v)] for k, v in x.__dict__.items() if isinstance(k, str) and not k.startswith("_") and k not in INST_INERT],
        }
    return {"k": "opaque", "tag": f"py:{type(x).__name__}"}


def canon_inst(i):
    """canonical form for comparison: attribute order is not part of any property"""
    if not isinstance(i, dict):
        return i
    k = i.get("k")
    if k == "obj":
        return {
            "k": "obj",
            "cls": i.get("cls", ""),
            "attrs": sorted(([a, canon_inst(v)] for a, v in i["attrs"]), key=lambda t: t[0]),
        }
    if k in ("tup", "arr", "list"):
        d = dict(i)
        d["items"] = [canon_inst(v) for v in i["items"]]
        return d
    return i


def inst_diff(a, b, ulps=0, path=()):
    """first difference between two canonical instances (None if equal); floats within `ulps`"""
    from common import h2f, ulp_diff

    if a.get("k") != b.get("k"):
        # a fixed user-class instance is opaque on the model side; its tag is a digest of its content
        for o, q in ((a, b), (b, a)):
            if o.get("k") == "obj" and q.get("k") == "opaque" and "#" in q.get("tag", ""):
                t = fixed_tag(o)
                return None if t == q["tag"] else (path, t if o is a else q["tag"], q["tag"] if o is a else t)
        return (path, a.get("k"), b.get("k"))
    k = a["k"]
    if k == "num":
        if a["v"] == b["v"]:
            return None
        if ulps and ulp_diff(h2f(a["v"]), h2f(b["v"])) <= ulps:
            return None
        return (path, a["v"], b["v"])
    if k == "opaque":
        return None if a.get("tag") == b.get("tag") else (path, a.get("tag"), b.get("tag"))
    if k == "obj":
        if a.get("cls") != b.get("cls"):
            return (path, "cls:" + a.get("cls", ""), "cls:" + b.get("cls", ""))
        ka = [x[0] for x in a["attrs"]]
        kb = [x[0] for x in b["attrs"]]
        if ka != kb:
            return (path, ka, kb)
        for (n, x), (_, y) in zip(a["attrs"], b["attrs"]):
            d = inst_diff(x, y, ulps, path + (n,))
            if d:
                return d
        return None
    if k in ("tup", "arr", "list"):
        if k == "arr" and a.get("shape") != b.get("shape"):
            return (path, a.get("shape"), b.get("shape"))
        if len(a["items"]) != len(b["items"]):
            return (path, len(a["items"]), len(b["items"]))
        for j, (x, y) in enumerate(zip(a["items"], b["items"])):
            d = inst_diff(x, y, ulps, path + (str(j),))
            if d:
                return d
        return None
    return None
