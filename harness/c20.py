"""C20 — interpolation reproduces known points and linear trends.

generate a series of instance trees -> real `LinearInterpolator` / `SplineInterpolator`
`interp[path == v]` vs the Lean model `AF.Interp.getitem` (exact rationals);
oracle = the property sentence evaluated directly on the real outputs (own walker, own exact
least squares with `fractions.Fraction`, scipy's `CubicSpline` called directly for the spline)."""
import copy
import functools
import itertools
import json
import math
from fractions import Fraction

import numpy as np

from common import f2h, VERIF

import autofit as af
from autofit.example.model import Gaussian

RULE = (
    "random series of 2-8 instance trees (ModelInstance / user objects / lists / tuples / dicts / "
    "list-built ModelInstance, depth <= 3, interpolation variable at root or nested, linear / constant / "
    "non-linear data per parameter, supplied in random order, duplicate-abscissa stream), query value "
    "on a sample / inside / outside the sampled range, Linear and Spline interpolators; "
    "non-trivial = the query is not an exact hit, >= 3 instances and at least one interpolated parameter "
    "below the root; distinct = hash of (kind, trees, path, value)"
)

REL = 1e-8

# ---------------------------------------------------------------------------------------------
# trees: {"k": "num", "v": float} | {"k": "int", "n": int} | {"k": "opaque", "tag": str}
#        {"k": "obj", "cls": str, "attrs": [[name, tree]...]} | {"k": "dict", "attrs": [...]}
#        {"k": "list"|"tup"|"ilist", "items": [tree...]}

_classes = {}


def _cls(name):
    if name not in _classes:
        _classes[name] = type(name, (object,), {})
    return _classes[name]


def build(t):
    k = t["k"]
    if k == "num":
        return float(t["v"])
    if k == "int":
        return int(t["n"])
    if k == "opaque":
        tag = t["tag"]
        if tag == "None":
            return None
        if tag.startswith("bool:"):
            return tag == "bool:True"
        if tag.startswith("str:"):
            return tag[4:]
        return tag
    if k == "obj":
        attrs = [(n, build(c)) for n, c in t["attrs"]]
        if t["cls"] == "ModelInstance":
            o = af.ModelInstance(dict((n, c) for n, c in attrs if n != "id"))
            for n, c in attrs:
                if n == "id":
                    o.id = c  # the constructor resets it; it sits before the child items in __dict__
            return o
        if t["cls"] == "Gaussian" and [n for n, _ in attrs] == ["centre", "normalization", "sigma"]:
            return Gaussian(**dict(attrs))
        o = object.__new__(_cls(t["cls"]))
        for n, c in attrs:
            setattr(o, n, c)
        return o
    if k == "dict":
        return {n: build(c) for n, c in t["attrs"]}
    if k == "list":
        return [build(c) for c in t["items"]]
    if k == "tup":
        return tuple(build(c) for c in t["items"])
    if k == "ilist":
        return af.ModelInstance([build(c) for c in t["items"]])
    raise ValueError(k)


def tree_of(o, notes=None):
    """read a real object back into a tree (public attributes in __dict__ order)"""
    if o is None:
        return {"k": "opaque", "tag": "None"}
    if isinstance(o, (bool, np.bool_)):
        return {"k": "opaque", "tag": f"bool:{bool(o)}"}
    if isinstance(o, str):
        return {"k": "opaque", "tag": "str:" + o}
    if isinstance(o, (float, np.floating)):
        return {"k": "num", "v": float(o)}
    if isinstance(o, np.ndarray) and o.shape == () and o.dtype.kind == "f":
        if notes is not None:
            notes["ndarray0d"] = notes.get("ndarray0d", 0) + 1
        return {"k": "num", "v": float(o)}
    if isinstance(o, (int, np.integer)):
        return {"k": "int", "n": int(o)}
    if isinstance(o, list):
        return {"k": "list", "items": [tree_of(c, notes) for c in o]}
    if isinstance(o, tuple):
        return {"k": "tup", "items": [tree_of(c, notes) for c in o]}
    if isinstance(o, dict):
        return {"k": "dict", "attrs": [[str(n), tree_of(c, notes)] for n, c in o.items()]}
    d = getattr(o, "__dict__", None)
    if d is None:
        return {"k": "opaque", "tag": type(o).__name__}
    pub = [(n, c) for n, c in d.items() if not (isinstance(n, str) and n.startswith("_"))]
    if isinstance(o, af.ModelInstance):
        pub = [(n, c) for n, c in pub if not (n == "id" and c is None)]
        if any(isinstance(n, int) for n, _ in pub):
            return {"k": "ilist", "items": [tree_of(c, notes) for n, c in pub]}
        return {"k": "obj", "cls": "ModelInstance", "attrs": [[n, tree_of(c, notes)] for n, c in pub]}
    return {"k": "obj", "cls": type(o).__name__, "attrs": [[n, tree_of(c, notes)] for n, c in pub]}


def wire(t):
    k = t["k"]
    if k == "num":
        return {"k": "num", "v": f2h(t["v"])}
    if k in ("int", "opaque"):
        return t
    if k in ("obj", "dict"):
        out = {"k": k, "attrs": [[n, wire(c)] for n, c in t["attrs"]]}
        if k == "obj":
            out["cls"] = t["cls"]
        return out
    return {"k": k, "items": [wire(c) for c in t["items"]]}


def unwire(t):
    """model answer -> tree with Fractions at the numbers"""
    k = t["k"]
    if k == "num":
        return {"k": "num", "q": Fraction(int(t["n"]), int(t["d"]))}
    if k in ("int", "opaque"):
        return t
    if k in ("obj", "dict"):
        out = {"k": k, "attrs": [[n, unwire(c)] for n, c in t["attrs"]]}
        if k == "obj":
            out["cls"] = t["cls"]
        return out
    return {"k": k, "items": [unwire(c) for c in t["items"]]}


def leaves(t, path=(), through=()):
    """every number in a tree with the container kinds above it (the oracle's own walker: it enters
    every container, unlike the library's walk)"""
    k = t["k"]
    if k in ("num", "int"):
        yield path, through, t
    elif k in ("obj", "dict"):
        for n, c in t["attrs"]:
            yield from leaves(c, path + (n,), through + (k,))
    elif k in ("list", "tup", "ilist"):
        for i, c in enumerate(t["items"]):
            yield from leaves(c, path + (i,), through + (k,))


def at(t, path):
    for key in path:
        if t["k"] in ("obj", "dict"):
            d = dict((n, c) for n, c in t["attrs"])
            if key not in d:
                return None
            t = d[key]
        elif t["k"] in ("list", "tup", "ilist"):
            if not isinstance(key, int) or key >= len(t["items"]):
                return None
            t = t["items"][key]
        else:
            return None
    return t


def skeleton(t):
    """tree with the numbers blanked: what must be equal whatever the numbers are"""
    k = t["k"]
    if k == "num":
        return "num"
    if k in ("int", "opaque"):
        return json.dumps(t, sort_keys=True)
    if k in ("obj", "dict"):
        return [k, t.get("cls"), [[n, skeleton(c)] for n, c in t["attrs"]]]
    return [k, [skeleton(c) for c in t["items"]]]


def close_enough(a, b, scale):
    if a != a or b != b:
        return a != a and b != b
    return abs(a - b) <= REL * max(1.0, scale, abs(a), abs(b))


# ---------------------------------------------------------------------------------------------
# independent interpolants for the oracle


def lsq_exact(xs, ys, v):
    """least-squares line through the points, evaluated at v, in exact arithmetic (centred form)"""
    xs = [Fraction(x) for x in xs]
    ys = [Fraction(y) for y in ys]
    n = len(xs)
    xm = sum(xs) / n
    ym = sum(ys) / n
    sxx = sum((x - xm) ** 2 for x in xs)
    if sxx == 0:
        return None
    sxy = sum((x - xm) * (y - ym) for x, y in zip(xs, ys))
    return float(ym + (sxy / sxx) * (Fraction(v) - xm))


def spline_direct(xs, ys, v):
    from scipy.interpolate import CubicSpline

    return float(CubicSpline(xs, ys)(v))


# ---------------------------------------------------------------------------------------------
# running the real code


def real_getitem(kind, objs, tp, v):
    cls = af.LinearInterpolator if kind == "linear" else af.SplineInterpolator
    interp = cls(objs)
    path = functools.reduce(getattr, tp, interp)
    return interp[path == v]


def err_class(e):
    if isinstance(e, (AttributeError, TypeError, IndexError, KeyError)):
        return "path"
    if isinstance(e, ValueError):
        return "degenerate"
    return "other:" + type(e).__name__


def run_real(kind, trees, tp, v, notes):
    """-> (("ok", tree) | ("err", class, text)), input trees after the call"""
    objs = [build(t) for t in trees]
    try:
        r = real_getitem(kind, objs, tp, v)
        out = ("ok", tree_of(r, notes))
    except Exception as e:  # noqa: the kind of exception is the observable
        out = ("err", err_class(e), f"{type(e).__name__}: {str(e)[:100]}")
    after = [tree_of(o) for o in objs]
    return out, after


def has_nan(t):
    return any(l["k"] == "num" and l["v"] != l["v"] for _, _, l in leaves(t))


# ---------------------------------------------------------------------------------------------
# one case


def one_case(ctx, case, label="gen"):
    kind, trees, tp, v = case["kind"], case["insts"], list(case["tp"]), float(case["v"])
    case = dict(case, label=label)
    notes = ctx.notes.setdefault("result_types", {})
    n = len(trees)

    # ---- implementation
    impl, after = run_real(kind, trees, tp, v, notes)

    # ---- oracle clause: inputs are left unmodified
    if after != trees:
        ctx.fail("C20-input-mutated", "an input instance was modified by the interpolation", case,
                 {"before": trees, "after": after})

    # ---- model
    req = {"p": "C20", "insts": [wire(t) for t in trees], "tp": tp, "v": f2h(v), "sets_variable": True}
    table_failed = False
    if kind == "spline":
        pl = ctx.lean.ask(dict(req, q="plan"))
        if "driver_error" in pl:
            ctx.disagree("C20.driver", case, None, pl)
            return
        table = []
        if "plan" in pl:
            xs = [float(Fraction(int(x["n"]), int(x["d"]))) for x in pl["xs"]]
            for _p, ys in pl["plan"]:
                yf = [float(Fraction(int(y["n"]), int(y["d"]))) for y in ys]
                try:
                    val = spline_direct(xs, yf, v)
                    if val == val and not math.isinf(val):
                        table.append([[f2h(y) for y in yf], f2h(val)])
                except Exception:
                    table_failed = True
        req["table"] = table
    ans = ctx.lean.ask(req)
    if "driver_error" in ans:
        ctx.disagree("C20.driver", case, None, ans)
        return

    # ---- bookkeeping
    ts = [at(t, tuple(tp)) for t in trees]
    tvals = [(x["v"] if x["k"] == "num" else x["n"]) if x is not None and x["k"] in ("num", "int") else None for x in ts]
    hit = any(tv is not None and tv == v for tv in tvals)
    distinct_ts = len(set(tvals)) == len(tvals)
    nested = any(len(p) >= 2 for p, _, l in leaves(trees[0]) if l["k"] == "num")
    ctx.case({"kind": kind, "insts": req["insts"], "tp": tp, "v": req["v"]},
             nontrivial=(not hit and n >= 3 and nested),
             sample={"kind": kind, "n": n, "tp": tp, "v": v, "abscissae": tvals,
                     "first_instance": json.dumps(trees[0])[:400],
                     "result": json.dumps(impl[1] if impl[0] == "ok" else impl[1:])[:400]})
    ctx.hit("kind:" + kind)
    ctx.hit("n:%d" % n)
    ctx.hit("query:" + ("hit" if hit else "inside" if None not in tvals and min(tvals) < v < max(tvals) else "outside"))
    ctx.hit("order:" + ("sorted" if None not in tvals and tvals == sorted(tvals) else "unsorted"))
    ctx.hit("tp-depth:%d" % len(tp))
    if not distinct_ts:
        ctx.hit("duplicate-abscissa")
    for kk in sorted({k for _, th, _ in leaves(trees[0]) for k in th}):
        ctx.hit("container:" + kk)
    ctx.hit("model:" + ("err-" + ans["err"] if "err" in ans else "ok"))

    # ---- correspondence
    compare(ctx, case, impl, ans, hit, tp, tvals)

    # ---- behaviour before the repair (result of the last replacing_for_path discarded): the variable was
    # only the regression of t on t. Search for inputs where that differs from the requested value in floats.
    if not hit and None not in tvals and len(set(tvals)) >= 2 and all(isinstance(x, float) for x in tvals):
        xs = sorted(set(tvals))
        try:
            cls = af.LinearInterpolator if kind == "linear" else af.SplineInterpolator
            reg = float(cls._interpolate(xs, xs, v))
            key = "pinned_variable_" + kind
            ctx.notes[key + "_probes"] = ctx.notes.get(key + "_probes", 0) + 1
            if reg != v:
                ctx.notes[key + "_differs"] = ctx.notes.get(key + "_differs", 0) + 1
                ctx.notes.setdefault(key + "_witness", {"abscissae": xs, "requested": v, "interpolate_t_on_t": reg})
        except Exception:
            pass

    # ---- one interpolator, several queries: the answer is a function of (instances, variable, value) and
    # not of what the same interpolator object was asked before (other variables - those sharing their last
    # attribute name first -, the same variable at another value, the same query twice)
    if impl[0] == "ok":
        others = []
        for p_, _, l in leaves(trees[0]):
            if tuple(p_) == tuple(tp) or not all(isinstance(k_, str) for k_ in p_) or l["k"] != "num":
                continue
            xs = [at(t, p_) for t in trees]
            if any(x is None or x["k"] != "num" or x["v"] != x["v"] for x in xs) or len({x["v"] for x in xs}) < len(xs):
                continue
            # asked at a value one of the instances has (answered from the value map) or beside it (interpolated)
            others.append((p_[-1] != tp[-1], ctx.rng.random(), list(p_),
                           xs[ctx.rng.randrange(len(xs))]["v"] + (0.0 if ctx.rng.random() < 0.35 else 0.37)))
        others.sort()
        history = [(o[2], o[3]) for o in others[:2]] + [(tp, v + 1.0), (tp, v)]
        objs = [build(t) for t in trees]
        cls = af.LinearInterpolator if kind == "linear" else af.SplineInterpolator
        interp = cls(objs)
        last = None
        for hp, hv in history + [(tp, v)]:
            try:
                last = ("ok", tree_of(interp[functools.reduce(getattr, hp, interp) == hv]))
            except Exception as e:  # noqa
                last = ("err", err_class(e), f"{type(e).__name__}: {str(e)[:100]}")
        ctx.hit("session:%d-earlier-queries" % len(history))
        if others and others[0][0] is False:
            ctx.hit("session:shared-leaf-name")
        if json.dumps(last, sort_keys=True) != json.dumps(impl, sort_keys=True):
            ctx.fail("C20-history-dependent",
                     "the same query on an interpolator that answered other queries before differs from the query "
                     "on a fresh interpolator over the same instances", dict(case, history=[[hp, hv] for hp, hv in history]),
                     {"fresh": impl, "after_history": last})

    # ---- oracle: the property sentence on the real output
    oracle(ctx, case, impl, tvals, hit, distinct_ts)


def compare(ctx, case, impl, ans, hit, tp, tvals):
    if "err" in ans:
        if impl[0] == "err":
            if impl[1] != ans["err"]:
                ctx.disagree("C20.error-kind", case, impl[1:], ans)
        elif ans["err"] == "degenerate" and (has_nan(impl[1]) or len(set(tvals)) < 2):
            # fewer than two distinct abscissae: linregress returns NaN (with a warning) instead of raising,
            # the spline raises; no interpolant exists and the property says nothing
            ctx.hit("degenerate-single-abscissa")
        else:
            ctx.disagree("C20.model-raises", case, impl[1], ans)
        return
    if impl[0] == "err":
        ctx.disagree("C20.impl-raises", case, impl[1:], "ok")
        return
    real, model = impl[1], unwire(ans["ok"])
    sm = skeleton(_blank(model))
    if skeleton(real) != sm:
        ctx.disagree("C20.structure", case, skeleton(real), sm)
        return
    scale = max([abs(l["v"]) for t in case["insts"] for _, _, l in leaves(t) if l["k"] == "num"] + [1.0])
    for (p, _, lr), (_, _, lm) in zip(leaves(real), leaves(_blank(model, keep=True))):
        if lr["k"] != "num":
            continue
        want = lm["q"]
        exact = hit or list(p) == list(tp)
        got = lr["v"]
        if exact:
            ok = got == got and not math.isinf(got) and Fraction(got) == want
        else:
            ok = close_enough(got, float(want), scale)
            if got == got:
                key = "max_rel_error_" + case["kind"]
                err = abs(got - float(want)) / max(1.0, scale, abs(got))
                ctx.notes[key] = max(ctx.notes.get(key, 0.0), err)
                ctx.notes["numerical_tests"] = ctx.notes.get("numerical_tests", 0) + 1
        if not ok:
            ctx.disagree("C20.value", case, {"path": list(p), "impl": got}, {"model": float(want), "exact": exact})
            return


def _blank(t, keep=False):
    """model trees carry "q" (Fraction) instead of "v"; give them the shape `leaves`/`skeleton` expect"""
    k = t["k"]
    if k == "num":
        return {"k": "num", "q": t["q"], "v": 0.0} if keep else {"k": "num", "v": 0.0}
    if k in ("int", "opaque"):
        return t
    if k in ("obj", "dict"):
        out = {"k": k, "attrs": [[n, _blank(c, keep)] for n, c in t["attrs"]]}
        if k == "obj":
            out["cls"] = t["cls"]
        return out
    return {"k": k, "items": [_blank(c, keep) for c in t["items"]]}


def classify(through, distinct_ts, default):
    if not distinct_ts:
        return "C20-duplicate-abscissa"
    if "tup" in through:
        return "C20-tuple-not-interpolated"
    if "ilist" in through:
        return "C20-list-instance-not-interpolated"
    if "dict" in through:
        return "C20-dict-attribute"
    return default


def expected_leaf(kind, trees, tvals, p, v):
    """the interpolant of the parameter at `p` across the series (None: not defined)"""
    ys = []
    for t in trees:
        l = at(t, p)
        if l is None or l["k"] != "num":
            return None
        ys.append(l["v"])
    pts = sorted(set(zip(tvals, ys)))
    xs = [x for x, _ in pts]
    if len(set(xs)) != len(xs) or len(xs) < 2:
        return None
    try:
        if kind == "linear":
            return lsq_exact(xs, [y for _, y in pts], v)
        return spline_direct([float(x) for x in xs], [y for _, y in pts], v)
    except Exception:
        return None


def oracle(ctx, case, impl, tvals, hit, distinct_ts):
    kind, trees, tp, v = case["kind"], case["insts"], tuple(case["tp"]), float(case["v"])
    if None in tvals:
        return  # the interpolation variable is not a number in every instance: outside the property
    containers = {k for t in trees for _, th, l in leaves(t) if l["k"] == "num" for k in th}
    if impl[0] == "err":
        if len(set(tvals)) < 2:
            return  # fewer than two distinct abscissae: no interpolant exists
        cls = "C20-dict-attribute" if "dict" in containers else "C20-raises"
        ctx.fail(cls, "interpolation raised for a series of >= 2 instances with >= 2 distinct abscissae", case, impl[1:])
        return
    real = impl[1]
    scale = max([abs(l["v"]) for t in trees for _, _, l in leaves(t) if l["k"] == "num"] + [1.0])

    if hit:
        # returns that instance's values (bit for bit); with duplicate abscissae any of them
        cands = [t for t, tv in zip(trees, tvals) if tv == v]
        if real not in cands:
            ctx.fail("C20-hit", "query at a sampled value does not return that instance's values", case,
                     {"got": real, "candidates": cands[:2]})
    else:
        if len(set(tvals)) < 2:
            return
        # the interpolation variable itself equals the requested value
        lt = at(real, tp)
        if lt is None or lt["k"] != "num" or lt["v"] != v:
            ctx.fail("C20-variable-not-set",
                     "the interpolation variable of the result is not the requested value", case,
                     {"got": lt, "want": v})
        # every floating-point parameter is the interpolant of that parameter across the series
        seen = set()
        for p, through, l in leaves(trees[0]):
            if l["k"] != "num" or p == tp:
                continue
            want = expected_leaf(kind, trees, tvals, p, v)
            if want is None:
                if not distinct_ts:
                    ctx.hit("oracle-skip:duplicate-abscissa-ambiguous")
                continue
            got = at(real, p)
            ok = got is not None and got["k"] == "num" and close_enough(got["v"], want, scale)
            if not ok:
                c = classify(through, distinct_ts, "C20-interpolant")
                if c not in seen:
                    seen.add(c)
                    ctx.fail(c, f"parameter at {'.'.join(map(str, p))} is not the interpolant of that parameter across the series",
                             case, {"path": list(p), "got": got, "want": want})
        # exact for data that are linear in the variable
        for p, (a, b) in (case.get("linear") or {}).items():
            p = tuple(json.loads(p))
            l0 = at(trees[0], p)
            th = next((th for q, th, _ in leaves(trees[0]) if q == p), ())
            got = at(real, p)
            want = a * v + b
            if l0 is None or p == tp:
                continue
            if not (got is not None and got["k"] == "num" and close_enough(got["v"], want, scale)):
                c = classify(th, distinct_ts, "C20-linear-trend")
                if c not in seen:
                    seen.add(c)
                    ctx.fail(c, f"linear data at {'.'.join(map(str, p))} are not reproduced", case,
                             {"path": list(p), "got": got, "want": want})

    # ---- the interpolated values do not depend on the order in which instances were supplied
    n = len(trees)
    if n <= 4 and ctx.tier == "thorough":
        perms = [list(p) for p in itertools.permutations(range(n))][1:]
    else:
        perms = []
        for _ in range(2 if n > 2 else 1):
            p = list(range(n))
            ctx.rng.shuffle(p)
            if p != list(range(n)):
                perms.append(p)
        perms.append(list(reversed(range(n))))
    for perm in perms:
        other, _ = run_real(kind, [trees[i] for i in perm], list(tp), v, None)
        if other[0] != "ok":
            ctx.fail(classify((), distinct_ts, "C20-order-dependent"),
                     "interpolation raises for one order of the series and not for another", case,
                     {"perm": perm, "other": other[1:]})
            break
        bad = None
        lo = {p: (th, l) for p, th, l in leaves(other[1])}
        for p, through, l in leaves(real):
            if l["k"] != "num":
                continue
            o = lo.get(p)
            if o is None or o[1]["k"] != "num" or not close_enough(l["v"], o[1]["v"], scale):
                bad = (p, through, l, o[1] if o else None)
                break
        if bad:
            p, through, l, o = bad
            ctx.fail(classify(through, distinct_ts, "C20-order-dependent"),
                     f"value at {'.'.join(map(str, p))} depends on the order in which the instances were supplied",
                     case, {"perm": perm, "path": list(p), "this_order": l, "other_order": o})
            break


# ---------------------------------------------------------------------------------------------
# CovarianceInterpolator: the plumbing (model AF.InterpCov, request kind "cov"). The numeric kernels
# (numpy.cov per sample, scipy.linalg.inv, the nested-sampling fit of the relationships) are data: the
# fit is replaced by a harness-side fake search that returns relationships chosen by the generator.

COV_SHAPES = {
    "gaussian": [("g", "centre"), ("g", "normalization"), ("g", "sigma")],
    "flat2": [("v",), ("x",)],
    "flat1": [("v",)],
    "nested": [("g", "centre"), ("g", "normalization"), ("g", "sigma"), ("inner", "u", "a")],
}


def _cov_model(shape, tv):
    import vlib

    def gp():
        return af.GaussianPrior(mean=1.0, sigma=1.0)

    if shape == "gaussian":
        return af.Collection(t=tv, g=af.Model(Gaussian, centre=gp(), normalization=gp(), sigma=gp()))
    if shape == "flat2":
        return af.Collection(t=tv, v=gp(), x=gp())
    if shape == "flat1":
        return af.Collection(t=tv, v=gp())
    return af.Collection(t=tv, g=af.Model(Gaussian, centre=gp(), normalization=gp(), sigma=gp()),
                         inner=af.Collection(u=af.Model(vlib.P1, a=gp())))


def cov_build(case):
    """-> list of SamplesPDF (fresh objects) for a generated case"""
    paths = COV_SHAPES[case["shape"]]
    out = []
    for smp in case["samples"]:
        model = _cov_model(case["shape"], float(smp["t"]))
        sl = [af.Sample(log_likelihood=float(ll), log_prior=1.0, weight=1.0,
                        kwargs={tuple(p): float(x) for p, x in zip(paths, row)})
              for ll, row in zip(smp["logl"], smp["rows"])]
        out.append(af.SamplesPDF(model=model, sample_list=sl))
    return out


class _FakeSearch:
    """stands in for DynestyStatic inside autofit.interpolator.covariance: `fit` answers the relationships
    the generator chose (one per component of the relationship model, in order) and records what it was given"""
    rels = []
    seen = []

    def __init__(self, *a, **k):
        pass

    def fit(self, model, analysis, **kw):
        import autofit.interpolator.covariance as cv

        _FakeSearch.seen.append((model, analysis))

        class R:
            instance = [cv.LinearRelationship(m, c) for m, c in _FakeSearch.rels[: len(model)]]

        return R()


def cov_real(case, samples=None):
    """the real CovarianceInterpolator on the case -> dict of observables"""
    import autofit.interpolator.covariance as cv

    samples = samples if samples is not None else cov_build(case)
    ci = cv.CovarianceInterpolator(samples)
    tp = case["tp"]
    eq = functools.reduce(getattr, tp, ci) == case["v"]
    an = ci._analysis_for_value(eq)
    out = {"x": [float(x) for x in an.x], "y": [float(y) for y in an.y],
           "inv": np.array(an.inverse_covariance_matrix, dtype=float),
           "cm": np.array(ci.covariance_matrix(), dtype=float),
           "single": [i for i, s_ in enumerate(samples) if s_.model is ci._single_model]}
    old = cv.DynestyStatic
    cv.DynestyStatic = _FakeSearch
    _FakeSearch.rels = [(float(m), float(c)) for m, c in case["rels"]]
    _FakeSearch.seen = []
    try:
        r = ci[eq]
        out["result"] = tree_of(r)
        out["fit_calls"] = len(_FakeSearch.seen)
        if _FakeSearch.seen:
            m_, a_ = _FakeSearch.seen[0]
            out["fit_model_size"] = len(m_)
            out["fit_y"] = [float(y) for y in a_.y]
    except Exception as e:  # noqa
        out["result_err"] = f"{type(e).__name__}: {str(e)[:200]}"
    finally:
        cv.DynestyStatic = old
    return out, samples


def cov_inputs(samples, tp):
    """what the model is given of every SamplesPDF (read through the public API)"""
    rows = []
    for s_ in samples:
        inst = s_.max_log_likelihood()
        t = functools.reduce(getattr, tp, inst)
        rows.append({"t": float(t),
                     "params": [float(x) for x in s_.max_log_likelihood(as_instance=False)],
                     "cov": np.atleast_2d(np.array(s_.covariance_matrix, dtype=float)).tolist(),
                     "logl": float(s_.max_log_likelihood_sample.log_likelihood)})
    return rows


def cov_ask(ctx, case, rows, flags, held):
    k = len(COV_SHAPES[case["shape"]])
    req = {"p": "C20", "q": "cov", "k": k, "v": f2h(case["v"]), "held": f2h(held),
           "samples": [{"t": f2h(r["t"]), "params": [f2h(x) for x in r["params"]],
                        "cov": [[f2h(x) for x in row] for row in r["cov"]], "logl": f2h(r["logl"])} for r in rows],
           "rels": [[f2h(m), f2h(c)] for m, c in case["rels"]],
           "blocks_sorted": bool(flags["blocks_sorted"]), "sets_variable": bool(flags["sets_variable"])}
    return ctx.lean.ask(req)


def _fr(x):
    return Fraction(int(x["n"]), int(x["d"]))


def cov_probe_flags(ctx):
    """which of the two repairs the tree under test has (DESIGN: flag probing on the real code)"""
    case = {"shape": "flat2", "tp": ["t"], "v": 0.5, "rels": [[1.0, 0.0], [2.0, 0.0]],
            "samples": [{"t": 2.0, "logl": [-1.0, -2.0, -3.0], "rows": [[1.0, 2.0], [2.0, 5.0], [4.0, 3.0]]},
                        {"t": 1.0, "logl": [-1.5, -2.0, -3.0], "rows": [[10.0, 2.0], [-20.0, 7.0], [40.0, 3.5]]}]}
    real, samples = cov_real(case)
    rows = cov_inputs(samples, case["tp"])
    import scipy.linalg

    def inv_of(order):
        k = 2
        m = np.zeros((4, 4))
        for i, j in enumerate(order):
            m[i * k:(i + 1) * k, i * k:(i + 1) * k] = np.array(rows[j]["cov"])
        return scipy.linalg.inv(m + 1e-6 * np.eye(4))

    sorted_ok = np.allclose(real["inv"], inv_of([1, 0]), rtol=1e-9, atol=0)
    supplied_ok = np.allclose(real["inv"], inv_of([0, 1]), rtol=1e-9, atol=0)
    lt = at(real.get("result", {"k": "opaque"}), ("t",))
    flags = {"blocks_sorted": bool(sorted_ok and not supplied_ok),
             "sets_variable": bool(lt is not None and lt["k"] == "num" and lt["v"] == 0.5)}
    ctx.notes["cov_flags_observed"] = dict(flags)
    return flags


def gen_cov_case(rng):
    shape = rng.choice(["gaussian", "gaussian", "flat2", "flat1", "nested"])
    k = len(COV_SHAPES[shape])
    n = rng.choice([2, 3, 3, 4, 5])
    mode = rng.random()
    ts = rng.sample([i / 4 for i in range(-12, 24)], n)
    if mode < 0.2:
        ts.sort()
    elif mode < 0.3 and n >= 3:
        ts[rng.randrange(1, n)] = ts[0]  # duplicate abscissa: the stable sort keeps the order of supply
    samples = []
    for t in ts:
        m = rng.choice([3, 4, 6])
        spread = rng.choice([0.1, 1.0, 5.0])
        rows = [[round(t * (j + 1) + rng.uniform(-spread, spread), 4) for j in range(k)] for _ in range(m)]
        logl = [round(rng.uniform(-50, 0), 3) for _ in range(m)]
        if rng.random() < 0.25:
            logl = [rng.choice([-1.0, -2.0]) for _ in range(m)]  # ties within and between samples
        samples.append({"t": t, "rows": rows, "logl": logl})
    rels = [[round(rng.uniform(-3, 3), 3), round(rng.uniform(-10, 10), 3)] for _ in range(k)]
    lo, hi = min(ts), max(ts)
    v = rng.choice([float(rng.choice(ts)), rng.uniform(lo, hi), hi + rng.uniform(0.1, 2), lo - rng.uniform(0.1, 2)])
    tp = ["t"]
    if rng.random() < 0.2:
        tp = list(COV_SHAPES[shape][0])  # the variable is one of the fitted parameters
    return {"kind": "covariance", "shape": shape, "samples": samples, "rels": rels, "tp": tp, "v": float(v)}


def one_cov_case(ctx, case, flags, label="gen"):
    import scipy.linalg

    case = dict(case, label=label)
    paths = COV_SHAPES[case["shape"]]
    k, n = len(paths), len(case["samples"])
    tp, v = list(case["tp"]), float(case["v"])
    real, samples = cov_real(case)
    rows = cov_inputs(samples, tp)
    ts = [r["t"] for r in rows]
    distinct_ts = len(set(ts)) == n
    single_inst = tree_of(samples[real["single"][0]].max_log_likelihood()) if real["single"] else None
    held_l = at(single_inst, tuple(tp)) if single_inst else None
    held = held_l["v"] if held_l is not None and held_l["k"] == "num" else 0.0
    ans = cov_ask(ctx, case, rows, flags, held)
    ctx.case({"kind": "covariance", "case": json.dumps(case, sort_keys=True)},
             nontrivial=(n >= 3 and ts != sorted(ts)),
             sample={"kind": "covariance", "n": n, "k": k, "tp": tp, "v": v, "abscissae": ts,
                     "x": real["x"], "y": real["y"][:8]})
    ctx.hit("kind:covariance")
    ctx.hit("cov:n=%d" % n)
    ctx.hit("cov:shape=" + case["shape"])
    ctx.hit("cov:order=" + ("sorted" if ts == sorted(ts) else "unsorted"))
    if not distinct_ts:
        ctx.hit("cov:duplicate-abscissa")
    if "driver_error" in ans:
        ctx.disagree("C20.driver", case, None, ans)
        return

    # ---- correspondence: moved data bit-exactly
    mx, my = [float(_fr(x)) for x in ans["x"]], [float(_fr(y)) for y in ans["y"]]
    if real["x"] != mx or real["y"] != my:
        ctx.disagree("C20.cov-xy", case, {"x": real["x"], "y": real["y"]}, {"x": mx, "y": my})
    mcov = np.array([[float(_fr(e)) for e in row] for row in ans["cov"]], dtype=float).reshape(n * k, n * k)
    try:
        want_inv = scipy.linalg.inv(mcov + 1e-6 * np.eye(n * k))
        inv_ok = real["inv"].shape == want_inv.shape and np.allclose(real["inv"], want_inv, rtol=1e-7, atol=0)
    except Exception:
        inv_ok = True
        ctx.hit("cov:singular")
    if not inv_ok:
        ctx.disagree("C20.cov-matrix", case, "inverse_covariance_matrix of the analysis",
                     {"model_blocks_sorted": flags["blocks_sorted"]})
    if flags["blocks_sorted"]:
        a2 = cov_ask(ctx, case, rows, dict(flags, blocks_sorted=False), held)
        supplied = np.array([[float(_fr(e)) for e in row] for row in a2["cov"]], dtype=float).reshape(n * k, n * k)
    else:
        supplied = mcov
    if real["cm"].shape != supplied.shape or not (real["cm"] == supplied).all():
        ctx.disagree("C20.cov-blocks", case, real["cm"].tolist(), supplied.tolist())
    msingle = ans["single"]
    if real["single"][:1] != [msingle]:
        ctx.disagree("C20.cov-single-model", case, real["single"], msingle)
    if "result" not in real:
        ctx.disagree("C20.cov-get-raises", case, real.get("result_err"), "ok")
        return
    res = real["result"]
    scale = max([abs(x) for r in rows for x in r["params"]] + [abs(v), 1.0])
    mvals = [_fr(x) for x in ans["values"]]
    for pth, mv in zip(paths, mvals):
        if flags["sets_variable"] and list(pth) == tp:
            continue
        l = at(res, tuple(pth))
        if l is None or l["k"] != "num" or not close_enough(l["v"], float(mv), scale):
            ctx.disagree("C20.cov-value", case, {"path": list(pth), "impl": l}, {"model": float(mv)})
            break
    lt = at(res, tuple(tp))
    mvar = _fr(ans["variable"])
    var_is_param = tuple(tp) in [tuple(p) for p in paths]
    if not (var_is_param and not flags["sets_variable"]):
        if lt is None or lt["k"] != "num" or Fraction(lt["v"]) != mvar:
            ctx.disagree("C20.cov-variable", case, lt, float(mvar))
    if real.get("fit_calls") != 1 or real.get("fit_model_size") != k or real.get("fit_y") != real["y"]:
        ctx.disagree("C20.cov-fit-call", case, {kk: real.get(kk) for kk in ("fit_calls", "fit_model_size")},
                     {"fit_calls": 1, "fit_model_size": k})

    # ---- oracle (own computation on the real outputs)
    order = sorted(range(n), key=lambda i: ts[i])
    if distinct_ts:
        want_y = [x for i in order for x in rows[i]["params"]]
        if real["x"] != [ts[i] for i in order] or real["y"] != want_y:
            ctx.fail("C20-covariance-gather", "x is not the sorted abscissae / y not the parameter vectors in that order",
                     case, {"x": real["x"], "y": real["y"]})
    # every fitted parameter of the answer is its relationship evaluated at the requested value
    for j, pth in enumerate(paths):
        if list(pth) == tp:
            continue
        l = at(res, tuple(pth))
        m_, c_ = case["rels"][j]
        if l is None or l["k"] != "num" or not close_enough(l["v"], m_ * v + c_, scale):
            ctx.fail("C20-covariance-interpolant", f"parameter at {'.'.join(pth)} is not its relationship at the requested value",
                     case, {"path": list(pth), "got": l, "want": m_ * v + c_})
            break
    # the interpolation variable itself equals the requested value
    if lt is None or lt["k"] != "num" or lt["v"] != v:
        ctx.fail("C20-covariance-variable-not-set",
                 "CovarianceInterpolator: the interpolation variable of the result is not the requested value", case,
                 {"got": lt, "want": v})
    # what is fitted does not depend on the order in which the samples were supplied
    perm = list(range(n))
    ctx.rng.shuffle(perm)
    if perm == list(range(n)):
        perm.reverse()
    other, _ = cov_real(dict(case, samples=[case["samples"][i] for i in perm]))
    same_xy = other["x"] == real["x"] and other["y"] == real["y"]
    same_inv = other["inv"].shape == real["inv"].shape and np.allclose(other["inv"], real["inv"], rtol=1e-7, atol=1e-12)
    if not (same_xy and same_inv):
        cls = "C20-duplicate-abscissa" if not distinct_ts else (
            "C20-covariance-blocks-unsorted" if same_xy else "C20-covariance-order-dependent")
        ctx.fail(cls, "CovarianceInterpolator: the analysis that is fitted (x, y, inverse covariance) depends on the "
                      "order in which the samples were supplied", case, {"perm": perm, "same_xy": same_xy, "same_inv": same_inv})
    elif distinct_ts and "result" in other and (
            [(p_, l_["v"]) for p_, _, l_ in leaves(other["result"]) if l_["k"] == "num"]
            != [(p_, l_["v"]) for p_, _, l_ in leaves(res) if l_["k"] == "num"]):
        ls = [s_["logl"] for s_ in case["samples"]]
        best = max(max(l_) for l_ in ls)
        if sum(1 for l_ in ls if max(l_) == best) < 2:  # ties in the best likelihood: either model may be the template
            ctx.fail("C20-covariance-order-dependent", "CovarianceInterpolator: the answer depends on the order of the samples",
                     case, {"perm": perm, "this": real.get("result"), "other": other.get("result")})


# ---------------------------------------------------------------------------------------------
# generator

NAMES = ["a", "b", "c", "centre", "sigma", "normalization", "k", "w", "t", "x"]
CLASSES = ["ModelInstance", "P2", "Nest", "Thing", "Gaussian"]


def gen_shape(rng, depth, edge):
    """shape = tree whose numbers are replaced by {"k": "slot", "id": i}"""
    slots = []

    def leaf():
        slots.append(len(slots))
        return {"k": "slot", "id": slots[-1]}

    def node(d):
        r = rng.random()
        if d >= depth or r < 0.45:
            return leaf()
        if r < 0.75:
            cls = rng.choice(CLASSES)
            if cls == "Gaussian":
                return {"k": "obj", "cls": cls, "attrs": [[nm, leaf()] for nm in ("centre", "normalization", "sigma")]}
            return {"k": "obj", "cls": cls, "attrs": attrs(d + 1, rng.randint(1, 3))}
        if r < 0.85:
            return {"k": "list", "items": [node(d + 1) for _ in range(rng.randint(1, 3))]}
        if r < 0.90:
            return {"k": "opq"}
        if r < 0.93:
            return {"k": "intv"}
        if edge == "tup":
            return {"k": "tup", "items": [leaf() for _ in range(rng.randint(1, 3))]}
        if edge == "dict":
            return {"k": "dict", "attrs": attrs(d + 1, rng.randint(1, 2))}
        if edge == "ilist":
            return {"k": "ilist", "items": [node(d + 1) for _ in range(rng.randint(1, 2))]}
        return leaf()

    def attrs(d, m):
        names = rng.sample(NAMES, m)
        return [[nm, node(d)] for nm in names]

    root_attrs = attrs(1, rng.randint(1, 4))
    # guarantee the edge container when one was asked for
    if edge in ("tup", "dict", "ilist") and edge not in json.dumps(root_attrs):
        nm = rng.choice([x for x in ["pos", "extra", "q"]])
        if edge == "tup":
            root_attrs.append([nm, {"k": "tup", "items": [leaf() for _ in range(2)]}])
        elif edge == "dict":
            root_attrs.append([nm, {"k": "dict", "attrs": [["u", leaf()]]}])
        else:
            root_attrs.append([nm, {"k": "ilist", "items": [leaf(), {"k": "obj", "cls": "P2", "attrs": [["a", leaf()]]}]}])
    return {"k": "obj", "cls": "ModelInstance", "attrs": root_attrs}, slots


def slot_paths(shape, path=()):
    k = shape["k"]
    if k == "slot":
        yield path, shape["id"]
    elif k in ("obj", "dict"):
        for n, c in shape["attrs"]:
            yield from slot_paths(c, path + (n,))
    elif k in ("list", "tup", "ilist"):
        for i, c in enumerate(shape["items"]):
            yield from slot_paths(c, path + (i,))


def fill(shape, vals, inst_no, vary_opaque, rng_tags):
    k = shape["k"]
    if k == "slot":
        x = vals[shape["id"]]
        return {"k": "int", "n": x} if isinstance(x, int) else {"k": "num", "v": x}
    if k == "opq":
        tag = rng_tags[inst_no % len(rng_tags)] if vary_opaque else rng_tags[0]
        return {"k": "opaque", "tag": tag}
    if k == "intv":
        return {"k": "int", "n": (inst_no + 2) if vary_opaque else 7}
    if k in ("obj", "dict"):
        out = {"k": k, "attrs": [[n, fill(c, vals, inst_no, vary_opaque, rng_tags)] for n, c in shape["attrs"]]}
        if k == "obj":
            out["cls"] = shape["cls"]
        return out
    return {"k": k, "items": [fill(c, vals, inst_no, vary_opaque, rng_tags) for c in shape["items"]]}


def gen_case(rng, edge=None):
    kind = "linear" if rng.random() < 0.6 else "spline"
    shape, slots = gen_shape(rng, rng.choice([1, 2, 2, 3]), edge)
    sp = list(slot_paths(shape))
    # the interpolation variable: an existing slot addressed by attribute names only, or a new root attribute
    cands = [(p, i) for p, i in sp if all(isinstance(k, str) for k in p) and _addressable(shape, p)]
    if cands and rng.random() < 0.5:
        tp, tslot = rng.choice(cands)
    else:
        tslot = len(slots)
        slots.append(tslot)
        name = "t" if not any(n == "t" for n, _ in shape["attrs"]) else "time"
        pos = rng.randint(0, len(shape["attrs"]))
        shape["attrs"].insert(pos, [name, {"k": "slot", "id": tslot}])
        tp = (name,)
        sp = list(slot_paths(shape))
    n = rng.choice([2, 2, 3, 3, 3, 4, 4, 5, 6, 8])
    # abscissae
    mode = rng.random()
    if mode < 0.3:
        grid = [float(i) for i in range(-5, 12)]
        ts = rng.sample(grid, n)
    elif mode < 0.5:
        grid = [i / 10 for i in range(-20, 40)]
        ts = rng.sample(grid, n)
    else:
        ts = []
        while len(ts) < n:
            x = round(rng.uniform(-10, 10), rng.choice([1, 2, 6, 15]))
            if all(abs(x - y) > 0.05 for y in ts):
                ts.append(x)
    if edge == "dup" and n >= 2:
        j = rng.randrange(1, n)
        ts[j] = ts[rng.randrange(0, j)]
    int_t = edge == "int_t"
    if int_t:
        ts = rng.sample(range(-5, 12), n)
    # data per slot
    funcs = {}
    linear = {}
    for p, i in sp:
        if i == tslot:
            continue
        r = rng.random()
        if r < 0.4:
            a, b = round(rng.uniform(-5, 5), 3), round(rng.uniform(-50, 50), 3)
            funcs[i] = ("lin", a, b)
            linear[json.dumps(list(p))] = (a, b)
        elif r < 0.55:
            funcs[i] = ("const", round(rng.uniform(-50, 50), 3))
        elif r < 0.8:
            funcs[i] = ("quad", rng.uniform(-1, 1), rng.uniform(-5, 5), rng.uniform(-50, 50))
        else:
            funcs[i] = ("rand",)
    trees = []
    vary = rng.random() < 0.5
    tags = rng.sample(["str:x", "str:y", "None", "bool:True", "str:label", "bool:False"], 3)
    for j, t in enumerate(ts):
        vals = {}
        for i in slots:
            if i == tslot:
                vals[i] = t
                continue
            f = funcs[i]
            if f[0] == "lin":
                vals[i] = f[1] * t + f[2]
            elif f[0] == "const":
                vals[i] = f[1]
            elif f[0] == "quad":
                vals[i] = f[1] * t * t + f[2] * t + f[3]
            else:
                vals[i] = rng.uniform(-100, 100)
        trees.append(fill(shape, vals, j, vary, tags))
    if edge == "dup_same":
        trees.append(copy.deepcopy(trees[rng.randrange(len(trees))]))
        rng.shuffle(trees)
    lo, hi = min(ts), max(ts)
    r = rng.random()
    if r < 0.25:
        v = float(rng.choice(ts))
    elif r < 0.7:
        v = rng.uniform(lo, hi)
    elif r < 0.85:
        v = hi + rng.uniform(0.01, 1.0) * (hi - lo + 1)
    else:
        v = lo - rng.uniform(0.01, 1.0) * (hi - lo + 1)
    if rng.random() < 0.3:
        v = round(v, 2)
    if edge == "dup_same":
        linear = {}
    # only data that are float-exactly linear count as "linear" for the dedicated clause: they all are up to rounding
    return {"kind": kind, "insts": trees, "tp": list(tp), "v": float(v), "linear": linear}


def _addressable(shape, p):
    """reachable through objects only (getattr)"""
    t = shape
    for k in p:
        if t["k"] != "obj":
            return False
        t = dict((n, c) for n, c in t["attrs"])[k]
    return True


def api_case(rng):
    """series built through the public model API: Collection(...).instance_from_vector"""
    import vlib

    kind = "linear" if rng.random() < 0.6 else "spline"
    use_tuple = rng.random() < 0.25
    comps = {"t": af.UniformPrior(lower_limit=-100.0, upper_limit=100.0)}
    comps["g"] = af.Model(Gaussian)
    if rng.random() < 0.6:
        comps["n"] = af.Model(vlib.Nest)
    if use_tuple:
        comps["q"] = af.Model(vlib.T2)
    if rng.random() < 0.5:
        comps["m"] = af.Model(vlib.Mode)
    if rng.random() < 0.4:
        comps["inner"] = af.Collection(u=af.Model(vlib.P2), v=af.Model(vlib.P1))
    model = af.Collection(**comps)
    for p in list(model.priors_ordered_by_id):
        pass
    n = rng.choice([2, 3, 4, 5])
    ts = rng.sample([i / 4 for i in range(-12, 24)], n)
    k = model.prior_count
    order = [p for p in model.priors_ordered_by_id]
    t_index = order.index(model.t)
    coef = [(round(rng.uniform(-3, 3), 2), round(rng.uniform(-20, 20), 2)) for _ in range(k)]
    trees = []
    for t in ts:
        vec = [a * t + b for a, b in coef]
        vec[t_index] = t
        inst = model.instance_from_vector(vec, ignore_prior_limits=True)
        trees.append(tree_of(inst))
    linear = {}
    for p, through, l in leaves(trees[0]):
        if l["k"] != "num" or p == ("t",):
            continue
        y = [at(t, p)["v"] for t in trees]
        # recover the coefficients from the generated vector
        for a, b in coef:
            if all(y_ == a * t + b for y_, t in zip(y, ts)):
                linear[json.dumps(list(p))] = (a, b)
                break
    lo, hi = min(ts), max(ts)
    v = rng.choice([float(rng.choice(ts)), rng.uniform(lo, hi), hi + rng.uniform(0.1, 2), lo - rng.uniform(0.1, 2)])
    return {"kind": kind, "insts": trees, "tp": ["t"], "v": float(v), "linear": linear}, use_tuple


def run(ctx):
    ctx.rule = RULE
    ctx.assumptions = [
        "instances are trees (no object shared between two places of one instance); public attributes only",
        "numbers are finite doubles; the interpolation variable is addressed by attribute names",
        "interpolated values are compared with the exact least-squares value / scipy's CubicSpline called "
        "directly at relative tolerance 1e-8 (of the largest magnitude in the series); moved data bit-exactly",
        "the spline's mathematics is scipy's (trusted): the model receives its values as a table",
    ]
    for f in sorted((VERIF / "corpus" / "C20").glob("*.json")):
        c = json.loads(f.read_text())
        if c.get("kind") == "covariance":
            continue  # run below by one_cov_case
        one_case(ctx, c, label=f.name)
    # the stored witness of every known finding is expected to reproduce (reported, not an alarm: a
    # finding that stops reproducing has been repaired upstream and its entry should become "fixed")
    ctx.notes["known_witness_not_reproduced"] = sorted(
        k["id"] for k in ctx.known if k.get("status") == "known" and k["id"] not in ctx.known_hits)
    # CovarianceInterpolator plumbing (request kind "cov")
    cov_flags = cov_probe_flags(ctx)
    for f in sorted((VERIF / "corpus" / "C20").glob("cov_*.json")):
        one_cov_case(ctx, json.loads(f.read_text()), cov_flags, label=f.name)
    for _ in range(ctx.n(40, 300)):
        one_cov_case(ctx, gen_cov_case(ctx.rng), cov_flags)
    ctx.notes["known_witness_not_reproduced"] = sorted(
        k["id"] for k in ctx.known if k.get("status") == "known" and k["id"] not in ctx.known_hits)
    n = ctx.n(1200, 15000)
    for k in range(n):
        r = ctx.rng.random()
        edge = None
        if r < 0.04:
            edge = "tup"
        elif r < 0.07:
            edge = "dict"
        elif r < 0.10:
            edge = "ilist"
        elif r < 0.14:
            edge = "dup"
        elif r < 0.17:
            edge = "dup_same"
        elif r < 0.24:
            edge = "int_t"
        if r > 0.9:
            case, _ = api_case(ctx.rng)
            ctx.hit("route:api")
            one_case(ctx, case, label="api")
        else:
            ctx.hit("route:tree" + (":" + edge if edge else ""))
            one_case(ctx, gen_case(ctx.rng, edge))


def replay(ctx, payload):
    case = payload.get("case") or payload.get("disagreements", [{}])[0].get("case")
    if case.get("kind") == "covariance":
        one_cov_case(ctx, case, cov_probe_flags(ctx), label="replay")
    else:
        one_case(ctx, case, label="replay")
    print(json.dumps({"failures": ctx.failures[:3], "disagreements": ctx.disagreements[:3]}, default=str)[:3000])
